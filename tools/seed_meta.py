#!/usr/bin/env python3
"""Turn seeded/<D>/meta.attacker.json + /dev/shm/seedrun-<D>.log into seeded/<D>/meta.json."""
import json, os, re, sys
for d in sys.argv[1:]:
    ap = f'/verif/seeded/{d}/meta.attacker.json'
    if not os.path.exists(ap):
        print("skip", d); continue
    a = json.load(open(ap))
    log = open(f'/dev/shm/seedrun-{d}.log').read() if os.path.exists(f'/dev/shm/seedrun-{d}.log') else ''
    runs = re.findall(r'MUTRUN id=(C\d+) exit=(\d+)', log)
    sigs = re.findall(r'signature: (.*)', log)
    pid = a.get('property', d[:3])
    detected = any(i == pid and e == '1' for i, e in runs)
    meta = {"property": pid, "breaks": a.get("summary"), "needs_to_manifest": a.get("needs_to_manifest"),
            "files_changed": a.get("files_changed"),
            "origin": "independent sub-agent given only the property text and a private worktree",
            "confirmed_by_coordinator": {"how": "tools/seed_verify.sh in the attacker's worktree: demo passes on clean HEAD, patch applies, `cargo test --workspace --no-fail-fast --offline` passes with the patch, demo fails with the patch", "result": "confirmed"},
            "check_run": {"command": f"tools/mutrun.py --patch seeded/{d}/patch.diff --ids {pid} (quick tier, default seed)",
                          "exit_codes": {i: int(e) for i, e in runs}, "signatures": sorted(set(sigs))[:4], "detected": detected}}
    json.dump(meta, open(f'/verif/seeded/{d}/meta.json', 'w'), indent=1)
    os.remove(ap)
    print(d, "detected" if detected else "MISSED", runs)
