#!/usr/bin/env python3
"""Run checks against a *mutated scratch copy* of /repo, never against /repo's working tree.

  tools/mutrun.py --patch FILE --ids C01,C02 [--slot N] [--tier quick] [--seed S] [--keep] [--base REV]
  tools/mutrun.py --sed 's/a/b/' --file crates/x/src/y.rs --ids C01     (one-line mutation instead of a patch)

Creates a git worktree of /repo (HEAD, or --base) at /root/verif-mut/slot<N>/repo, applies the patch,
copies /verif (without build output) next to it with every `/repo/` path dependency rewritten to the
worktree, and runs `./check <ID>` there with VERIF_REPO pointing at the worktree and a per-slot
CARGO_TARGET_DIR (/verif/harness/target-mut<N>, kept between runs for incremental builds).
Prints one line per id: `MUTRUN id=<ID> exit=<code>` followed by the tail of the output.
The worktree and the /verif copy are removed afterwards unless --keep is given.
"""
import argparse
import os
import shutil
import subprocess
import sys

VERIF = os.path.dirname(os.path.dirname(os.path.abspath(__file__)))


def sh(cmd, **kw):
    return subprocess.run(cmd, shell=isinstance(cmd, str), text=True, **kw)


def main():
    ap = argparse.ArgumentParser()
    ap.add_argument("--patch")
    ap.add_argument("--sed")
    ap.add_argument("--file")
    ap.add_argument("--ids", required=True)
    ap.add_argument("--slot", default="0")
    ap.add_argument("--tier", default="quick")
    ap.add_argument("--seed")
    ap.add_argument("--base", default="HEAD")
    ap.add_argument("--keep", action="store_true")
    ap.add_argument("--tail", type=int, default=25)
    ap.add_argument("--no-mutation", action="store_true", help="run on an unmutated worktree (control)")
    a = ap.parse_args()

    base = f"/root/verif-mut/slot{a.slot}"
    wt = os.path.join(base, "repo")
    vc = os.path.join(base, "verif")
    target = os.path.join(VERIF, "harness", f"target-mut{a.slot}")
    os.makedirs(base, exist_ok=True)

    def cleanup():
        sh(["git", "-C", "/repo", "worktree", "remove", "--force", wt], capture_output=True)
        shutil.rmtree(wt, ignore_errors=True)
        shutil.rmtree(vc, ignore_errors=True)
        sh(["git", "-C", "/repo", "worktree", "prune"], capture_output=True)

    cleanup()
    r = sh(["git", "-C", "/repo", "worktree", "add", "--detach", wt, a.base], capture_output=True)
    if r.returncode != 0:
        print("MUTRUN-ERROR worktree:", r.stderr)
        sys.exit(3)
    try:
        if a.patch:
            r = sh(["git", "-C", wt, "apply", os.path.abspath(a.patch)], capture_output=True)
            if r.returncode != 0:
                print("MUTRUN-ERROR patch does not apply:", r.stderr)
                sys.exit(3)
        elif a.sed:
            r = sh(["sed", "-i", "-E", a.sed, os.path.join(wt, a.file)], capture_output=True)
            if r.returncode != 0:
                print("MUTRUN-ERROR sed:", r.stderr)
                sys.exit(3)
            d = sh(["git", "-C", wt, "diff", "--stat"], capture_output=True).stdout
            if not d.strip():
                print("MUTRUN-ERROR sed changed nothing")
                sys.exit(3)
        elif not a.no_mutation:
            print("MUTRUN-ERROR need --patch, --sed or --no-mutation")
            sys.exit(3)
        print(sh(["git", "-C", wt, "diff", "--stat"], capture_output=True).stdout.strip())
        # reuse third-party build output for the CLI build
        if os.path.isdir("/repo/target/debug") and not os.path.isdir(os.path.join(wt, "target")):
            os.makedirs(os.path.join(wt, "target"), exist_ok=True)
            sh(["rsync", "-a", "--exclude", "incremental", "--exclude", "nextest", "--exclude", "tmp",
                "/repo/target/debug", os.path.join(wt, "target") + "/"], capture_output=True)
        # copy /verif without build output / git
        sh(["rsync", "-a", "--delete", "--exclude", ".git", "--exclude", "harness/target*", "--exclude",
            "harness/fuzz/target", "--exclude", "harness/miri_conc/target", "--exclude", "evidence",
            "--exclude", "replays/*/violation-*", VERIF + "/", vc + "/"], check=True)
        for root, _, files in os.walk(os.path.join(vc, "harness")):
            for f in files:
                if f == "Cargo.toml" or f.endswith(".toml"):
                    p = os.path.join(root, f)
                    s = open(p).read()
                    if "/repo/" in s:
                        open(p, "w").write(s.replace('"/repo/', f'"{wt}/'))
        env = dict(os.environ)
        env.update({"VERIF_REPO": wt, "CARGO_TARGET_DIR": target, "CARGO_NET_OFFLINE": "true"})
        rc_all = 0
        for pid in a.ids.split(","):
            cmd = ["./check", pid, "--tier", a.tier]
            if a.seed:
                cmd += ["--seed", a.seed]
            r = sh(cmd, cwd=vc, env=env, capture_output=True)
            out = (r.stdout or "") + (r.stderr or "")
            print(f"MUTRUN id={pid} exit={r.returncode}")
            for l in out.strip().splitlines()[-a.tail:]:
                print("   ", l)
            rc_all = max(rc_all, r.returncode)
        sys.exit(0)
    finally:
        if not a.keep:
            cleanup()


if __name__ == "__main__":
    main()
