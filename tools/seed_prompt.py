#!/usr/bin/env python3
"""Print the prompt for an independent 'attacker' sub-agent for one property (only the property text and a worktree)."""
import json, sys
pid, wt = sys.argv[1], sys.argv[2]
variant = sys.argv[3] if len(sys.argv) > 3 else ""
p = next(json.loads(l) for l in open('/verif/properties.jsonl') if json.loads(l)['id'] == pid)
print(f"""You are given a private git worktree of the Rust repository isographlabs/isograph at {wt} (a compiler that parses GraphQL schemas and "iso" literals, validates client fields, merges selection sets and generates TypeScript artifacts, plus the `pico` incremental-memoization crate and forked relay crates). It builds and its test suite passes offline (no network is available: always pass `--offline` to cargo; a warm `target/` directory is already in the worktree). Work ONLY inside {wt}; do not read or write anything under /verif or /repo, and do not look for other people's tooling.

Here is a semantic property of this code base that should always hold:

  {p['id']} — {p['title']}
  {p['statement']}
  Quantified over: {p['quantifier']['text']}
  Code it is anchored in: {', '.join(p['anchors']['files'])}

Your task is to play the adversary: produce ONE small change to the repository's source code (not to its tests) that BREAKS this property while
  (a) everything still compiles (`cargo build --workspace --offline`), and
  (b) the existing test suite still passes unedited (`cargo test --workspace --no-fail-fast --offline`; it takes about a minute with the warm target), and
  (c) the breakage needs something specific to manifest — a particular interleaving, a fault at a particular point, a multi-step sequence of operations, an unusual input, or two cooperating sites that each look fine alone — rather than something ordinary use or a smoke test would expose at once. It should look like a plausible, realistic regression (a refactor gone subtly wrong, an optimisation that drops a case, an off-by-one, a missed invalidation …), not like sabotage. {variant}

Deliver, in the directory {wt}/SEED_RESULT/ :
  * `patch.diff` — `git diff` of your source change only (must apply with `git apply` to a clean checkout of the worktree's HEAD);
  * a demonstration that FAILS with the change and PASSES without it: a Rust test file or small program plus the exact command to run it (e.g. a new `#[test]` in a new file under the crate's `tests/` directory, or a shell script driving `target/debug/isograph_cli` on a tiny project); put it under `SEED_RESULT/demo/` together with `run.sh` that exits 0 when the property holds and non-zero when it is violated, when run from the worktree root; the demonstration must not be part of patch.diff;
  * `meta.json`: {{"property": "{p['id']}", "summary": "...what the change does...", "needs_to_manifest": "...the specific input / sequence / schedule / fault needed...", "files_changed": [...], "verified": {{"builds": true/false, "existing_tests_pass": true/false, "demo_fails_with_patch": true/false, "demo_passes_without_patch": true/false}}, "commands": [...what you ran...]}}.

Verify all four facts yourself before finishing (apply/revert the patch with `git apply` / `git apply -R`), and leave the worktree with the patch REVERTED (clean source tree, SEED_RESULT/ untracked). Always pipe long command output through `tail`. Your final message should summarise the change, what it needs to manifest, and the verification results in a few lines.""")
