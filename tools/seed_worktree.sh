#!/bin/bash
# usage: tools/seed_worktree.sh <name>   -> creates /tmp/seed-<name> (worktree of /repo HEAD) with a warm target dir
set -e
n=$1
d=/tmp/seed-$n
git -C /repo worktree remove --force $d >/dev/null 2>&1 || true
rm -rf $d
git -C /repo worktree add --detach $d HEAD >/dev/null
mkdir -p $d/target
rsync -a --exclude incremental --exclude nextest --exclude tmp /repo/target/debug $d/target/
echo $d
