#!/bin/bash
# usage: tools/seed_verify.sh <name> [dest-name]
# Confirms an attacker's result in its own worktree /tmp/seed-<name>: demo passes without the patch,
# patch applies + builds + existing tests pass + demo fails with it; then stores it under /verif/seeded/<dest>.
n=$1; dest=${2:-$1}
d=/tmp/seed-$n; r=$d/SEED_RESULT
cd $d || exit 9
[ -f $r/patch.diff ] || { echo "NO patch.diff"; exit 9; }
git apply -R --check $r/patch.diff 2>/dev/null && git apply -R $r/patch.diff   # make sure it is reverted
git status --short | grep -v SEED_RESULT | grep -v '^??' | head -5
cargo build --workspace --offline > /dev/shm/seedv-$n-build0.log 2>&1
echo "== demo without patch"; (bash $r/demo/run.sh > /dev/shm/seedv-$n-clean.log 2>&1); c0=$?; echo "exit=$c0"
echo "== apply"; git apply $r/patch.diff || { echo "PATCH DOES NOT APPLY"; exit 9; }
git diff --stat | tail -3
echo "== build + tests with patch"; cargo build --workspace --offline > /dev/shm/seedv-$n-build1.log 2>&1; cargo test --workspace --no-fail-fast --offline > /dev/shm/seedv-$n-tests.log 2>&1; ct=$?
grep -E "^test result: FAILED|^error" /dev/shm/seedv-$n-tests.log | head -5; echo "tests exit=$ct"
echo "== demo with patch"; (bash $r/demo/run.sh > /dev/shm/seedv-$n-patched.log 2>&1); c1=$?; echo "exit=$c1"
git apply -R $r/patch.diff
# demos may have added test files inside the tree: leave only SEED_RESULT untracked
if [ $c0 -eq 0 ] && [ $ct -eq 0 ] && [ $c1 -ne 0 ]; then
  mkdir -p /verif/seeded/$dest && cp $r/patch.diff /verif/seeded/$dest/ && rm -rf /verif/seeded/$dest/demo && cp -r $r/demo /verif/seeded/$dest/demo && cp $r/meta.json /verif/seeded/$dest/meta.attacker.json
  echo "CONFIRMED -> /verif/seeded/$dest"
else
  echo "NOT CONFIRMED (clean=$c0 tests=$ct patched=$c1)"; tail -5 /dev/shm/seedv-$n-clean.log; tail -5 /dev/shm/seedv-$n-patched.log
fi
