#!/usr/bin/env python3
"""Regenerates the generated part of DESIGN.md §8 (everything from the marker line to the end) from
known_findings.json, seeded/*/meta.json, MANIFEST.json and tools/design_notes.md."""
import glob
import json
import os

ROOT = os.path.dirname(os.path.dirname(os.path.abspath(__file__)))
MARK = "<!-- GENERATED BELOW: tools/design_asbuilt.py -->"


def findings():
    d = json.load(open(os.path.join(ROOT, "known_findings.json")))
    fs = d["findings"]
    nf = sum(1 for f in fs if f["status"] == "fixed")
    no = sum(1 for f in fs if f["status"] == "open")
    out = ["### 8.2 Findings on the pinned tree\n"]
    out.append(
        f"The checks fired on the unchanged tree for most properties (the given properties encode real defects). Each\n"
        f"firing was triaged per §6. **{nf} genuine defects were repaired** with unguarded `fix:` commits in /repo (each a\n"
        f"minimal patch; the pinned tests still pass with the guard off; the four checked-in projects still compile) and\n"
        f"**{no} are recorded as open findings** in `known_findings.json` (design limitations the authors annotate,\n"
        f"compiler/runtime disagreements that need a coordinated change, crashes without a small safe fix). Every open\n"
        f"finding has a root-cause signature, a `replays/<ID>/known-*.json` reproducer that is re-run at the start of every\n"
        f"check, and - where that lets the search go deeper - a generator switch that excludes it by construction (exclusions\n"
        f"are counted in the evidence). Every repaired defect has a `replays/<ID>/regress-*.json` input that is re-run at\n"
        f"the start of every check, so the defect is reported again if it ever returns.\n")
    out.append("\n**Repaired (property, commit, what failed):**\n")
    for f in sorted(fs, key=lambda f: (f["property"], f.get("commit", ""))):
        if f["status"] == "fixed":
            w = f["what"]
            if w.startswith("fixed: "):
                parts = w.split(" ", 3)
                w = parts[3] if len(parts) > 3 else w
            out.append(f"* {f['property']} `{f.get('commit', '')}` - {w}")
    out.append("\n**Open (property, signature, what fails):**\n")
    for f in sorted(fs, key=lambda f: (f["property"], f.get("signature", ""))):
        if f["status"] == "open":
            out.append(f"* {f['property']} `{f['signature'][:100]}` - {f['what'][:500]}")
    return "\n".join(out) + "\n"


def seeded():
    rows = []
    for p in sorted(glob.glob(os.path.join(ROOT, "seeded", "*", "meta.json"))):
        m = json.load(open(p))
        d = os.path.basename(os.path.dirname(p))
        cr = m.get("check_run", {})
        det = "detected" if cr.get("detected") else "MISSED"
        if cr.get("detected_after_strengthening"):
            det = "detected after strengthening (" + cr["detected_after_strengthening"] + ")"
        sig = "; ".join(cr.get("signatures", [])[:2])
        rows.append(f"* `seeded/{d}` ({m['property']}): {str(m.get('breaks'))[:330]} - needs: {str(m.get('needs_to_manifest'))[:260]} - **{det}** by `./check {m['property']}`"
                    + (f" (`{sig[:120]}`)" if sig else ""))
    head = ("### 8.4 Seeded changes (independent attackers) and which checks catch them\n\n"
            "Each change under `seeded/<id>/` was written by a fresh sub-agent that was given only the text of one property and a\n"
            "private worktree of /repo (nothing from /verif). It compiles, passes the existing test-suite, and comes with a\n"
            "demonstration that fails with it and passes without it; all of that was re-confirmed with `tools/seed_verify.sh`\n"
            "before it was kept. The registered quick check of the property was then run against it with `tools/mutrun.py`\n"
            "(scratch worktree; /repo itself is never patched).\n\n")
    return head + "\n".join(rows) + "\n"


def notes():
    p = os.path.join(ROOT, "tools", "design_notes.md")
    return open(p).read() if os.path.exists(p) else ""


def main():
    path = os.path.join(ROOT, "DESIGN.md")
    s = open(path).read()
    if MARK in s:
        s = s[: s.index(MARK)]
    s = s.rstrip("\n") + "\n\n" + MARK + "\n\n" + findings() + "\n" + notes() + "\n" + seeded()
    open(path, "w").write(s)
    print("DESIGN.md regenerated,", len(s), "bytes")


if __name__ == "__main__":
    main()
