#!/usr/bin/env python3
"""Regenerates /verif/MANIFEST.json from the table below and validates it against the schema.
Edit CHECKS / NOT_APPLICABLE here, then run `python3 tools/manifest.py`."""
import json, os, sys
ROOT = os.path.dirname(os.path.dirname(os.path.abspath(__file__)))
GUARD = "isographlabs_isograph_verif"

# id -> (category, technique, level text, level note, design_ref)
CHECKS = {
 "C31": ("exploration", "property-based testing (proptest) against an independent caret-placement oracle",
         "Generated texts x spans on character boundaries are rendered and compared with an independent computation of the start row and of the exact character columns that must carry a caret; 40k cases quick, 2M thorough. Sampling, not proof.",
         "Spans are assumed to lie on character boundaries; the column number is not checked (the statement is about the row and the carets).", "5/C31"),
 "C33": ("exploration", "property-based testing (proptest): round trip + exhaustive single-character edit enumeration per generated file",
         "Generated contents with one or more tokens, bare tokens and look-alike signatures are signed; the result must verify, and every single-character substitution/insertion/deletion outside the signature digits (all positions for short files) must not verify.",
         "MD5 collisions are out of scope; nothing is assumed about how the signature is computed or where it is placed.", "5/C33"),
}
NOT_APPLICABLE = []

def main():
    hooks_commits = []
    try:
        import subprocess
        out = subprocess.run(["git", "-C", "/repo", "log", "--format=%H %s"], capture_output=True, text=True).stdout
        hooks_commits = [l.split()[0] for l in out.splitlines() if "verif hook" in l]
    except Exception:
        pass
    checks = []
    for pid in sorted(CHECKS):
        cat, tech, text, note, ref = CHECKS[pid]
        checks.append({
            "property_id": pid,
            "quick_cmd": f"./check {pid} --tier quick",
            "thorough_cmd": f"./check {pid} --tier thorough",
            "evidence_file": f"/verif/evidence/{pid}.json",
            "replay_cmd_template": f"./check {pid} --replay {{path}}",
            "engine": "check",
            "level_claimed": {"category": cat, "text": text, "design_ref": "DESIGN.md §" + ref},
            "level_note": note,
            "technique": tech,
        })
    m = {
        "version": 1,
        "setup_cmd": "./check --setup",
        "hooks": {
            "guard": GUARD,
            "enable": f"cargo feature `{GUARD}` on artifact_content, isograph_compiler, isograph_lsp and intern; the harness crates under /verif/harness depend on /repo's crates by path with that feature enabled",
            "baseline_off_cmd": "cd /repo && cargo test --workspace --no-fail-fast --offline",
            "source_commits": hooks_commits,
            "add_only": True,
        },
        "engines": [
            {"name": "check", "path": "/verif/check", "serves_properties": sorted(CHECKS),
             "kind_free_text": "python dispatcher that rebuilds the harness against /repo's working tree and runs one proptest/fuzz/schedule-exploration binary per property"},
        ],
        "checks": checks,
        "notes": "Exit codes: 0 held (KNOWN-FINDING lines possible), 1 VIOLATION, 2 inconclusive. known_findings.json lists recorded and fixed findings.",
        "not_applicable": NOT_APPLICABLE,
    }
    path = os.path.join(ROOT, "MANIFEST.json")
    json.dump(m, open(path, "w"), indent=1)
    try:
        import jsonschema
        jsonschema.validate(m, json.load(open("/root/.vp/MANIFEST.schema.json")))
        print("MANIFEST.json valid;", len(checks), "checks")
    except ImportError:
        print("MANIFEST.json written (jsonschema not importable here; validate with python3-vt)")

if __name__ == "__main__":
    main()
