#!/usr/bin/env python3
"""Regenerates /verif/MANIFEST.json from the table below and validates it against the schema.
Edit CHECKS / NOT_APPLICABLE here, then run `python3 tools/manifest.py`."""
import json, os, sys
ROOT = os.path.dirname(os.path.dirname(os.path.abspath(__file__)))
GUARD = "isographlabs_isograph_verif"

# id -> (category, technique, level text, level note, design_ref)
CHECKS = {
 "C01": ("exploration", "stateful model-based property testing (proptest histories, interpreter + never-memoizing reference model; bodies written once, generic over pico and the model)",
         "Histories of <=40 operations over 3 keyed sources, a singleton and a tracked map with 30 memoized function shapes (every parameter kind, depth 3, backdating, control-flow-dependent dependencies, tracked/untracked readers, intern_value / intern_ref, retain / GC with LRU capacity 1..3) run against pico and a plain-Rust model; every call / lookup value must equal a from-scratch evaluation. 400k histories quick, 3M thorough. Sampling, not proof.",
         "Documented pico preconditions are respected by construction (no write during a call, SourceId arguments only while the source exists); handle lookups only inside a write-free window; the open C03 intern_ref finding is excluded by construction.", "5/C01"),
 "C02": ("exploration", "stateful property testing with execution counters judged by an early-cut-off reference model",
         "Same histories as C01; per-(function, arguments) body executions are judged by a model that allows a run only if the node never ran, was collected per the root model, or a recorded direct dependency changed since its last run (this implies the equal-value-write, unrelated-write and backdating clauses). 300k histories quick, 3M thorough.",
         "A->B->A value flips count as changes; under-execution is C01's business; after a write-free GC re-executions are attributed to C03.", "5/C02"),
 "C03": ("exploration", "stateful model-based property testing (root / reachability model, execution counters, handle lookups) under process supervision (a pico-induced abort of the worker process is reported with the in-flight history) + replay of selected histories under Miri",
         "GC-heavy histories (capacity 1..3, retain / clear / never_garbage_collect, intern_ref re-interning) against a root model: the closure of retained + LRU roots is served without re-execution, live handles read their original values, no pico panic; selected histories are replayed under Miri (use-after-free, uninitialised reads). 60k native + 8 Miri histories quick, 1.2M + 200 thorough.",
         "Lookups / retains only for handles with a stated contract (obtained after the last write from a GC root closure); Miri runs Stacked Borrows with isolation disabled and leaks ignored; the open finding intern-ref-pointer-outlives-owner is tolerated by signature and excluded by construction.", "5/C03"),
 "C04": ("exploration", "property-based testing over a seed-generated Rust program with many same-signature #[memo] functions (compiled per seed) + exhaustive syn scan of the repository's #[memo] signatures",
         "A generated program of 30-60 modules whose #[memo] functions repeat textually identical signatures; generated call sequences interleaved with writes (including garbage collection and a paired write that re-executes a function with an unchanged result, i.e. backdating) must return each function's own value and never panic; plus an enumeration of all #[memo] signatures under /repo/crates for duplicate keys. 40k sequences over 1 program quick, 1M over 8 programs thorough.",
         "One compile per seed; duplicates in test programs that use separate databases are labelled, not failed.", "5/C04"),
 "C05": ("exploration", "model-based property testing (proptest) + shuttle random/PCT schedule sampling over feature-gated sync shims + Miri many-seeds",
         "Reference model of every intern table (id equality <=> value equality, lookup round trip, dense stable indices, order = text order, WithIntern serde round trips through bincode and serde_json) on 20k sequential + 4k serde cases; 5.4k shuttle executions (random + PCT depth 2/3) of 2-3 threads interning overlapping new values through the shims; 6 Miri seeds on real-thread programs (quick). Sampling of schedules, not all interleavings.",
         "shuttle explores sequentially consistent interleavings only; Miri adds randomized weak-memory executions on a few programs (run with -Zmiri-tree-borrows); OnceCell shard initialisation is not shimmed (covered by Miri programs only).", "5/C05"),
 "C06": ("exploration", "shuttle random/PCT schedule sampling over feature-gated sync shims + Miri many-seeds",
         "Adder/reader programs over a fresh AtomicArena with pre-fills at the bucket boundaries (0/128/384): refs pairwise distinct, get() reads back the added element at once / after publication / after join, len() monotone and exact at the end, every element dropped exactly once; 7k shuttle executions + 6 Miri seeds quick.",
         "SC interleavings only under shuttle; 2-3 adders x <=3 additions; Miri with -Zmiri-tree-borrows (Stacked Borrows rejects AtomicArena::drop's pointer narrowing, which no listed property speaks about).", "5/C06"),
 "C07": ("exploration", "property-based testing (grammar generator, layout generator, token / character mutants, arbitrary text) + libFuzzer campaign with the oracle inside the target",
         "Valid literals in random layouts, exotic whitespace, hostile values (out-of-range ints, floats, lists), 1-3-step mutants and arbitrary Unicode text: parse_iso_literal returns Ok or Err without panicking; every span in the result, every semantic token and the diagnostic location satisfies start <= end <= len on character boundaries; semantic tokens strictly increase and do not overlap. 150k cases quick, 3M + 10M libFuzzer executions thorough.",
         "Inputs are valid UTF-8 (the API takes a String); a build without debug assertions is not run separately (the fuzz target is opt-level 2 with debug assertions).", "5/C07"),
 "C08": ("exploration", "property-based testing over generated projects (tape-driven model-first generator, proptest shrinking), each compiled by a fresh process of the real CLI; exit status / signal oracle",
         "Generated valid projects of five feature tiers plus a refetch-dense preset (many client pointers, repeated client selections), single-fault mutants, raw token damage of schema / extension / sources and cyclic client fields are compiled by fresh isograph_cli processes; the process must exit 0 (iso.ts written) or 1 (diagnostics), never panic, abort or be killed by a signal. 2k projects quick, 80k thorough; recorded crash families are tolerated by root-cause signature only.",
         "The watch-mode clause is covered by C20's driver (panics there carry a C08-style signature); isograph_cli is the debug build of the working tree; a process exceeding 120 s is inconclusive.", "5/C08"),
 "C09": ("exploration", "property-based testing over generated projects (tape-driven model-first generator, proptest shrinking) compiled in-process; artifacts read as data with swc (tsread); oracle = the independent GraphQL front end refgql (parse + June-2018 validation rules)",
         "Accepted generated projects of four tiers (literal / variable / enum / null / object arguments, big and negative ints, odd strings, nested variables, abstract types, pointers, @loadable, __refetch, @exposeField) and the four checked-in projects; every operation the runtime can reach (cooked default export of query_text.ts / refetch query texts / persisted document) is parsed and validated by refgql against the schema built from the very SDL given to the compiler. 24k programs (about 33000 operations) quick, 240k thorough.",
         "relay's parse_executable is a logged second opinion; negative ints are excluded by construction in 3/4 of the cases (recorded finding, counted); three recorded design limitations tolerated by signature.", "5/C09"),
 "C10": ("exploration", "property-based testing with the repository's real TypeScript runtime (libs/isograph-react/src/core under node 22) as the oracle",
         "Accepted generated programs x 3-5 generated conforming responses per entrypoint (values per type, nulls where nullable, lists of 0..3, a concrete type per abstract position, ids from a small pool so entities are reached along several paths): the real runtime normalizes the response with the entrypoint's normalization AST and reads the entrypoint reader and every component reader the runtime reaches; any MissingData or exception is a violation. 8000 programs quick, 60000 thorough.",
         "Needs node 22 (exit 2 when absent). Project resolvers return null as in the generated sources; client-pointer targets and loadable fields are boundaries; responses come from a consistent world; five recorded root causes are excluded by construction in 4 of 5 programs and tolerated in the rest.", "5/C10"),
 "C11": ("exploration", "property-based testing over generated projects (tape-driven model-first generator, proptest shrinking) compiled in-process; artifacts read as data with swc (tsread); oracle = tree isomorphism between the refgql AST of the cooked operation text and the evaluated normalization AST",
         "Same domain as C09, for the entrypoint and every refetch artifact: each selection set matched as a multiset, arguments by name and kind (Literal / String / Enum / Object / Variable), inline-fragment types, Linked vs Scalar against the schema, concreteType exactly when the field's type is an object type. 24k programs quick, 240k thorough.",
         "Sibling order and isFallible are not asserted; two recorded deviations for abstract types (present in the checked-in pet-demo) tolerated by signature.", "5/C11"),
 "C12": ("exploration", "property-based testing + differential testing against the repository's TypeScript runtime executed under node 22",
         "Unit level: generated selections and pairs through normalization_alias, the compiler's emitted argument text (hook) and the runtime's getNetworkResponseKey: injectivity on pairs, legality of every key as a GraphQL name, compiler key == runtime key; every writable selection is also round-tripped through the real iso parser; project level: in every selection set of every operation of 300 compiled programs equal response keys mean equal (field, arguments) and each key equals the runtime key of the matching normalization-AST node. 62.5k unit cases + 300 programs quick, 1.6M + 10000 thorough.",
         "Needs node 22 (exit 2 when absent). Astral characters / float / enum values are API-level inputs the iso lexer cannot write. Six recorded root causes are tolerated one signature at a time.", "5/C12"),
 "C13": ("exploration", "property-based testing over generated projects compiled in-process; every artifact parsed with swc's TypeScript parser / serde_json, imports resolved against the artifact set",
         "Accepted generated programs (hostile descriptions and strings, the whole option space) and the four checked-in projects: every .ts artifact parses as a TypeScript module without any (recovered) error, every .json parses, every relative import inside the artifact directory names a generated file, imports leaving it name an existing source file. 24k programs quick, 400k thorough.",
         "swc_ecma_parser 3 is the reference for 'parses as TypeScript'; programs the compiler rejects or crashes on are skipped (counted).", "5/C13"),
 "C14": ("exploration", "metamorphic property-based testing: same files, fresh processes (fresh hash seeds), opposite creation order + decoy files; byte equality of artifact trees and diagnostics",
         "Generated valid projects, multi-fault invalid projects (several diagnostics) and the four checked-in projects are each compiled three times by fresh CLI processes in two layouts; artifact trees and normalised stderr must be identical. 400 generated projects quick, 12k thorough. Second leg: 60k (1M thorough) generated projects, three in four from a refetch-dense preset, are compiled twice in-process (fresh RandomState keys per compilation) as a candidate search for hash-order dependence; a candidate is reported only when fresh CLI processes reproduce a difference (up to 9 runs).",
         "tmpfs enumeration order depends on creation order (that is what varies discovery order); timing phrases and the scratch directory name are removed from stderr; cases on which the compiler crashes are skipped (C08).", "5/C14"),
 "C15": ("exploration", "metamorphic property-based testing over pairs of generated projects (permute selection sets / repeat a selection under another alias / extract part of a selection set into a fresh client field with variables threaded through)",
         "For every entrypoint the multiset of (cooked operation text, normalization AST) pairs - entrypoint query plus refetch queries - must be identical in P and its variant (the extraction variant also binds several fresh inner variables to one outer value). 24k pairs quick, 240k thorough.",
         "Pairs in which either program is not accepted are skipped and counted.", "5/C15"),
 "C16": ("exploration", "property-based testing with single-fault mutation operators decided by the project model; accept/reject oracle on in-process compiles",
         "Valid programs of the core/client-graph tiers must compile without diagnostics; mutants violating exactly one rule of the statement (10 operators) at a model-chosen location must be rejected with a diagnostic. 40k programs quick, 600k thorough.",
         "The 'generated language subset' is what G-PROJECT emits in those tiers (written into the evidence); list-typed variables are generated; the one shape still rejected (a nullable list passed to a list argument) is a recorded finding keyed by its diagnostic text; compiler crashes are C08's business.", "5/C16"),
 "C17": ("exploration", "stateful property-based testing over compile histories (in-process sessions, fresh states and fresh CLI processes), byte-exact snapshot oracle",
         "Histories: P0 compiled, then 1-5 further compiles with at least one invalid program (ten error kinds), in batch mode and as watch-style recompiles, from empty / missing / junk initial directories; the file map of the artifact directory before and after every compile that reported diagnostics must be identical. 480 histories quick, 16000 thorough.",
         "Write-phase I/O errors are outside C17's domain (C18/C19); a missing schema makes create_config panic before anything is written (labelled only); mtime-only rewrites are labelled, not failed.", "5/C17"),
 "C18": ("exploration", "property-based testing of artifact-set sequences on a real temporary directory (unit level) + stateful testing of edit-script histories end to end; directory-tree model oracle",
         "Unit: 1-6 related artifact sets per case through get_file_system_operations + apply_file_system_operations on directories that start missing, empty, holding a previous set or junk; end to end: edit-script histories through live sessions, fresh states and CLI processes. After every successful application / compile the regular files and their bytes equal the artifact set; later compiles of a session write only changed artifacts. 6000 unit cases + 480 histories quick.",
         "Symlinks and read-only leftovers are excluded; left-over empty directories are a label, not a failure.", "5/C18"),
 "C19": ("fault_enumeration", "exhaustive enumeration of the failing operation index of every generated plan x fault flavour x recovery flavour through the set_fault_plan hook",
         "For generated (initial directory, S0, edit, later edits) cases every operation index of the interrupted plan fails (error before the operation / truncated write / state dropped = process killed), followed by zero or more edits and a recovery compile in the same session, a fresh CompilerState or a fresh CLI process; the directory must equal the artifacts of that compile. 16 base cases (about 1100-1500 scenarios) quick, 640 base cases (55k scenarios) thorough.",
         "A fault is one failing operation (no multi-fault sequences, no failure inside remove_dir_all); a process kill is modelled as fault + dropped state; operation order inside a plan follows HashMap order, so which prefix an index represents varies between processes; CLI recovery only for first / middle / last index.", "5/C19"),
 "C20": ("exploration", "stateful differential testing over the real inotify watcher + notify-debouncer-full: incremental watch state vs a fresh compile after every window of file-system actions",
         "Generated histories of 1-6 windows of create / modify / delete / rename / move actions on files and folders (prefix-sibling folders, non-source and binary files, schema and extension edits, GCs) are applied to a real directory watched by the same debouncer the product builds; the collected events go through categorize_and_filter_events, update_sources and compile; after every window artifacts and diagnostics must equal a fresh CompilerState's and the watcher must not stop (Err from update_sources) or panic. 1600 histories quick, 48000 thorough.",
         "Linux inotify as observed in this sandbox only; events of a window are processed as one batch; timing never decides a verdict (sentinel barrier, retries, else inconclusive); four recorded findings are excluded by construction and counted; stray files in the artifact directory are C18's business.", "5/C20"),
 "C21": ("exploration", "stateful differential testing: live LspState vs a fresh server with the buffers opened, and vs a fresh server on the materialised effective contents",
         "Generated histories of didOpen / didChange / didClose notifications, on-disk edits, GCs and queries (diagnostics, semantic tokens, formatting, hover, go-to-definition) over 4 files; every answer must equal the fresh servers' answers. 10000 histories (24k queries) quick, 300000 thorough.",
         "ASCII contents; on-disk edits are delivered as synthesized notify events through the product's own categorisation; a handler panic is compared as an answer.", "5/C21"),
 "C22": ("exploration", "property-based round trip / metamorphic testing (format, re-parse, format again) through the real handler core on a scratch project",
         "Documents with 1-3 generated literals in random layouts surrounded by non-ASCII text: the edits applied with LSP (UTF-16) semantics replace exactly each literal's text, the re-parsed declaration equals the original modulo positions, and a second formatting pass changes nothing. 4000 documents quick, 150000 thorough.",
         "Indentation / appearance is not asserted; LSP end-of-line clamping semantics assumed.", "5/C22"),
 "C23": ("exploration", "property-based differential testing against a reference UTF-8 <-> UTF-16 position converter through the real handler cores on a scratch project",
         "Generated documents with several literals, multi-line tokens and non-ASCII / astral text before and inside literals: decoded semantic tokens are increasing, non-overlapping and each covers one generator token; formatting-edit, diagnostic and definition ranges equal the reference conversion of the compiler's byte span; hover / definition requests at token positions answer about that token. 20000 documents (about 1.4M tokens) quick, 240000 thorough.",
         "Lone CR line terminators are not generated; request positions only where unambiguous.", "5/C23"),
 "C24": ("exploration", "property-based testing over generated projects; hand model of the TypeScript conditional/template-literal type of iso.ts, verified against the file's shape on every run",
         "Accepted generated programs whose type/field names are prefixes of one another, with literal headers re-laid-out (whitespace kinds, spaces around the dot, leading whitespace), and the four checked-in projects: the first overload whose pattern is a prefix of the whitespace-stripped literal must exist and belong to the same declaration. 24k programs quick, 400k thorough.",
         "No TypeScript compiler exists offline: tsc's overload resolution is modelled by hand (assumption text in the evidence); if iso.ts stops having the modelled shape the check is inconclusive, not failing.", "5/C24"),
 "C25": ("exploration", "property-based testing over generated projects (tape-driven model-first generator, proptest shrinking) compiled in-process; artifacts read as data with swc (tsread); oracle = following the module graph as read.ts does, with position tracking through the entrypoint operation (model)",
         "Refetch-heavy generated programs (advanced tiers, __refetch / @loadable / exposed fields / pointers reused by several parents and entrypoints) and the checked-in projects: every usedRefetchQueries / refetchQueryIndex reference must be in range and select the __refetch__N artifact generated for that field at that position (operation name, wrapper, type condition, inner selection = the sub-tree at that position). 30k programs (about 33000 references) quick, 300k thorough.",
         "Below a client pointer, or when a variable cannot be resolved, only index, operation name and wrapper are judged (about 25% of references).", "5/C25"),
 "C26": ("exploration", "property-based testing over generated projects (tape-driven model-first generator, proptest shrinking) compiled in-process; artifacts read as data with swc (tsread); oracle = independent md-5 / sha2 hashing + refgql token streams of the persisted-on and persisted-off builds",
         "Generated and checked-in programs x {md5, sha256} x extra info x custom file name: every operationId is a key of the persisted-documents file, hash(document) equals the key, the document's token stream equals that of the non-persisted build's operation, and the key set equals the referenced id set. 16k (program, configuration) cases quick, 160k thorough.",
         "The custom file name always ends in .json; extraInfo is not judged.", "5/C26"),
 "C27": ("exploration", "property-based testing over generated projects (tape-driven model-first generator, proptest shrinking) compiled in-process; artifacts read as data with swc (tsread); oracle = the project model and the schema (param types) / the refgql AST of the operation and the schema (raw response types)",
         "param_type.ts: exactly one property per selection named by alias-or-name, recursively; | null iff the schema type is nullable at every list level; ReadonlyArray nesting equals list nesting. raw_response_type.ts: the key tree with list depth equals the one derived from the operation and the schema, per type condition. 24k programs (about 66k param types, 28k raw types) quick, 240k thorough.",
         "Leaf scalar types, optional markers and output / parameters types are not judged; selections of the checked-in projects come from the reader AST.", "5/C27"),
 "C28": ("exploration", "differential property-based testing: the plugin's visitor run in-process vs the compiler's parse of the same literal; modules compared through swc codegen",
         "Accepted literal headers x {commonjs, esmodule} x project / artifact-directory shapes x file depths: classification equals the compiler's, entrypoints import the relative path of <artifact_dir>/__isograph/<Type>/<Name>/entrypoint.ts with Type and Name from the compiler's AST, field / pointer calls become their function argument, other code unchanged. 100000 cases quick, 1000000 thorough.",
         "swc parser / codegen trusted; virtual paths (no file system).", "5/C28"),
 "C29": ("exploration", "differential property-based testing (Appendix-B grammar generators + token-level mutants) against the independent refgql reference; libFuzzer campaign with the same oracle in the thorough tier",
         "Generated executable and type-system documents (June 2018 grammar, SourceCharacters only, ignored tokens inserted freely) and four token-level mutants each: relay accepts iff the reference accepts; accepted trees equal; schema Display -> re-parse equal. 120k texts quick, 2.4M + 3M fuzz executions thorough.",
         "Descriptions relay's tree has no slot for are not compared; inputs whose acceptance depends on the post-2018 number look-ahead restriction are not judged; surrogate escapes excluded; listed findings tolerated by root-cause signature. refgql is hand-written from the spec and self-checked against its generator and relay's fixtures.", "5/C29"),
 "C30": ("exploration", "differential property-based testing against the independent refgql reference inside the supported SDL subset; libFuzzer campaign in the thorough tier",
         "Generated SDL restricted to the subset read off parse_schema.rs (+ extend type) and mutants: accept iff the reference accepts; types, fields, arguments, annotations, defaults, directives and description values equal the reference's. 120k texts quick, 2.4M + 3M fuzz executions thorough.",
         "Later-edition syntax the parser supports on purpose is not judged; listed findings tolerated by signature.", "5/C30"),
 "C31": ("exploration", "property-based testing (proptest) against an independent caret-placement oracle",
         "Generated texts x spans on character boundaries are rendered and compared with an independent computation of the start row and of the exact character columns that must carry a caret; 400k cases quick, 4M thorough. Sampling, not proof.",
         "Spans are assumed to lie on character boundaries; the column number is not checked (the statement is about the row and the carets).", "5/C31"),
 "C32": ("exploration", "exhaustive per-literal offset enumeration over generated literals, typed walk over all resolved-node variants",
         "For generated accepted literals and every byte offset 0..=len: the returned node and all its ancestors contain the offset, no node returned for another offset lies strictly inside it and contains the offset, and token anchors resolve to the expected node kind. 60000 literals (about 12M offsets) quick, 600000 thorough.",
         "The root declaration stands for the whole literal; anchors only at unambiguous offsets.", "5/C32"),
 "C33": ("exploration", "property-based testing (proptest): round trip + exhaustive single-character edit enumeration per generated file",
         "Generated contents with one or more tokens, bare tokens and look-alike signatures are signed; the result must verify, and every single-character substitution/insertion/deletion outside the signature digits (all positions for short files) must not verify.",
         "MD5 collisions are out of scope; nothing is assumed about how the signature is computed or where it is placed.", "5/C33"),
}
ALL_IDS = ["C%02d" % i for i in range(1, 34)]
NOT_APPLICABLE = [{"property_id": i, "reason": "check under construction in this round (see DESIGN.md section 5); not claimed until it is silent on the unchanged tree"} for i in ALL_IDS if i not in CHECKS]

def main():
    hooks_commits = []
    try:
        import subprocess
        out = subprocess.run(["git", "-C", "/repo", "log", "--format=%H %s"], capture_output=True, text=True).stdout
        hooks_commits = [l.split()[0] for l in out.splitlines() if "verif hook" in l]
    except Exception:
        pass
    checks = []
    for pid in sorted(CHECKS):
        cat, tech, text, note, ref = CHECKS[pid]
        checks.append({
            "property_id": pid,
            "quick_cmd": f"./check {pid} --tier quick",
            "thorough_cmd": f"./check {pid} --tier thorough",
            "evidence_file": f"/verif/evidence/{pid}.json",
            "replay_cmd_template": f"./check {pid} --replay {{path}}",
            "engine": "check",
            "level_claimed": {"category": cat, "text": text, "design_ref": "DESIGN.md §" + ref},
            "level_note": note,
            "technique": tech,
        })
    m = {
        "version": 1,
        "setup_cmd": "./check --setup",
        "hooks": {
            "guard": GUARD,
            "enable": f"cargo feature `{GUARD}` on artifact_content, isograph_compiler, isograph_lsp and intern; the harness crates under /verif/harness depend on /repo's crates by path with that feature enabled",
            "baseline_off_cmd": "cd /repo && cargo test --workspace --no-fail-fast --offline",
            "source_commits": hooks_commits,
            "add_only": True,
        },
        "engines": [
            {"name": "check", "path": "/verif/check", "serves_properties": sorted(CHECKS),
             "kind_free_text": "python dispatcher that rebuilds the harness against /repo's working tree and runs one proptest/fuzz/schedule-exploration binary per property"},
        ],
        "checks": checks,
        "notes": "Exit codes: 0 held (KNOWN-FINDING lines possible), 1 VIOLATION, 2 inconclusive. known_findings.json lists recorded and fixed findings.",
        "not_applicable": NOT_APPLICABLE,
    }
    path = os.path.join(ROOT, "MANIFEST.json")
    json.dump(m, open(path, "w"), indent=1)
    try:
        import jsonschema
        jsonschema.validate(m, json.load(open("/root/.vp/MANIFEST.schema.json")))
        print("MANIFEST.json valid;", len(checks), "checks")
    except ImportError:
        print("MANIFEST.json written (jsonschema not importable here; validate with python3-vt)")

if __name__ == "__main__":
    main()
