//! C24 — each iso literal resolves to its own generated overload.
//!
//! Domain: accepted G-PROJECT programs (type and field name pools are built from prefixes of one
//! another: Pet/PetStats, Foo/FooBar, Avatar/AvatarLarge, Card/CardList, field/fieldX/fieldY,
//! `entrypointer`), with the header of every literal re-laid-out (extra spaces, tabs, newlines, CR,
//! spaces around the dot, directive glued to the name, leading whitespace) in ways the iso parser
//! accepts; plus the four checked-in projects with the literals extracted from their sources.
//! Oracle (tsread::c24, a hand model of the conditional type iso.ts relies on, verified against
//! the file's shape on every run): the first overload whose pattern is a prefix of the
//! whitespace-stripped literal text exists and belongs to the same declaration.
use gen_project::cases::{self, CaseSpec, Exclusions};
use gen_project::compile::{self, Outcome};
use gen_project::print::{print_decl_literal, print_entrypoint_literal};
use gen_project::tape::Tape;
use gen_project::Rendered;
use serde_json::{json, Value};
use std::sync::atomic::{AtomicU64, Ordering};
use tsread::c24::{check_c24_all, header_layout, HeaderLayout, IsoKind, IsoLiteral, C24_ASSUMPTION};
use tsread::ArtifactSet;
use vcore::{Args, Fail, Report};

static COUNTER: AtomicU64 = AtomicU64::new(0);

const KW_SEPS: &[&str] = &[" ", " ", " ", "  ", "\t", "\n", " \r\n ", "\n\n  "];
const DOTS: &[&str] = &[".", ".", ".", " .", ". ", " . ", "\n.\n"];
const LEADS: &[&str] = &["", "", "\n  ", " ", "\t", "\n\n", "\r\n", "\u{c}", "\u{feff}"];

/// Re-lay-out the header of every literal; returns the new files and the literals as written.
pub fn relayout(case: &cases::Case, t: &mut Tape, vary: bool) -> (Rendered, Vec<IsoLiteral>) {
    let mut files = case.rendered.files.clone();
    let mut literals = vec![];
    for d in &case.project.decls {
        let kw = if d.is_pointer() { "pointer" } else { "field" };
        let canonical = print_decl_literal(d).replace('`', "'");
        let head = format!("  {kw} {}.{}", d.parent, d.name);
        let text = if vary && t.chance(1, 2) {
            let lead = LEADS[t.choose(LEADS.len())];
            let new_head = format!("{lead}{kw}{}{}{}{}", KW_SEPS[t.choose(KW_SEPS.len())], d.parent, DOTS[t.choose(DOTS.len())], d.name);
            // the canonical literal starts with "\n" + head
            canonical.replacen(&format!("\n{head}"), &new_head, 1)
        } else {
            canonical.clone()
        };
        let file = format!("src/{}", case.project.file_names[d.file]);
        if let Some(src) = files.get_mut(&file) {
            *src = src.replacen(&format!("iso(`{canonical}`)"), &format!("iso(`{text}`)"), 1);
        }
        literals.push(IsoLiteral {
            kind: if d.is_pointer() { IsoKind::Pointer } else { IsoKind::Field },
            parent_type: d.parent.clone(),
            field: d.name.clone(),
            literal_text: text,
        });
    }
    for e in &case.project.entrypoints {
        let canonical = print_entrypoint_literal(e);
        let text = if vary && t.chance(1, 2) {
            let lead = LEADS[t.choose(LEADS.len())];
            let lazy = if e.lazy { if t.chance(1, 2) { "@lazyLoad" } else { " @lazyLoad" } } else { "" };
            format!("{lead}entrypoint{}{}{}{}{lazy}", KW_SEPS[t.choose(KW_SEPS.len())], e.parent, DOTS[t.choose(DOTS.len())], e.name)
        } else {
            canonical.clone()
        };
        let file = format!("src/{}", case.project.file_names[e.file]);
        if let Some(src) = files.get_mut(&file) {
            *src = src.replacen(&format!("iso(`{canonical}`);"), &format!("iso(`{text}`);"), 1);
        }
        literals.push(IsoLiteral { kind: IsoKind::Entrypoint, parent_type: e.parent.clone(), field: e.name.clone(), literal_text: text });
    }
    (Rendered { files }, literals)
}

fn lit_json(l: &IsoLiteral) -> Value {
    json!({"kind": l.kind.keyword(), "type": l.parent_type, "field": l.field, "text": l.literal_text})
}

fn lit_from(v: &Value) -> Option<IsoLiteral> {
    Some(IsoLiteral {
        kind: IsoKind::from_keyword(v["kind"].as_str()?)?,
        parent_type: v["type"].as_str()?.to_string(),
        field: v["field"].as_str()?.to_string(),
        literal_text: v["text"].as_str()?.to_string(),
    })
}

/// Ok(None) = not accepted (skipped); Ok(Some(n)) = n literals checked.
pub fn check_files(files: &Rendered, literals: &[IsoLiteral], report: &Report) -> Result<Option<usize>, Fail> {
    let n = COUNTER.fetch_add(1, Ordering::SeqCst);
    let dir = compile::fresh_dir("c24", n);
    compile::write_project(&dir, files);
    let out = compile::compile_inproc(&dir);
    let _ = std::fs::remove_dir_all(&dir);
    match out {
        Outcome::Artifacts(m) => {
            let set = ArtifactSet::from_files(m.into_iter().collect::<Vec<_>>());
            match check_c24_all(&set, literals) {
                Ok((_stats, fails)) => {
                    let mut first = None;
                    for f in fails {
                        if f.signature.starts_with("harness-domain") {
                            // e.g. a `${` inside the literal: it has no string-literal type in
                            // TypeScript, so the property does not speak about it
                            report.excluded(&f.signature);
                            continue;
                        }
                        if let Err(f) = report.tolerate(Err(f)) {
                            first.get_or_insert(f);
                        }
                    }
                    match first {
                        Some(f) => Err(f),
                        None => Ok(Some(literals.len())),
                    }
                }
                Err(f) if f.signature.starts_with("harness-") => {
                    report.note_inconclusive(&format!("{}: {}", f.signature, f.message.lines().next().unwrap_or("")));
                    report.label(&format!("inconclusive:{}", f.signature));
                    Ok(None)
                }
                Err(f) => Err(f),
            }
        }
        Outcome::Diagnostics(_) => {
            report.label("skipped:not-accepted(diagnostics)");
            Ok(None)
        }
        Outcome::SetupError(_) => {
            report.label("skipped:setup-error");
            Ok(None)
        }
        Outcome::Panic(_) => {
            report.label("skipped:compiler-crash(C08)");
            Ok(None)
        }
    }
}

fn run_input(input: &Value, report: &Report) -> Result<(), Fail> {
    if input["kind"] == "raw-project" {
        return tsread::raw::replay_c24(input);
    }
    let files = cases::load_case_files(input);
    let literals: Vec<IsoLiteral> = input["literals"].as_array().map(|a| a.iter().filter_map(lit_from).collect()).unwrap_or_default();
    check_files(&files, &literals, report).map(|_| ())
}

fn materialise(spec: &CaseSpec, ex: &Exclusions) -> (cases::Case, Rendered, Vec<IsoLiteral>) {
    let case = cases::valid_case(spec, ex);
    let mut t = Tape::new(spec.mtape.clone());
    let vary = spec.variant % 3 != 0;
    let (files, lits) = relayout(&case, &mut t, vary);
    (case, files, lits)
}

pub fn run(args: &Args) {
    let report = Report::new(
        args,
        "exploration",
        "accepted G-PROJECT programs whose type/field names are prefixes of one another, with 2/3 of the cases \
         re-laying-out literal headers (whitespace kinds, spaces around the dot, leading whitespace) + the four checked-in \
         projects; non-trivial = the program has two declarations where one's `Type.field` is a prefix of the \
         other's, or a literal with a non-canonical header; distinct by (files, literals)",
    );
    report.engine("inproc");
    report.engine("tsread(iso.ts overload model)");
    report.assumption(C24_ASSUMPTION);
    let ex = Exclusions::default();

    if let Some(path) = &args.replay {
        let v = vcore::read_replay(path);
        report.case(Some(&v["input"].to_string()), &["replay"]);
        report.case(Some("replay-marker"), &[]);
        if let Err(f) = run_input(&v["input"], &report) {
            report.violation("replay", &f, v["input"].clone());
        }
        report.finish();
    }
    report.run_regressions(|i| run_input(i, &report));

    for (name, r) in crate::c14::demo_projects() {
        let mut literals = vec![];
        for (path, src) in &r.files {
            if path.ends_with(".ts") || path.ends_with(".tsx") || path.ends_with(".js") || path.ends_with(".jsx") {
                literals.extend(tsread::c24::extract_literals_from_source(src));
            }
        }
        let res = check_files(&r, &literals, &report);
        report.case(Some(&name), &["checked-in-project"]);
        report.label_n("checked-in-literals", literals.len() as u64);
        if let Err(f) = res {
            report.violation(&format!("demo-{name}"), &f, json!({"project": name}));
        }
    }

    let n = args.tier.pick(24_000, 400_000);
    let res = vcore::run_prop_parallel(&report, "programs", n, vcore::num_workers(), cases::case_strategy, |spec| {
        let (case, files, lits) = materialise(spec, &ex);
        let r = check_files(&files, &lits, &report);
        let keys: Vec<String> = lits.iter().map(|l| format!("{}.{}", l.parent_type, l.field)).collect();
        let prefix_pair = keys.iter().any(|a| keys.iter().any(|b| a != b && b.starts_with(a.as_str())));
        let noncanonical = lits.iter().filter(|l| header_layout(l) != HeaderLayout::Canonical).count();
        let nontrivial = matches!(r, Ok(Some(_))) && (prefix_pair || noncanonical > 0);
        let mut labels = vec![format!("tier:{}", case.tier)];
        if prefix_pair {
            labels.push("prefix-related-declarations".into());
        }
        if noncanonical > 0 {
            labels.push("non-canonical-header".into());
        }
        if let Ok(Some(k)) = &r {
            report.label_n("literals-checked", *k as u64);
        }
        let l: Vec<&str> = labels.iter().map(|s| s.as_str()).collect();
        let key = format!("{:?}{:?}", files.files, lits);
        report.case(if nontrivial { Some(&key) } else { None }, &l);
        report.sample(if noncanonical > 0 { "non-canonical" } else { "canonical" }, 1, || json!({"literals": lits.iter().map(lit_json).collect::<Vec<_>>()}));
        r.map(|_| ())
    });
    if let Some((spec, fail)) = res {
        let (case, files, lits) = materialise(&spec, &ex);
        let mut v = case.to_json();
        v["files"] = json!(files.files);
        v["literals"] = json!(lits.iter().map(lit_json).collect::<Vec<_>>());
        report.violation("programs", &fail, v);
    }
    report.finish();
}
