//! Generator health probe: acceptance rate per tier and the diagnostics of rejected projects.
use gen_project::compile::{self, Outcome};
use gen_project::{build_project, render, tape_strategy, GenConfig};
use rayon::prelude::*;
use std::collections::BTreeMap;

pub fn run(args: &vcore::Args) {
    let n: usize = args.rest.first().and_then(|s| s.parse().ok()).unwrap_or(200);
    let tier = args.rest.get(1).map(|s| s.as_str()).unwrap_or("core").to_string();
    let cfg = match tier.as_str() {
        "core" => GenConfig::core(),
        "client" => GenConfig::client_graph(),
        "advanced" => GenConfig::advanced(),
        "risky" => GenConfig::everything().risky(),
        "dense" => GenConfig::advanced().dense_refs(),
        "densecg" => GenConfig::client_graph().dense_refs(),
        _ => GenConfig::everything(),
    };
    let tapes = vcore::generate_values(args.seed, n, &tape_strategy(400));
    let results: Vec<(usize, Outcome)> = tapes
        .par_iter()
        .enumerate()
        .map(|(i, tape)| {
            let p = build_project(tape.clone(), &cfg);
            let r = render(&p);
            let dir = compile::fresh_dir("probe", i as u64);
            compile::write_project(&dir, &r);
            let o = compile::compile_inproc(&dir);
            if std::env::var("PROBE_TWICE").is_ok() {
                let o2 = compile::compile_inproc(&dir);
                if let (Outcome::Artifacts(a), Outcome::Artifacts(b)) = (&o, &o2) {
                    if a != b {
                        println!("  DIFFERS on second in-process compilation: case index {i}");
                    }
                }
            }
            if !o.is_ok() && std::env::var("PROBE_KEEP").is_ok() {
                // keep
            } else {
                let _ = std::fs::remove_dir_all(&dir);
            }
            (i, o)
        })
        .collect();
    let mut hist: BTreeMap<String, (usize, usize)> = BTreeMap::new();
    let mut ok = 0;
    let mut artifacts = 0;
    for (i, o) in &results {
        match o {
            Outcome::Artifacts(m) => {
                ok += 1;
                artifacts += m.len();
                // generator health: how often does a reader use two or more refetch queries?
                let mut best = 0;
                for (k, v) in m {
                    if !k.ends_with("resolver_reader.ts") {
                        continue;
                    }
                    for part in v.split("usedRefetchQueries: [").skip(1) {
                        let inner = part.split(']').next().unwrap_or("");
                        best = best.max(inner.split(',').filter(|s| !s.trim().is_empty()).count());
                    }
                }
                if best >= 2 {
                    let e = hist.entry(format!("STAT reader with >=2 usedRefetchQueries (max {})", best.min(4))).or_insert((0, *i));
                    e.0 += 1;
                }
            }
            Outcome::Diagnostics(d) => {
                for m in d {
                    let key: String = m.lines().next().unwrap_or("").chars().take(110).collect();
                    let e = hist.entry(format!("DIAG {key}")).or_insert((0, *i));
                    e.0 += 1;
                }
            }
            Outcome::SetupError(e) => {
                let e2 = hist.entry(format!("SETUP {}", e.lines().next().unwrap_or(""))).or_insert((0, *i));
                e2.0 += 1;
            }
            Outcome::Panic(p) => {
                let e2 = hist.entry(format!("PANIC {}", p.lines().next().unwrap_or(""))).or_insert((0, *i));
                e2.0 += 1;
            }
        }
    }
    // model-level generator health: a client field selecting one pointer twice in one selection set
    fn twice(sels: &[gen_project::model::Sel], with_args: bool) -> bool {
        use gen_project::model::Target;
        for (i, a) in sels.iter().enumerate() {
            for b in &sels[i + 1..] {
                if let (Target::ClientPointer(x), Target::ClientPointer(y)) = (&a.target, &b.target) {
                    if x == y && (!with_args || format!("{:?}", a.args) != format!("{:?}", b.args)) {
                        return true;
                    }
                }
            }
            if let Some(ch) = &a.children {
                if twice(ch, with_args) {
                    return true;
                }
            }
        }
        false
    }
    let (mut t1, mut t2, mut t3) = (0, 0, 0);
    for (i, tape) in tapes.iter().enumerate() {
        let p = build_project(tape.clone(), &cfg);
        let fs: Vec<usize> = (0..p.decls.len()).filter(|&k| !p.decls[k].is_pointer() && twice(&p.decls[k].selections, false)).collect();
        let fs2: Vec<usize> = (0..p.decls.len()).filter(|&k| !p.decls[k].is_pointer() && twice(&p.decls[k].selections, true)).collect();
        t1 += !fs.is_empty() as usize;
        t2 += !fs2.is_empty() as usize;
        fn selects(sels: &[gen_project::model::Sel], k: usize) -> bool {
            sels.iter().any(|s| {
                matches!(&s.target, gen_project::model::Target::ClientField(x) if *x == k && matches!(s.directive, gen_project::model::SelDirective::None))
                    || s.children.as_ref().map(|c| selects(c, k)).unwrap_or(false)
            })
        }
        if fs2.iter().any(|&k| p.decls.iter().any(|d| selects(&d.selections, k))) {
            let o = match &results[i].1 {
                Outcome::Artifacts(_) => "artifacts".to_string(),
                Outcome::Diagnostics(d) => format!("diag: {}", d.first().map(|s| s.lines().next().unwrap_or("").chars().take(90).collect::<String>()).unwrap_or_default()),
                Outcome::SetupError(_) => "setup".to_string(),
                Outcome::Panic(p) => format!("panic: {}", p.chars().take(60).collect::<String>()),
            };
            let e = hist.entry(format!("SHAPE selected-by-some-declaration -> {o}")).or_insert((0, i));
            e.0 += 1;
        }
        if results[i].1.is_ok() && fs2.iter().any(|&k| p.decls.iter().any(|d| selects(&d.selections, k))) {
            t3 += 1;
            if t3 <= 3 {
                println!("  example accepted case index {i}");
            }
        }
    }
    println!("STAT client field selects one pointer twice: {t1}; with different arguments: {t2}; and accepted: {t3}");
    println!("tier={tier} n={n} accepted={ok} avg_artifacts={:.1}", artifacts as f64 / ok.max(1) as f64);
    for (k, (c, first)) in &hist {
        println!("{c:5}  first={first:4}  {k}");
    }
    if let Some(show) = args.rest.get(2).and_then(|s| s.parse::<usize>().ok()) {
        let p = build_project(tapes[show].clone(), &cfg);
        let r = render(&p);
        for (f, c) in &r.files {
            println!("==== {f}\n{c}");
        }
        if let Outcome::Diagnostics(d) = &results[show].1 {
            for m in d {
                println!("---- {m}");
            }
        }
    }
    vcore::remove_scratch();
}

/// `proj shrink --seed S <tier> <substring>`: find and shrink a project whose in-process compile
/// panics (or reports a diagnostic) containing the substring; prints the shrunk project.
pub fn shrink(args: &vcore::Args) {
    let tier = args.rest.first().map(|s| s.as_str()).unwrap_or("all").to_string();
    let needle = args.rest.get(1).cloned().unwrap_or_default();
    let cfg = match tier.as_str() {
        "core" => GenConfig::core(),
        "client" => GenConfig::client_graph(),
        "advanced" => GenConfig::advanced(),
        "risky" => GenConfig::everything().risky(),
        "dense" => GenConfig::advanced().dense_refs(),
        "densecg" => GenConfig::client_graph().dense_refs(),
        _ => GenConfig::everything(),
    };
    let a2 = vcore::Args { property: "probe".into(), ..args.clone() };
    let report = vcore::Report::new(&a2, "exploration", "dev");
    let counter = std::sync::atomic::AtomicU64::new(0);
    let res = vcore::run_prop_parallel(&report, "shrink", 4000, vcore::num_workers(), || tape_strategy(400), |tape| {
        let p = build_project(tape.clone(), &cfg);
        let r = render(&p);
        let n = counter.fetch_add(1, std::sync::atomic::Ordering::SeqCst);
        let dir = compile::fresh_dir("shrink", n);
        compile::write_project(&dir, &r);
        let o = compile::compile_inproc(&dir);
        let _ = std::fs::remove_dir_all(&dir);
        let text = match &o {
            Outcome::Artifacts(_) => String::new(),
            Outcome::Diagnostics(d) => d.join("\n"),
            Outcome::SetupError(e) => e.clone(),
            Outcome::Panic(p) => format!("PANIC {p}"),
        };
        if !needle.is_empty() && text.contains(&needle) {
            Err(vcore::Fail::new("found", text))
        } else {
            Ok(())
        }
    });
    match res {
        Some((tape, fail)) => {
            let p = build_project(tape, &cfg);
            let r = render(&p);
            for (f, c) in &r.files {
                if f != "isograph.config.json" {
                    println!("==== {f}\n{c}");
                }
            }
            println!("---- {}", fail.message);
            if let Some(out) = args.rest.get(2) {
                let doc = serde_json::json!({"property": "C08", "kind": "shrunk-inproc", "observed": fail.message, "input": {"kind": "Valid", "note": "", "files": r.files}});
                std::fs::write(out, serde_json::to_string_pretty(&doc).unwrap()).unwrap();
                println!("wrote {out}");
            }
        }
        None => println!("not found"),
    }
    vcore::remove_scratch();
}
