//! C16 — invalid selections are rejected with a diagnostic, valid programs compile without one.
//!
//! Domain: valid programs of the core and client-graph tiers (the "generated language subset":
//! server scalar/object selections with literal / variable / object / null arguments, aliases,
//! client fields with variable definitions selected with argument passing, client pointers,
//! entrypoints; written down in `coverage.language_subset`) and single-fault mutants, one rule of
//! the statement violated at a model-chosen location.
//! Oracle: valid => artifacts, no diagnostics; mutant => at least one diagnostic. A crash of the
//! compiler is C08's business and is only counted here.
use gen_project::cases::{self, CaseSpec, Exclusions, Kind};
use gen_project::compile::{self, Outcome};
use serde_json::{json, Value};
use std::sync::atomic::{AtomicU64, Ordering};
use vcore::{Args, Fail, Report};

static COUNTER: AtomicU64 = AtomicU64::new(0);

fn first_line(s: &str) -> String {
    crate::c08::normalise_panic(s.lines().find(|l| !l.trim().is_empty()).unwrap_or(""))
}

#[derive(Clone, Debug)]
pub enum Expect {
    Accept,
    /// label of the violated rule (part of the failure signature)
    Reject(String),
}

pub fn expect_of(kind: &Kind, note: &str) -> Expect {
    match kind {
        Kind::Mutant(rule) => {
            let obj = if note.contains("of object selection") { ":object-selection" } else { "" };
            Expect::Reject(format!("{rule:?}{obj}"))
        }
        _ => Expect::Accept,
    }
}

pub fn judge(expect: &Expect, rendered: &gen_project::Rendered, note: &str) -> (Result<(), Fail>, &'static str) {
    let n = COUNTER.fetch_add(1, Ordering::SeqCst);
    let dir = compile::fresh_dir("c16", n);
    compile::write_project(&dir, rendered);
    let o = compile::compile_inproc(&dir);
    let _ = std::fs::remove_dir_all(&dir);
    match (expect, &o) {
        (_, Outcome::Panic(_)) => (Ok(()), "crash(C08)"),
        (Expect::Accept, Outcome::SetupError(e)) => (Err(Fail::new(format!("valid-rejected:setup:{}", first_line(e)), e.clone())), "setup-error"),
        (Expect::Reject(_), Outcome::SetupError(_)) => (Ok(()), "rejected"),
        (Expect::Accept, Outcome::Artifacts(_)) => (Ok(()), "accepted"),
        (Expect::Accept, Outcome::Diagnostics(d)) => {
            // One recorded root cause concerns list-typed variables; it is recognised by what the
            // diagnostic itself says so that any other rejection of a valid program stays unlisted:
            // an argument declared as a NULLABLE list (`[T!]`) accepts no variable at all (its type is
            // compared with source locations); it prints as `expected (T | null)`.
            let first = d.first().map(|s| s.as_str()).unwrap_or("");
            let k1 = |m: &str| m.starts_with("Mismatched type. Received $") && m.contains("expected (") && (m.contains("with type [") || m.contains("with type ("));
            let sig = if !d.is_empty() && d.iter().all(|m| k1(m)) {
                "valid-rejected:list-variable:nullable-list-argument".to_string()
            } else {
                format!("valid-rejected:{}", first_line(first))
            };
            (Err(Fail::new(sig, format!("a program of the generated subset was rejected:\n{}", d.join("\n---\n")))), "rejected")
        }
        (Expect::Reject(rule), Outcome::Artifacts(_)) => (
            Err(Fail::new(format!("mutant-accepted:{rule}"), format!("single-fault mutant compiled without diagnostics: {note}"))),
            "accepted",
        ),
        (Expect::Reject(_), Outcome::Diagnostics(d)) if !d.is_empty() => (Ok(()), "rejected"),
        (Expect::Reject(_), Outcome::Diagnostics(_)) => (Err(Fail::new("rejected-without-diagnostic", "compile failed with an empty diagnostic list".to_string())), "rejected"),
    }
}

pub fn materialise(spec: &CaseSpec, ex: &Exclusions) -> cases::Case {
    // 1/3 valid, 2/3 mutants
    let restrict = CaseSpec { tape: spec.tape.clone(), variant: spec.variant % 2, mtape: spec.mtape.clone() };
    if (spec.variant / 2) % 3 == 0 {
        cases::valid_case(&restrict, ex)
    } else {
        cases::mutant_case(spec, ex).unwrap_or_else(|| cases::valid_case(&restrict, ex))
    }
}

fn case_json(case: &cases::Case) -> Value {
    let mut v = case.to_json();
    v["expect"] = match expect_of(&case.kind, &case.note) {
        Expect::Accept => json!("accept"),
        Expect::Reject(r) => json!(format!("reject:{r}")),
    };
    v
}

fn run_input(input: &Value) -> Result<(), Fail> {
    let rendered = cases::load_case_files(input);
    let expect = match input["expect"].as_str() {
        Some(s) if s.starts_with("reject:") => Expect::Reject(s["reject:".len()..].to_string()),
        _ => Expect::Accept,
    };
    judge(&expect, &rendered, input["note"].as_str().unwrap_or("")).0
}

pub fn run(args: &Args) {
    let report = Report::new(
        args,
        "exploration",
        "valid programs of the core/client-graph tiers of G-PROJECT and single-fault mutants of them (10 mutation \
         operators covering the 9 rules of the statement), compiled in-process; non-trivial = a mutant whose fault \
         sits below the top-level selection set or concerns an argument / variable, or a valid program that \
         declares variables; distinct by rendered files",
    );
    report.engine("inproc");
    report.extra(
        "language_subset",
        json!("schemas: Query + 1-4 object types (optional id/Node), custom scalar, enum, nested input objects, fields with 0-3 \
               arguments (nullable / non-null / defaults); programs: `field` and `pointer` declarations with variable definitions \
               (defaults), selections of server scalars and objects with literal (int, string, bool, null, object) and variable \
               arguments, aliases, __typename, selections of earlier client fields / pointers with argument passing, entrypoints on Query"),
    );
    report.assumption("a compiler crash on a generated program is judged by C08, not here");
    let ex = Exclusions::default();

    if let Some(path) = &args.replay {
        let v = vcore::read_replay(path);
        report.case(Some(&v["input"].to_string()), &["replay"]);
        report.case(Some("replay-marker"), &[]);
        if let Err(f) = run_input(&v["input"]) {
            report.violation("replay", &f, v["input"].clone());
        }
        report.finish();
    }
    report.run_regressions(run_input);

    let n = args.tier.pick(40_000, 600_000);
    let res = vcore::run_prop_parallel(&report, "programs", n, vcore::num_workers(), cases::case_strategy, |spec| {
        let case = materialise(spec, &ex);
        let expect = expect_of(&case.kind, &case.note);
        let (r, outcome) = judge(&expect, &case.rendered, &case.note);
        let kind = format!("{:?}", case.kind);
        let nontrivial = match (&case.kind, &case.mutation) {
            (Kind::Mutant(_), Some(m)) => m.depth() >= 2 || m.note.contains("argument") || m.note.contains("variable"),
            (Kind::Valid, _) => case.project.decls.iter().any(|d| !d.vars.is_empty()),
            _ => false,
        };
        let key = format!("{:?}", case.rendered.files);
        report.case(if nontrivial { Some(&key) } else { None }, &[&format!("kind:{kind}"), &format!("tier:{}", case.tier), &format!("outcome:{outcome}")]);
        report.sample(&kind, 1, || case_json(&case));
        r
    });
    if let Some((spec, fail)) = res {
        let case = materialise(&spec, &ex);
        report.violation("programs", &fail, case_json(&case));
    }
    report.finish();
}
