//! C08 — the compiler never crashes on any project.
//!
//! Domain: generated valid projects of every tier, single-fault mutants, raw token-level damage
//! to schema / extension / sources, cyclic client fields; each compiled by a fresh process of the
//! real `isograph_cli` built from the working tree.
//! Oracle: the process exits 0 or 1 (no panic exit 101, no signal); exit 0 => `iso.ts` exists in
//! the artifact directory; exit 1 => stderr carries an error report.
use gen_project::cases::{self, Case, CaseSpec, Exclusions};
use gen_project::compile::{self, CliRun};
use gen_project::{artifact_dir, Rendered};
use serde_json::{json, Value};
use std::sync::atomic::{AtomicU64, Ordering};
use vcore::{Args, Fail, Report};

static COUNTER: AtomicU64 = AtomicU64::new(0);

/// Root-cause signature of a panic message: names in backticks and digits are erased.
pub fn normalise_panic(msg: &str) -> String {
    let mut out = String::new();
    let mut in_tick = false;
    for ch in msg.chars() {
        if ch == '`' {
            in_tick = !in_tick;
            out.push('`');
            continue;
        }
        if in_tick {
            continue;
        }
        if ch.is_ascii_digit() {
            if !out.ends_with('#') {
                out.push('#');
            }
            continue;
        }
        if ch == '\n' {
            break;
        }
        out.push(ch);
    }
    out.chars().take(110).collect::<String>().trim().to_string()
}

/// Extract (location file, message) of the first Rust panic in a stderr dump.
pub fn panic_of(stderr: &str) -> Option<(String, String)> {
    let i = stderr.find("panicked at ")?;
    let rest = &stderr[i + "panicked at ".len()..];
    let line_end = rest.find('\n').unwrap_or(rest.len());
    let loc = rest[..line_end].trim_end_matches(':').to_string();
    let file = loc.split(':').next().unwrap_or("").rsplit('/').next().unwrap_or("").to_string();
    let msg = rest[line_end..].trim_start().to_string();
    Some((file, msg))
}

pub fn judge(run: &CliRun, rendered: &Rendered, art_dir: &std::path::Path) -> Result<&'static str, Fail> {
    let _ = rendered;
    if run.timed_out {
        return Ok("timeout");
    }
    match (run.code, run.signal) {
        (Some(0), _) => {
            if art_dir.join("iso.ts").is_file() {
                Ok("exit0")
            } else {
                Err(Fail::new("exit0-without-iso.ts", format!("exit 0 but {}/iso.ts does not exist\nstderr:\n{}", art_dir.display(), tail(&run.stderr))))
            }
        }
        (Some(1), _) => {
            if let Some((file, msg)) = panic_of(&run.stderr) {
                return Err(Fail::new(format!("panic:{}:{}", file, normalise_panic(&msg)), tail(&run.stderr)));
            }
            if run.stderr.trim().is_empty() && run.stdout.trim().is_empty() {
                Err(Fail::new("exit1-without-diagnostic", "exit 1 with empty output".to_string()))
            } else {
                Ok("exit1")
            }
        }
        (Some(101), _) => {
            let (file, msg) = panic_of(&run.stderr).unwrap_or_default();
            Err(Fail::new(format!("panic:{}:{}", file, normalise_panic(&msg)), tail(&run.stderr)))
        }
        (None, Some(sig)) | (Some(_), Some(sig)) => {
            if run.stderr.contains("overflowed its stack") {
                Err(Fail::new("abort:stack-overflow", tail(&run.stderr)))
            } else {
                Err(Fail::new(format!("signal:{sig}"), tail(&run.stderr)))
            }
        }
        (Some(c), None) => Err(Fail::new(format!("exit:{c}"), tail(&run.stderr))),
        (None, None) => Err(Fail::new("no-status", String::new())),
    }
}

fn tail(s: &str) -> String {
    let lines: Vec<&str> = s.lines().collect();
    let n = lines.len();
    lines[n.saturating_sub(25)..].join("\n")
}

pub fn materialise(spec: &CaseSpec, ex: &Exclusions) -> Case {
    // 0-2 valid, 3 valid from the refetch-dense presets, 4-5 mutant, 6-8 raw damage, 9 cyclic
    let sel = (spec.variant as usize / 4) % 10;
    match sel {
        0..=2 => cases::valid_case(spec, ex),
        3 => {
            let cfg = if (spec.variant as usize / 40) % 2 == 0 { gen_project::GenConfig::client_graph().dense_refs() } else { gen_project::GenConfig::advanced().dense_refs() };
            let project = gen_project::build_project(spec.tape.clone(), &cfg);
            let rendered = gen_project::render(&project);
            Case { kind: cases::Kind::Valid, tier: "dense-refs", project, rendered, mutation: None, note: String::new() }
        }
        4 | 5 => cases::mutant_case(spec, ex).unwrap_or_else(|| cases::valid_case(spec, ex)),
        6..=8 => cases::raw_case(spec, ex),
        _ => cases::cyclic_case(spec, ex).unwrap_or_else(|| cases::raw_case(spec, ex)),
    }
}

/// `note` describes how the case was built; it refines the one signature that would otherwise be
/// too coarse: a stack overflow is a recorded finding only for cycles through `@loadable`
/// selections (non-loadable cycles are diagnosed since 184ebd9), any other stack overflow is new.
pub fn run_case_files(rendered: &Rendered, note: &str) -> Result<&'static str, Fail> {
    run_files(rendered).map_err(|mut f| {
        if f.signature == "abort:stack-overflow" && note.contains("@loadable") {
            f.signature.push_str(":loadable-cycle");
        }
        f
    })
}

pub fn run_files(rendered: &Rendered) -> Result<&'static str, Fail> {
    let n = COUNTER.fetch_add(1, Ordering::SeqCst);
    let dir = compile::fresh_dir("c08", n);
    compile::write_project(&dir, rendered);
    let run = compile::run_cli(&dir);
    let art = if rendered.files.get("isograph.config.json").map(|c| c.contains("artifact_directory")).unwrap_or(false) {
        dir.join("generated/__isograph")
    } else {
        dir.join("src/__isograph")
    };
    let r = judge(&run, rendered, &art);
    let _ = std::fs::remove_dir_all(&dir);
    r
}

pub fn run(args: &Args) {
    let report = Report::new(
        args,
        "exploration",
        "projects = f(tape): valid projects of 4 feature tiers, single-fault mutants (10 rules), raw token damage \
         (delete/duplicate/swap/replace/insert/truncate, dictionary incl. huge ints, non-ASCII, NUL) of schema, \
         extension or sources, and cyclic client fields; each compiled by a fresh isograph_cli process; \
         non-trivial = the project reached artifact generation (exit 0) or is a model-level mutant / cyclic \
         case rejected with diagnostics; distinct by the rendered files",
    );
    report.engine("subproc");
    vcore::set_max_shrink_iters(200);
    report.assumption("isograph_cli (debug profile) built from the working tree by the dispatcher");
    report.assumption("a process that does not finish within 120 s is counted as inconclusive, not as a crash");
    let ex = Exclusions { allow_risky: true, ..Exclusions::default() };

    if let Some(path) = &args.replay {
        let v = vcore::read_replay(path);
        let rendered = cases::load_case_files(&v["input"]);
        report.case(Some(&format!("{:?}", rendered.files)), &["replay"]);
        report.case(Some("replay-marker"), &[]);
        if let Err(f) = run_case_files(&rendered, v["input"]["note"].as_str().unwrap_or("")) {
            report.violation("replay", &f, v["input"].clone());
        }
        report.finish();
    }
    report.run_regressions(|input| run_case_files(&cases::load_case_files(input), input["note"].as_str().unwrap_or("")).map(|_| ()));

    let cases_n = args.tier.pick(2000, 80_000);
    let res = vcore::run_prop_parallel(
        &report,
        "projects",
        cases_n,
        vcore::num_workers(),
        cases::case_strategy,
        |spec| {
            let case = materialise(spec, &ex);
            let kind = format!("{:?}", case.kind);
            let kind_label = kind.split('(').next().unwrap_or("").to_string();
            let r = run_case_files(&case.rendered, &case.note);
            let outcome = match &r {
                Ok(o) => *o,
                Err(_) => "crash",
            };
            if outcome == "timeout" {
                report.note_inconclusive("a CLI process exceeded 120 s");
            }
            let nontrivial = outcome == "exit0" || (outcome == "exit1" && matches!(case.kind, cases::Kind::Mutant(_) | cases::Kind::Cyclic));
            let key = format!("{:?}", case.rendered.files);
            report.case(if nontrivial { Some(&key) } else { None }, &[&format!("kind:{kind_label}"), &format!("tier:{}", case.tier), &format!("outcome:{outcome}")]);
            report.sample(&format!("{kind_label}/{outcome}"), 1, || json!({"kind": kind, "note": case.note, "files": case.rendered.files}));
            r.map(|_| ())
        },
    );
    if let Some((spec, fail)) = res {
        let case = materialise(&spec, &ex);
        report.violation("projects", &fail, case.to_json());
    }
    report.finish();
}

#[allow(dead_code)]
pub fn unused(_: Value) {
    let _ = artifact_dir;
}
