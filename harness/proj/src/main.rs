fn main() {
    vcore::inconclusive("proj: not built yet");
}
