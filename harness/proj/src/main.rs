//! Project-level checks (C08, C09, C11, C13-C16, C24-C27) over G-PROJECT.
mod c08;
mod c13;
mod c14;
mod c16;
mod c24;
use gen_project::cases;
mod probe;

fn main() {
    let args = vcore::parse_args();
    match args.property.as_str() {
        "probe" => probe::run(&args),
        "shrink" => probe::shrink(&args),
        "inproc2" => c14::inproc2(&args),
        "C08" => c08::run(&args),
        "C13" => c13::run(&args),
        "C14" => c14::run(&args),
        "C24" => c24::run(&args),
        "C16" => c16::run(&args),
        other => vcore::inconclusive(&format!("proj: {other} not built yet")),
    }
}
