//! C14 — compilation output is deterministic.
//!
//! Domain: generated valid projects, multi-fault invalid projects (several diagnostics) and the
//! checked-in demo projects. Each is compiled by fresh `isograph_cli` processes (fresh hash seeds)
//! in two directory layouts that hold the same files created in opposite order and, in the second
//! layout, next to decoy files (tmpfs enumerates in creation order, so discovery order changes).
//! Oracle: byte-identical artifact trees and identical diagnostics (stderr after removing the
//! timing phrases and the absolute directory name).
use gen_project::cases::{self, CaseSpec, Exclusions};
use gen_project::compile::{self, CliRun};
use gen_project::mutate::{self, ALL_RULES};
use gen_project::tape::Tape;
use gen_project::{build_project, render, GenConfig, Rendered};
use serde_json::{json, Value};
use std::collections::BTreeMap;
use std::path::Path;
use std::sync::atomic::{AtomicU64, Ordering};
use vcore::{Args, Fail, Report};

static COUNTER: AtomicU64 = AtomicU64::new(0);

fn normalise_stderr(s: &str, dir: &Path) -> String {
    let d = dir.to_string_lossy().to_string();
    let mut out = String::new();
    for line in s.lines() {
        let mut l = line.replace(&d, "<DIR>");
        for marker in [", in ", "Compilation took "] {
            if let Some(i) = l.find(marker) {
                if l.contains("Compil") || l.contains("wrote or modified") {
                    l.truncate(i);
                }
            }
        }
        out.push_str(&l);
        out.push('\n');
    }
    out
}

fn write_ordered(dir: &Path, r: &Rendered, reverse: bool, decoys: bool) {
    let mut names: Vec<&String> = r.files.keys().collect();
    if reverse {
        names.reverse();
    }
    if decoys {
        std::fs::create_dir_all(dir.join("src/aaa_decoy")).unwrap();
        std::fs::write(dir.join("src/aaa_decoy/notes.md"), "iso(`field Query.Decoy { version }`)").unwrap();
        std::fs::write(dir.join("src/0000.txt"), "decoy").unwrap();
    }
    for n in names {
        let p = dir.join(n);
        std::fs::create_dir_all(p.parent().unwrap()).unwrap();
        std::fs::write(&p, &r.files[n]).unwrap();
    }
    if decoys {
        std::fs::write(dir.join("src/zzzz.md"), "decoy").unwrap();
    }
}

fn art_dir(dir: &Path, r: &Rendered) -> std::path::PathBuf {
    if r.files.get("isograph.config.json").map(|c| c.contains("artifact_directory")).unwrap_or(false) {
        dir.join("generated/__isograph")
    } else {
        dir.join("src/__isograph")
    }
}

struct Obs {
    code: Option<i32>,
    artifacts: BTreeMap<String, Vec<u8>>,
    stderr: String,
}

fn observe(dir: &Path, r: &Rendered) -> Result<Obs, &'static str> {
    let run: CliRun = compile::run_cli(dir);
    if run.timed_out {
        return Err("timeout");
    }
    if run.signal.is_some() || !matches!(run.code, Some(0) | Some(1)) || run.stderr.contains("panicked at") {
        return Err("crash");
    }
    Ok(Obs { code: run.code, artifacts: compile::snapshot(&art_dir(dir, r)), stderr: normalise_stderr(&run.stderr, dir) })
}

fn diff_maps(a: &BTreeMap<String, Vec<u8>>, b: &BTreeMap<String, Vec<u8>>) -> Option<String> {
    for (k, v) in a {
        match b.get(k) {
            None => return Some(format!("artifact {k} exists in one run only")),
            Some(w) if w != v => {
                let (sa, sb) = (String::from_utf8_lossy(v), String::from_utf8_lossy(w));
                let line = sa.lines().zip(sb.lines()).position(|(x, y)| x != y).unwrap_or(0);
                return Some(format!(
                    "artifact {k} differs at line {}:\n  A: {}\n  B: {}",
                    line + 1,
                    sa.lines().nth(line).unwrap_or(""),
                    sb.lines().nth(line).unwrap_or("")
                ));
            }
            _ => {}
        }
    }
    b.keys().find(|k| !a.contains_key(*k)).map(|k| format!("artifact {k} exists in one run only"))
}

pub fn check_files(r: &Rendered) -> Result<&'static str, Fail> {
    let n = COUNTER.fetch_add(1, Ordering::SeqCst);
    let da = compile::fresh_dir("c14a", n);
    let db = compile::fresh_dir("c14b", n);
    write_ordered(&da, r, false, false);
    write_ordered(&db, r, true, true);
    let result = (|| {
        let a1 = match observe(&da, r) {
            Ok(o) => o,
            Err(why) => return Ok(why),
        };
        let a2 = match observe(&da, r) {
            Ok(o) => o,
            Err(why) => return Ok(why),
        };
        let b = match observe(&db, r) {
            Ok(o) => o,
            Err(why) => return Ok(why),
        };
        if a1.code != a2.code || a1.code != b.code {
            return Err(Fail::new("exit-status-differs", format!("exit codes {:?} {:?} {:?}", a1.code, a2.code, b.code)));
        }
        if let Some(d) = diff_maps(&a1.artifacts, &a2.artifacts) {
            return Err(Fail::new("artifacts-differ:same-directory", d));
        }
        if let Some(d) = diff_maps(&a1.artifacts, &b.artifacts) {
            return Err(Fail::new("artifacts-differ:creation-order", d));
        }
        if a1.stderr != a2.stderr {
            return Err(Fail::new("diagnostics-differ:same-directory", format!("--- run 1\n{}\n--- run 2\n{}", a1.stderr, a2.stderr)));
        }
        if a1.stderr != b.stderr {
            return Err(Fail::new("diagnostics-differ:creation-order", format!("--- layout A\n{}\n--- layout B\n{}", a1.stderr, b.stderr)));
        }
        Ok(if a1.code == Some(0) { "ok:artifacts" } else { "ok:diagnostics" })
    })();
    let _ = std::fs::remove_dir_all(&da);
    let _ = std::fs::remove_dir_all(&db);
    result
}

/// valid project, or a project with 2-3 independent faults (several diagnostics)
pub fn materialise(spec: &CaseSpec, ex: &Exclusions) -> (Rendered, String, usize) {
    let base = cases::valid_case(spec, ex);
    if (spec.variant / 4) % 2 == 0 {
        return (base.rendered, format!("valid/{}", base.tier), 0);
    }
    let mut t = Tape::new(spec.mtape.clone());
    let mut p = base.project.clone();
    let k = t.range(2, 3);
    let mut applied = 0;
    for _ in 0..k {
        let rule = ALL_RULES[t.choose(ALL_RULES.len())];
        if let Some((q, _)) = mutate::mutate(&p, rule, &mut t) {
            p = q;
            applied += 1;
        }
    }
    (render(&p), format!("multi-fault/{}", base.tier), applied)
}

/// In-process leg: as `materialise`, but three cases in four come from the refetch-dense presets
/// (pointers every second declaration, the same client selection repeated with other arguments).
fn materialise_inproc(spec: &CaseSpec, ex: &Exclusions) -> (Rendered, String, usize) {
    if (spec.variant / 8) % 4 != 0 {
        // the client-graph base has no refinements / @loadable / exposed fields, which keeps most of
        // these programs clear of the recorded compiler crashes (C08) that would hide them
        let cfg = match (spec.variant / 32) % 4 {
            0 | 1 => GenConfig::client_graph().dense_refs(),
            2 => GenConfig::advanced().dense_refs(),
            _ => GenConfig::everything().dense_refs(),
        };
        let p = build_project(spec.tape.clone(), &cfg);
        return (render(&p), "valid/dense-refs".to_string(), 0);
    }
    materialise(spec, ex)
}

/// dev aid: `proj inproc2 --replay FILE` — does the in-process double compilation see a difference?
pub fn inproc2(args: &Args) {
    let v = vcore::read_replay(args.replay.as_ref().expect("--replay"));
    let r = cases::load_case_files(&v["input"]);
    let dir = compile::fresh_dir("c14x", 0);
    compile::write_project(&dir, &r);
    for i in 0..8 {
        let (o1, o2) = (compile::compile_inproc(&dir), compile::compile_inproc(&dir));
        let same = match (&o1, &o2) {
            (compile::Outcome::Artifacts(a), compile::Outcome::Artifacts(b)) => a == b,
            _ => {
                println!("not artifacts");
                false
            }
        };
        println!("round {i}: same={same}");
    }
    let _ = std::fs::remove_dir_all(&dir);
}

pub fn demo_projects() -> Vec<(String, Rendered)> {
    // the checked-in projects, copied file by file (config, schema, extensions, sources)
    let repo = vcore::repo_root();
    let mut out = vec![];
    for (name, root) in [("pet-demo", "demos/pet-demo"), ("vite-demo", "demos/vite-demo"), ("github-demo", "demos/github-demo"), ("isograph-react", "libs/isograph-react")] {
        let base = repo.join(root);
        let mut files = BTreeMap::new();
        fn walk(base: &Path, d: &Path, files: &mut BTreeMap<String, String>) {
            let Ok(rd) = std::fs::read_dir(d) else { return };
            for e in rd.flatten() {
                let p = e.path();
                let n = e.file_name().to_string_lossy().to_string();
                if n == "node_modules" || n == "__isograph" || n == ".next" || n == "dist" || n == "target" {
                    continue;
                }
                if p.is_dir() {
                    walk(base, &p, files);
                } else if ["ts", "tsx", "js", "jsx", "graphql", "json"].contains(&p.extension().and_then(|x| x.to_str()).unwrap_or("")) {
                    if n.ends_with(".json") && n != "isograph.config.json" {
                        continue;
                    }
                    if let Ok(s) = std::fs::read_to_string(&p) {
                        files.insert(p.strip_prefix(base).unwrap().to_string_lossy().to_string(), s);
                    }
                }
            }
        }
        walk(&base, &base, &mut files);
        if files.contains_key("isograph.config.json") {
            // the "$schema" key points outside the copied tree; it is informational only
            out.push((name.to_string(), Rendered { files }));
        }
    }
    out
}

pub fn run(args: &Args) {
    let report = Report::new(
        args,
        "exploration",
        "generated valid projects and multi-fault invalid projects (2-3 independent faults) plus the four checked-in \
         projects; each compiled by 3 fresh CLI processes in two layouts (opposite file creation order, decoy files); \
         non-trivial = >= 3 source files, or >= 2 faults applied, or >= 10 artifacts; distinct by rendered files. \
         Second leg: the same generator, each project compiled twice in-process (fresh RandomState keys per compilation) as a \
         candidate search for hash-order dependence; a candidate counts as a violation only if fresh CLI processes reproduce a \
         difference; non-trivial there = >= 10 artifacts or >= 2 diagnostics",
    );
    report.engine("subproc");
    vcore::set_max_shrink_iters(120);
    report.assumption("tmpfs enumerates directory entries in an order that depends on creation order");
    report.assumption("cases on which the compiler crashes are C08's business and are skipped here (counted)");
    let ex = Exclusions::default();

    let run_input = |input: &Value| check_files(&cases::load_case_files(input)).map(|_| ());
    if let Some(path) = &args.replay {
        let v = vcore::read_replay(path);
        report.case(Some(&v["input"].to_string()), &["replay"]);
        report.case(Some("replay-marker"), &[]);
        if let Err(f) = run_input(&v["input"]) {
            report.violation("replay", &f, v["input"].clone());
        }
        report.finish();
    }
    report.run_regressions(run_input);

    for (name, r) in demo_projects() {
        let res = report.tolerate(check_files(&r).map(|_| ()));
        report.case(Some(&name), &["checked-in-project"]);
        if let Err(f) = res {
            report.violation(&format!("demo-{name}"), &f, json!({"project": name, "files": r.files}));
        }
    }

    let n = args.tier.pick(400, 12_000);
    let res = vcore::run_prop_parallel(&report, "projects", n, vcore::num_workers(), cases::case_strategy, |spec| {
        let (r, label, faults) = materialise(spec, &ex);
        let res = check_files(&r);
        let outcome = match &res {
            Ok(o) => *o,
            Err(_) => "differs",
        };
        let n_src = r.files.keys().filter(|k| k.starts_with("src/")).count();
        let nontrivial = (n_src >= 3 || faults >= 2) && outcome.starts_with("ok");
        let key = format!("{:?}", r.files);
        report.case(if nontrivial { Some(&key) } else { None }, &[&format!("kind:{label}"), &format!("outcome:{outcome}")]);
        report.sample(&format!("{label}/{outcome}"), 1, || json!({"kind": label, "files": r.files}));
        res.map(|_| ())
    });
    if let Some((spec, fail)) = res {
        let (r, label, _) = materialise(&spec, &ex);
        report.violation("projects", &fail, json!({"kind": label, "files": r.files}));
    }

    // Second leg — hash-seed search in-process. Every `CompilerState::new` builds its hash maps with
    // fresh `RandomState` keys, so two compilations of one directory in one process iterate their
    // maps in different orders, thousands of times per second instead of three processes per
    // project. A difference seen here is only a *candidate*: the process shares interner state
    // between the two compilations, which fresh processes do not. It becomes a violation only when
    // fresh CLI processes reproduce a difference (up to 9 runs); otherwise it is counted and kept
    // as a label.
    report.engine("inproc(candidate search)");
    let n2 = args.tier.pick(60_000, 1_000_000);
    let res = vcore::run_prop_parallel(&report, "inproc-programs", n2, vcore::num_workers(), cases::case_strategy, |spec| {
        let (r, label, _) = materialise_inproc(spec, &ex);
        let k = COUNTER.fetch_add(1, Ordering::SeqCst);
        let dir = compile::fresh_dir("c14i", k);
        compile::write_project(&dir, &r);
        let o1 = compile::compile_inproc(&dir);
        let o2 = compile::compile_inproc(&dir);
        let _ = std::fs::remove_dir_all(&dir);
        use compile::Outcome::*;
        let (same, outcome) = match (&o1, &o2) {
            (Artifacts(a), Artifacts(b)) => (a == b, "artifacts"),
            (Diagnostics(a), Diagnostics(b)) => (a == b, "diagnostics"),
            (Panic(_), _) | (_, Panic(_)) => (true, "crash(C08)"),
            (SetupError(_), SetupError(_)) => (true, "setup-error"),
            _ => (false, "outcome-kind"),
        };
        let mut res = Ok(());
        let mut verdict = "same";
        if !same {
            verdict = "inproc-only-difference";
            for _ in 0..3 {
                if let Err(f) = check_files(&r) {
                    verdict = "confirmed-by-fresh-processes";
                    res = Err(f);
                    break;
                }
            }
        }
        let n_art = if let Artifacts(a) = &o1 { a.len() } else { 0 };
        let nontrivial = same && (n_art >= 10 || matches!(&o1, Diagnostics(d) if d.len() >= 2));
        let key = format!("{:?}", r.files);
        report.case(if nontrivial { Some(&key) } else { None }, &[&format!("inproc:{label}"), &format!("inproc-outcome:{outcome}"), &format!("inproc-verdict:{verdict}")]);
        res
    });
    if let Some((spec, fail)) = res {
        let (r, label, _) = materialise_inproc(&spec, &ex);
        report.violation("inproc-programs", &fail, json!({"kind": label, "files": r.files}));
    }
    report.finish();
}
