//! C13 — all generated artifacts are syntactically valid and import-closed.
//!
//! Domain: accepted G-PROJECT programs of every tier, biased to the "everything" tier (schema
//! descriptions / string arguments with comment terminators, quotes, backslashes, line
//! separators; the whole option space: module kind, file extensions in imports, generated file
//! header, persisted documents, no_babel_transform, separate artifact directory), plus the four
//! checked-in projects.
//! Oracle (tsread::c13): every .ts parses as a TypeScript module with swc without any error, every
//! .json parses with serde_json, every relative import that stays inside the artifact directory
//! names a file of the same compile, and imports that leave it name an existing source file.
use gen_project::cases::{self, CaseSpec, Exclusions};
use gen_project::compile::{self, Outcome};
use serde_json::{json, Value};
use std::sync::atomic::{AtomicU64, Ordering};
use tsread::c13::{check_c13_all, C13Options};
use tsread::ArtifactSet;
use vcore::{Args, Fail, Report};

static COUNTER: AtomicU64 = AtomicU64::new(0);

pub fn demo_projects() -> Vec<(String, gen_project::Rendered)> {
    crate::c14::demo_projects()
}

fn options_of(files: &std::collections::BTreeMap<String, String>, dir: &std::path::Path) -> C13Options {
    let cfg: Value = files.get("isograph.config.json").and_then(|c| serde_json::from_str(c).ok()).unwrap_or(Value::Null);
    let opts = &cfg["options"];
    let art_parent = cfg["artifact_directory"].as_str().or(cfg["project_root"].as_str()).unwrap_or("./src");
    C13Options {
        include_extensions: Some(opts["include_file_extensions_in_import_statements"].as_bool().unwrap_or(false)),
        outside_root: Some(dir.join(art_parent)),
        generated_file_header: opts["generated_file_header"].as_str().map(|s| s.to_string()),
    }
}

/// Compile the files in-process and check the artifact set. Ok(None) = not accepted (skipped).
pub fn check_files(files: &gen_project::Rendered, report: &Report) -> Result<Option<(usize, usize)>, Fail> {
    let n = COUNTER.fetch_add(1, Ordering::SeqCst);
    let dir = compile::fresh_dir("c13", n);
    compile::write_project(&dir, files);
    let out = compile::compile_inproc(&dir);
    let r = match out {
        Outcome::Artifacts(m) => {
            let set = ArtifactSet::from_files(m.into_iter().collect::<Vec<_>>());
            let opts = options_of(&files.files, &dir);
            let (stats, fails) = check_c13_all(&set, &opts);
            let mut first: Option<Fail> = None;
            for mut f in fails {
                // name the root cause where the artifact text shows it, so that recorded findings
                // are keyed narrowly and any other breakage of the same artifact kind is reported
                let path = f.message.split_whitespace().next().unwrap_or("").trim_end_matches(':').to_string();
                let path = path.split(':').next().unwrap_or("").to_string();
                if f.signature.starts_with("ts-syntax:") {
                    if let Some(m) = set.files.get(&path) {
                        if m.source.contains("l_-") {
                            f.signature.push_str(":negative-int-in-response-key");
                        }
                    }
                } else if f.signature == "import-unresolved:param_type.ts" && f.message.contains("'./parameters_type") {
                    // parameters_type.ts is only emitted for selectables reachable from an entrypoint
                    // (those that also get a resolver_reader.ts); param_type.ts is emitted for all
                    let reader = path.replace("param_type.ts", "resolver_reader.ts");
                    if !set.files.contains_key(&reader) {
                        f.signature.push_str(":selectable-with-variables-not-reachable-from-an-entrypoint");
                    }
                } else if f.signature == "import-unresolved:iso.ts" && f.message.contains("/__link/output_type") {
                    f.signature.push_str(":link-output-type-of-pointer-target");
                }
                if let Err(f) = report.tolerate(Err(f)) {
                    first.get_or_insert(f);
                }
            }
            match first {
                Some(f) => Err(f),
                None => Ok(Some((stats.ts_files + stats.json_files, stats.imports_inside + stats.imports_dynamic))),
            }
        }
        Outcome::Diagnostics(_) => {
            report.label("skipped:not-accepted(diagnostics)");
            Ok(None)
        }
        Outcome::SetupError(_) => {
            report.label("skipped:setup-error");
            Ok(None)
        }
        Outcome::Panic(_) => {
            report.label("skipped:compiler-crash(C08)");
            Ok(None)
        }
    };
    let _ = std::fs::remove_dir_all(&dir);
    r
}

fn run_input(input: &Value, report: &Report) -> Result<(), Fail> {
    if input["kind"] == "raw-project" {
        return tsread::raw::replay_c13(input);
    }
    check_files(&cases::load_case_files(input), report).map(|_| ())
}

fn hostile(files: &std::collections::BTreeMap<String, String>) -> bool {
    let schema = files.get("schema.graphql").map(|s| s.as_str()).unwrap_or("");
    let src: String = files.iter().filter(|(k, _)| k.starts_with("src/")).map(|(_, v)| v.as_str()).collect();
    schema.contains("*/") || schema.contains('\u{2028}') || schema.contains('`') || src.contains("it's") || src.contains("\\\"") || src.contains("\\\\") || src.contains("*/")
}

pub fn run(args: &Args) {
    let report = Report::new(
        args,
        "exploration",
        "accepted G-PROJECT programs (5 tiers; 3/5 of the cases from the tier with hostile descriptions/strings and the \
         option space) + the four checked-in projects, compiled in-process, every artifact parsed with swc / serde_json \
         and every import resolved; non-trivial = the program has a description or string with a comment terminator, \
         quote, backslash or line separator, or a non-default option; distinct by rendered files",
    );
    report.engine("inproc");
    report.engine("tsread(swc_ecma_parser)");
    report.assumption("swc_ecma_parser 3.x with TypeScript syntax is the reference for 'parses as a TypeScript module'");
    report.assumption("programs the compiler rejects or crashes on are skipped (C16 / C08 judge those)");
    let ex = Exclusions::default();

    if let Some(path) = &args.replay {
        let v = vcore::read_replay(path);
        report.case(Some(&v["input"].to_string()), &["replay"]);
        report.case(Some("replay-marker"), &[]);
        if let Err(f) = run_input(&v["input"], &report) {
            report.violation("replay", &f, v["input"].clone());
        }
        report.finish();
    }
    report.run_regressions(|i| run_input(i, &report));

    for (name, r) in demo_projects() {
        let res = check_files(&r, &report);
        report.case(Some(&name), &["checked-in-project"]);
        if let Err(f) = res {
            report.violation(&format!("demo-{name}"), &f, json!({"project": name}));
        }
    }

    let n = args.tier.pick(24_000, 400_000);
    let res = vcore::run_prop_parallel(&report, "programs", n, vcore::num_workers(), cases::case_strategy, |spec| {
        // bias to the "everything" tier
        let spec2 = CaseSpec { tape: spec.tape.clone(), variant: if spec.variant % 5 < 3 { 3 } else { spec.variant % 5 }, mtape: spec.mtape.clone() };
        let case = cases::valid_case(&spec2, &ex);
        let r = check_files(&case.rendered, &report);
        let cfg_nondefault = case.project.config != gen_project::ConfigModel::default();
        let nontrivial = matches!(r, Ok(Some(_))) && (hostile(&case.rendered.files) || cfg_nondefault);
        let key = format!("{:?}", case.rendered.files);
        let mut labels = vec![format!("tier:{}", case.tier)];
        if cfg_nondefault {
            labels.push("non-default-config".into());
        }
        if hostile(&case.rendered.files) {
            labels.push("hostile-text".into());
        }
        if let Ok(Some((files, imports))) = &r {
            report.label_n("artifacts-parsed", *files as u64);
            report.label_n("imports-resolved", *imports as u64);
        }
        let l: Vec<&str> = labels.iter().map(|s| s.as_str()).collect();
        report.case(if nontrivial { Some(&key) } else { None }, &l);
        report.sample(case.tier, 1, || json!({"tier": case.tier, "files": case.rendered.files}));
        r.map(|_| ())
    });
    if let Some((spec, fail)) = res {
        let spec2 = CaseSpec { tape: spec.tape.clone(), variant: if spec.variant % 5 < 3 { 3 } else { spec.variant % 5 }, mtape: spec.mtape.clone() };
        let case = cases::valid_case(&spec2, &ex);
        report.violation("programs", &fail, case.to_json());
    }
    report.finish();
}
