//! Copies the arena source of the tree under test (VERIF_REPO, default /repo) into OUT_DIR so that
//! `src/main.rs` can compile it, unmodified, as a private module with the real primitives.
use std::path::PathBuf;

fn main() {
    let repo = std::env::var("VERIF_REPO").unwrap_or_else(|_| "/repo".to_string());
    let src = PathBuf::from(&repo).join("relay-crates/intern/src/atomic_arena.rs");
    let out = PathBuf::from(std::env::var("OUT_DIR").unwrap()).join("atomic_arena.rs");
    let text = std::fs::read_to_string(&src).unwrap_or_else(|e| panic!("cannot read {}: {e}", src.display()));
    std::fs::write(&out, text).unwrap();
    println!("cargo:rerun-if-changed={}", src.display());
    println!("cargo:rerun-if-env-changed=VERIF_REPO");
}
