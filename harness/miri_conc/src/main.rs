//! Small real-thread programs for Miri (C05: interning, C06: arena). `miri_conc <C05|C06> <program>`.
//! Real primitives: the `intern` dependency is built without the verification feature, and the arena
//! source is compiled unmodified as a private module (see build.rs).
//! Each program checks the same oracle as the shuttle programs of `../sched` and panics with a line
//! starting `ORACLE:` on a violation; Miri itself reports data races, uninitialised reads, leaks,
//! double frees. On success a line `RUN-OK nt=<0|1>` is printed (nt: the run met the property's
//! non-trivial rule as far as the program can tell without an event log).
use std::sync::atomic::{AtomicU32, AtomicUsize, Ordering};
use std::sync::Arc;
use std::thread;

#[allow(dead_code, unused_imports, clippy::all)]
mod atomic_arena {
    include!(concat!(env!("OUT_DIR"), "/atomic_arena.rs"));
}

use atomic_arena::{AtomicArena, Ref};
use intern::intern_struct;
use intern::path::PathId;
use intern::string::{self, BytesId, StringId};
use intern::InternId;
use intern::InternSerdes;
use serde_derive::{Deserialize, Serialize};

fn oracle(ok: bool, msg: impl FnOnce() -> String) {
    if !ok {
        panic!("ORACLE: {}", msg());
    }
}

// ------------------------------------------------------------------------------------------ C06

struct Tracked {
    id: u64,
    drops: Arc<Vec<AtomicUsize>>,
}

impl Drop for Tracked {
    fn drop(&mut self) {
        self.drops[self.id as usize].fetch_add(1, Ordering::Relaxed);
    }
}

struct ArenaProg {
    prefill: u32,
    adders: &'static [(u32, bool)],
    polls: &'static [u32],
}

const ARENA_PROGS: &[ArenaProg] = &[
    ArenaProg { prefill: 0, adders: &[(2, false), (2, true)], polls: &[0, 2, 3, 1] },
    ArenaProg { prefill: 127, adders: &[(2, false), (1, true), (1, false)], polls: &[0, 3, 2] },
    ArenaProg { prefill: 126, adders: &[(3, true), (2, false)], polls: &[4, 1, 2] },
    ArenaProg { prefill: 383, adders: &[(1, false), (2, false)], polls: &[2, 0] },
    ArenaProg { prefill: 0, adders: &[(1, false), (1, false), (1, true)], polls: &[2, 1, 0] },
];

fn run_arena(p: &ArenaProg) -> bool {
    let total: u32 = p.adders.iter().map(|a| a.0).sum();
    let n = (p.prefill + total) as usize;
    let drops: Arc<Vec<AtomicUsize>> = Arc::new((0..n).map(|_| AtomicUsize::new(0)).collect());
    let arena: Arc<AtomicArena<'static, Box<Tracked>>> = Arc::new(AtomicArena::new());
    for i in 0..p.prefill {
        let r = arena.add(Box::new(Tracked { id: i as u64, drops: drops.clone() }));
        oracle(r.index() == i, || format!("prefill add #{i} returned index {}", r.index()));
    }
    let slots: Arc<Vec<AtomicU32>> = Arc::new((0..total).map(|_| AtomicU32::new(0)).collect());
    let prefill = p.prefill;
    let mut handles = vec![];
    let mut base = 0u32;
    for (t, &(adds, add_get)) in p.adders.iter().enumerate() {
        let (arena, slots, drops) = (arena.clone(), slots.clone(), drops.clone());
        let base_slot = base;
        base += adds;
        handles.push(thread::spawn(move || {
            let mut refs = vec![];
            let mut last = 0usize;
            for j in 0..adds {
                let id = (prefill + base_slot + j) as u64;
                let elem = Box::new(Tracked { id, drops: drops.clone() });
                let r: Ref<'static, Box<Tracked>> = if add_get {
                    let (r, e) = arena.add_get(elem);
                    oracle(e.id == id, || format!("adder{t}: add_get(#{id}) handed back #{}", e.id));
                    r
                } else {
                    arena.add(elem)
                };
                let got = arena.get(r).id;
                oracle(got == id, || format!("adder{t}: get(ref {}) right after adding #{id} is #{got}", r.index()));
                let l = arena.len();
                oracle(l >= last, || format!("adder{t}: len() went from {last} to {l}"));
                oracle(l >= (prefill + j + 1) as usize, || format!("adder{t}: len() = {l} below own completed additions"));
                oracle(l <= (prefill + total) as usize, || format!("adder{t}: len() = {l} above prefill + all additions"));
                last = l;
                refs.push(r.index());
                slots[(base_slot + j) as usize].store(r.index() + 1, Ordering::Release);
            }
            refs
        }));
    }
    let reader = {
        let (arena, slots) = (arena.clone(), slots.clone());
        let polls = p.polls;
        thread::spawn(move || {
            let mut last = 0usize;
            for &s in polls {
                let v = slots[s as usize].load(Ordering::Acquire);
                if v != 0 {
                    let r: Ref<'static, Box<Tracked>> = unsafe { Ref::from_index(v - 1) };
                    let got = arena.get(r).id;
                    let expect = (prefill + s) as u64;
                    oracle(got == expect, || format!("reader: get(published ref {}) should be #{expect} but is #{got}", v - 1));
                }
                let l = arena.len();
                oracle(l >= last, || format!("reader: len() went from {last} to {l}"));
                last = l;
            }
        })
    };
    let mut all: Vec<u32> = vec![];
    for h in handles {
        all.extend(h.join().expect("adder thread"));
    }
    reader.join().expect("reader thread");
    let mut sorted = all.clone();
    sorted.sort_unstable();
    sorted.dedup();
    oracle(sorted.len() == all.len(), || format!("a ref was returned twice: {all:?}"));
    oracle(all.iter().all(|r| *r >= prefill && *r < prefill + total), || format!("ref out of range: {all:?}"));
    oracle(arena.len() == n, || format!("len() = {} after all additions, expected {n}", arena.len()));
    let mut k = 0;
    let mut slot = 0u32;
    for &(adds, _) in p.adders {
        for _ in 0..adds {
            let got = arena.get(unsafe { Ref::from_index(all[k]) }).id;
            oracle(got == (prefill + slot) as u64, || format!("main: get(ref {}) after join is #{got}", all[k]));
            k += 1;
            slot += 1;
        }
    }
    let nt = all.iter().any(|r| [0u32, 128, 384].contains(r));
    match Arc::try_unwrap(arena) {
        Ok(a) => drop(a),
        Err(_) => panic!("harness: arena still shared"),
    }
    for (i, d) in drops.iter().enumerate() {
        let c = d.load(Ordering::Relaxed);
        oracle(c == 1, || format!("element #{i} was dropped {c} times when the arena was dropped"));
    }
    nt
}

// ------------------------------------------------------------------------------------------ C05

#[derive(Debug, PartialEq, Eq, Hash, Clone, Serialize, Deserialize)]
struct Item {
    name: String,
    n: i64,
}

intern_struct! {
    struct ItemId = Intern<Item> {
        serdes("InternSerdes<ItemId>");
    }
}

/// program 0/1: threads intern overlapping byte strings / strings (inline and boxed representation);
/// program 2: paths with a shared prefix and a custom interned struct. `warm` = initialise the tables
/// before the threads start (otherwise the threads also race on the lazy shard initialisation).
fn run_intern(prog: usize) -> bool {
    let warm = prog % 2 == 0;
    if warm {
        let _ = string::intern("warm-up");
        let _ = PathId::from("warm/up");
        let _ = ItemId::intern(Item { name: "warm".into(), n: 0 });
    }
    let short_owned: Arc<str> = format!("p{prog}-shared-short").into(); // <= 22 bytes: inline
    let long_owned: Arc<str> = format!("p{prog}-shared-long-value-that-is-boxed-0123456789").into(); // > 22 bytes
    let before = BytesId::table().len();
    let n_threads = if prog == 1 { 3 } else { 2 };
    let mut handles = vec![];
    for t in 0..n_threads {
        let (short_owned, long_owned) = (short_owned.clone(), long_owned.clone());
        handles.push(thread::spawn(move || {
            let (short, long): (&str, &str) = (&short_owned, &long_owned);
            let mut out: Vec<(String, u32)> = vec![];
            match prog {
                0 | 1 => {
                    let a: StringId = if t == 0 { string::intern(short) } else { string::intern(short.to_string()) };
                    oracle(a.as_str() == short, || format!("thread {t}: lookup of fresh id gives {:?}", a.as_str()));
                    out.push((short.to_string(), a.index()));
                    let b: BytesId = if t == 1 { string::intern_bytes(long.as_bytes().to_vec()) } else { string::intern_bytes(long.as_bytes()) };
                    oracle(b.as_bytes() == long.as_bytes(), || format!("thread {t}: lookup of fresh bytes id differs"));
                    out.push((long.to_string(), b.index()));
                    let own = format!("p{prog}-own-{t}");
                    let c = string::intern(own.as_str());
                    oracle(c.as_str() == own, || format!("thread {t}: own value reads back {:?}", c.as_str()));
                    oracle(BytesId::get_interned(&own.as_bytes()) == Some(c.as_bytes()), || format!("thread {t}: get_interned after intern is not the id"));
                    out.push((own, c.index()));
                    if let Some(g) = BytesId::get_interned(&short.as_bytes()) {
                        oracle(g.index() == a.index(), || format!("thread {t}: get_interned(short) = {} but intern gave {}", g.index(), a.index()));
                    }
                }
                _ => {
                    let p = PathId::from(format!("dir{prog}/sub/{}.txt", if t == 0 { "a" } else { "b" }));
                    let q = PathId::from(format!("dir{prog}/sub"));
                    oracle(p.parent() == Some(q), || format!("thread {t}: parent of dir/sub/x is not dir/sub"));
                    out.push((format!("dir{prog}/sub"), q.index()));
                    out.push((p.to_path_buf().display().to_string(), p.index()));
                    let i = ItemId::intern(Item { name: format!("shared{prog}"), n: 7 });
                    oracle(i.get().n == 7 && i.get().name == format!("shared{prog}"), || format!("thread {t}: item reads back {:?}", i.get()));
                    out.push(("item:shared".into(), i.index()));
                    let j = ItemId::intern(Item { name: format!("p{prog}-own-{t}"), n: t as i64 });
                    out.push((format!("item:own-{t}"), j.index()));
                }
            }
            out
        }));
    }
    let mut seen: std::collections::BTreeMap<String, u32> = Default::default();
    let mut by_index: std::collections::BTreeMap<(bool, u32), String> = Default::default();
    for h in handles {
        for (k, ix) in h.join().expect("intern thread") {
            if let Some(prev) = seen.insert(k.clone(), ix) {
                oracle(prev == ix, || format!("two threads interned {k:?} and got indices {prev} and {ix}"));
            }
            let table = k.starts_with("item:");
            let is_path = k.contains('/');
            if !is_path {
                if let Some(other) = by_index.insert((table, ix), k.clone()) {
                    oracle(other == k, || format!("{other:?} and {k:?} share index {ix}"));
                }
            }
        }
    }
    if prog <= 1 {
        let grown = BytesId::table().len() - before;
        let expect = 2 + n_threads;
        oracle(grown == expect, || format!("bytes table grew by {grown} for {expect} distinct new values"));
        let short: &str = &short_owned;
        oracle(string::intern(short).index() == seen[short], || "re-interning the shared value gives another id".to_string());
    }
    // the same value was new and interned by at least two threads; overlap cannot be observed here
    false
}

fn main() {
    let args: Vec<String> = std::env::args().collect();
    let prop = args.get(1).map(String::as_str).unwrap_or("C06");
    let which = args.get(2).map(String::as_str).unwrap_or("all");
    let nt = match (prop, which.parse::<usize>()) {
        ("C06", Ok(prog)) => run_arena(&ARENA_PROGS[prog % ARENA_PROGS.len()]),
        ("C06", Err(_)) => ARENA_PROGS.iter().fold(false, |nt, p| run_arena(p) | nt),
        ("C05", Ok(prog)) => run_intern(prog % 4),
        // cold programs first: their threads also race on the lazy initialisation of the tables
        ("C05", Err(_)) => [1usize, 3, 0, 2].iter().fold(false, |nt, p| run_intern(*p) | nt),
        (other, _) => panic!("harness: unknown property {other}"),
    };
    println!("RUN-OK nt={}", nt as u8);
}
