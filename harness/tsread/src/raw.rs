//! Hand-written ("raw") projects compiled in-process: the replay format of the C13 / C24
//! regression inputs, independent of any generator.
//!
//! ```json
//! {"kind": "raw-project",
//!  "schema": "type Query { … }",
//!  "schema_extensions": {"ext.graphql": "…"},
//!  "sources": {"a.ts": "export const X = iso(`…`)(…)"},      // relative to the project root ./src
//!  "options": {"include_file_extensions_in_import_statements": true},
//!  "literals": [{"kind": "field", "type": "User", "field": "Foo", "text": "field User.Foo {…}"}]  // optional
//! }
//! ```
//! `replay_c13` / `replay_c24` compile the project under a scratch directory
//! (`CompilerState::new` + `get_artifact_path_and_content`, nothing of /repo is touched) and run
//! the library checks strictly. A project the compiler rejects is reported with signature
//! `harness-domain:rejected` (a replay input is supposed to be accepted), a panic with `panic`.

use std::collections::BTreeMap;
use std::path::{Path, PathBuf};
use std::sync::atomic::{AtomicUsize, Ordering};

use common_lang_types::CurrentWorkingDirectory;
use graphql_network_protocol::GraphQLAndJavascriptProfile;
use intern::string_key::Intern;
use isograph_compiler::CompilerState;
use serde_json::{Value, json};
use vcore::Fail;

use crate::c13::{C13Options, check_c13_all};
use crate::c24::{self, IsoKind, IsoLiteral};
use crate::ArtifactSet;

#[derive(Clone, Debug, Default, PartialEq)]
pub struct RawProject {
    pub schema: String,
    /// file name → content, written next to the schema
    pub schema_extensions: BTreeMap<String, String>,
    /// path relative to the project root (`./src`) → content
    pub sources: BTreeMap<String, String>,
    /// the `options` object of isograph.config.json
    pub options: Value,
    /// literals of the program; when empty they are extracted from the sources the way the
    /// compiler extracts them
    pub literals: Vec<IsoLiteral>,
}

impl RawProject {
    pub fn from_json(v: &Value) -> Result<RawProject, String> {
        let map = |key: &str| -> BTreeMap<String, String> {
            v[key]
                .as_object()
                .map(|o| o.iter().map(|(k, v)| (k.clone(), v.as_str().unwrap_or_default().to_string())).collect())
                .unwrap_or_default()
        };
        let mut literals = vec![];
        for l in v["literals"].as_array().cloned().unwrap_or_default() {
            literals.push(IsoLiteral {
                kind: IsoKind::from_keyword(l["kind"].as_str().unwrap_or("")).ok_or("literal kind")?,
                parent_type: l["type"].as_str().ok_or("literal type")?.to_string(),
                field: l["field"].as_str().ok_or("literal field")?.to_string(),
                literal_text: l["text"].as_str().ok_or("literal text")?.to_string(),
            });
        }
        Ok(RawProject {
            schema: v["schema"].as_str().ok_or("schema")?.to_string(),
            schema_extensions: map("schema_extensions"),
            sources: map("sources"),
            options: if v["options"].is_object() { v["options"].clone() } else { json!({}) },
            literals,
        })
    }

    pub fn to_json(&self) -> Value {
        json!({
            "kind": "raw-project",
            "schema": self.schema,
            "schema_extensions": self.schema_extensions,
            "sources": self.sources,
            "options": self.options,
            "literals": self.literals.iter().map(|l| json!({
                "kind": l.kind.keyword(), "type": l.parent_type, "field": l.field, "text": l.literal_text,
            })).collect::<Vec<_>>(),
        })
    }

    /// The literals given, or those found in the sources.
    pub fn literals(&self) -> Vec<IsoLiteral> {
        if !self.literals.is_empty() {
            return self.literals.clone();
        }
        self.sources.values().flat_map(|c| c24::extract_literals_from_source(c)).collect()
    }

    pub fn c13_options(&self, project_root: &Path) -> C13Options {
        C13Options {
            include_extensions: Some(
                self.options
                    .get("include_file_extensions_in_import_statements")
                    .and_then(|v| v.as_bool())
                    .unwrap_or(false),
            ),
            outside_root: Some(project_root.to_path_buf()),
            generated_file_header: self
                .options
                .get("generated_file_header")
                .and_then(|v| v.as_str())
                .map(|s| s.to_string()),
        }
    }
}

#[derive(Clone, Debug, PartialEq)]
pub enum CompileError {
    /// the compiler (or its configuration reader) reported diagnostics
    Rejected(String),
    Panic(String),
}

pub struct Compiled {
    pub set: ArtifactSet,
    /// the directory that contains `__isograph`
    pub project_root: PathBuf,
    /// the scratch directory of this project (delete with `remove`)
    pub dir: PathBuf,
}

impl Compiled {
    pub fn remove(&self) {
        let _ = std::fs::remove_dir_all(&self.dir);
    }
}

static COUNTER: AtomicUsize = AtomicUsize::new(0);

/// Write the project under `scratch/<unique>` and compile it in memory (no artifact is written
/// to disk; `create_config` only creates the empty `__isograph` directory).
pub fn compile(p: &RawProject, scratch: &Path) -> Result<Compiled, CompileError> {
    let dir = scratch.join(format!("raw-{}-{}", std::process::id(), COUNTER.fetch_add(1, Ordering::SeqCst)));
    let _ = std::fs::remove_dir_all(&dir);
    std::fs::create_dir_all(dir.join("src")).expect("scratch");
    std::fs::write(dir.join("schema.graphql"), &p.schema).expect("write schema");
    for (name, content) in &p.schema_extensions {
        std::fs::write(dir.join(name), content).expect("write schema extension");
    }
    for (rel, content) in &p.sources {
        let path = dir.join("src").join(rel);
        std::fs::create_dir_all(path.parent().unwrap()).expect("source dir");
        std::fs::write(path, content).expect("write source");
    }
    let config = json!({
        "project_root": "./src",
        "schema": "./schema.graphql",
        "schema_extensions": p.schema_extensions.keys().map(|k| format!("./{k}")).collect::<Vec<_>>(),
        "options": p.options,
    });
    let config_path = dir.join("isograph.config.json");
    std::fs::write(&config_path, serde_json::to_string_pretty(&config).unwrap()).expect("write config");
    let cwd: CurrentWorkingDirectory = dir.to_str().unwrap().intern().into();
    let result = vcore::catch_panic(|| {
        let config = isograph_config::create_config(&config_path, cwd);
        let state = CompilerState::<GraphQLAndJavascriptProfile>::new(config, cwd).map_err(|e| format!("{e}"))?;
        let (artifacts, _stats) = artifact_content::get_artifact_path_and_content(&state.db).map_err(|diags| {
            diags
                .iter()
                .map(|d| d.printable(state.db.print_location_fn(false)).to_string())
                .collect::<Vec<_>>()
                .join("\n")
        })?;
        Ok::<_, String>(ArtifactSet::from_artifacts(&artifacts))
    });
    match result {
        Ok(Ok(set)) => Ok(Compiled { set, project_root: dir.join("src"), dir }),
        Ok(Err(e)) => {
            let _ = std::fs::remove_dir_all(&dir);
            Err(CompileError::Rejected(e))
        }
        Err(p) => {
            let _ = std::fs::remove_dir_all(&dir);
            Err(CompileError::Panic(p))
        }
    }
}

fn compile_for_replay(input: &Value) -> Result<(RawProject, Compiled), Fail> {
    let p = RawProject::from_json(input).map_err(|e| Fail::new("harness-domain:bad-replay", format!("bad raw-project input: {e}")))?;
    let scratch = vcore::scratch_base();
    match compile(&p, &scratch) {
        Ok(c) => Ok((p, c)),
        Err(CompileError::Rejected(d)) => Err(Fail::new("harness-domain:rejected", format!("the compiler rejects the project:\n{d}"))),
        Err(CompileError::Panic(m)) => Err(Fail::new("panic", m)),
    }
}

/// Strict C13 run on a `raw-project` replay input: first failure.
pub fn replay_c13(input: &Value) -> Result<(), Fail> {
    let (p, c) = compile_for_replay(input)?;
    let (_stats, mut fails) = check_c13_all(&c.set, &p.c13_options(&c.project_root));
    c.remove();
    if fails.is_empty() { Ok(()) } else { Err(fails.remove(0)) }
}

/// Strict C24 run on a `raw-project` replay input: first failure.
pub fn replay_c24(input: &Value) -> Result<(), Fail> {
    let (p, c) = compile_for_replay(input)?;
    let r = c24::check_c24(&c.set, &p.literals());
    c.remove();
    r.map(|_| ())
}
