//! The data model: evaluated values (`Val`), imports, type trees (`TsTy`), modules.

use serde_json::{Value, json};
use std::collections::BTreeMap;

/// Which export of a module an import reference denotes.
#[derive(Clone, Debug, PartialEq, Eq, PartialOrd, Ord, Hash)]
pub enum ExportName {
    Default,
    Named(String),
    /// the module namespace object (`import * as x`, or the value a dynamic `import()` resolves to)
    Namespace,
}

impl ExportName {
    pub fn as_str(&self) -> &str {
        match self {
            ExportName::Default => "default",
            ExportName::Named(n) => n,
            ExportName::Namespace => "*",
        }
    }
}

/// Where a module specifier points, relative to the artifact directory (`__isograph`).
#[derive(Clone, Debug, PartialEq, Eq, PartialOrd, Ord, Hash)]
pub enum Target {
    /// not a relative specifier (`@isograph/react`, `react`)
    Package,
    /// relative and inside the artifact directory: the normalised artifact-relative path *as
    /// written* (no extension added), e.g. `Query/Foo/resolver_reader` or `Query/Foo/entrypoint.ts`
    Inside(String),
    /// relative and leaving the artifact directory: path relative to the directory that
    /// *contains* the artifact directory, `..` segments kept when it climbs further
    /// (`Pet/PetCheckinsCard`, `../lib/x`)
    Outside(String),
}

/// A reference to an export of another module.
#[derive(Clone, Debug, PartialEq)]
pub struct ImportRef {
    pub specifier: String,
    pub export: ExportName,
    pub target: Target,
    /// For `Target::Inside`: the file of the same artifact set the specifier names (exact name,
    /// or with `.ts` appended), if there is one.
    pub resolved: Option<String>,
}

/// An evaluated JavaScript value. Only what generated artifacts contain is modelled; everything
/// else is `Opaque` with its source text, never guessed.
#[derive(Clone, Debug, PartialEq)]
pub enum Val {
    Undefined,
    Null,
    Bool(bool),
    /// every JS number is an f64
    Num(f64),
    /// cooked string value (lossy only for lone surrogates, which `Module::issues` reports)
    Str(String),
    Array(Vec<Val>),
    /// properties in source order; a repeated key keeps the last value at the first position,
    /// as `{a:1,a:2}` does in JS
    Object(Vec<(String, Val)>),
    Import(ImportRef),
    /// Arrow function / function expression. `returns` is the evaluated body when it is an
    /// expression or a block whose only statement is `return e`, with the parameters bound to
    /// `Opaque("param:<name>")`.
    Function { params: Vec<String>, returns: Option<Box<Val>> },
    /// A promise that resolves to the value (`import('./x')`, `import('./x').then(m => m.default)`).
    Promise(Box<Val>),
    /// An expression the evaluator does not model (source text).
    Opaque(String),
}

impl Val {
    pub fn get(&self, key: &str) -> Option<&Val> {
        match self {
            Val::Object(props) => props.iter().find(|(k, _)| k == key).map(|(_, v)| v),
            _ => None,
        }
    }
    pub fn as_str(&self) -> Option<&str> {
        match self {
            Val::Str(s) => Some(s),
            _ => None,
        }
    }
    pub fn as_array(&self) -> Option<&[Val]> {
        match self {
            Val::Array(a) => Some(a),
            _ => None,
        }
    }
    pub fn as_f64(&self) -> Option<f64> {
        match self {
            Val::Num(n) => Some(*n),
            _ => None,
        }
    }
    pub fn as_import(&self) -> Option<&ImportRef> {
        match self {
            Val::Import(i) => Some(i),
            _ => None,
        }
    }
    /// The value a call without arguments returns (`artifact()` for reader artifacts); the value
    /// itself when it is not a function.
    pub fn call0(&self) -> &Val {
        match self {
            Val::Function { returns: Some(r), .. } => r,
            other => other,
        }
    }
    /// The value a promise resolves to; the value itself otherwise.
    pub fn awaited(&self) -> &Val {
        match self {
            Val::Promise(v) => v,
            other => other,
        }
    }
    /// True when the value contains no `Opaque` / `Undefined` parts (import references allowed).
    pub fn is_fully_evaluated(&self) -> bool {
        match self {
            Val::Opaque(_) | Val::Undefined => false,
            Val::Array(a) => a.iter().all(|v| v.is_fully_evaluated()),
            Val::Object(p) => p.iter().all(|(_, v)| v.is_fully_evaluated()),
            Val::Function { returns, .. } => returns.as_ref().is_some_and(|r| r.is_fully_evaluated()),
            Val::Promise(v) => v.is_fully_evaluated(),
            _ => true,
        }
    }
    /// Every import reference inside the value (depth first, source order).
    pub fn import_refs(&self) -> Vec<&ImportRef> {
        let mut out = vec![];
        fn walk<'a>(v: &'a Val, out: &mut Vec<&'a ImportRef>) {
            match v {
                Val::Import(i) => out.push(i),
                Val::Array(a) => a.iter().for_each(|x| walk(x, out)),
                Val::Object(p) => p.iter().for_each(|(_, x)| walk(x, out)),
                Val::Function { returns: Some(r), .. } => walk(r, out),
                Val::Promise(p) => walk(p, out),
                _ => {}
            }
        }
        walk(self, &mut out);
        out
    }

    /// JSON encoding. Plain data maps to plain JSON (integral numbers in the safe range as JSON
    /// integers). Everything else is a one-key object whose key starts with `$`:
    /// `{"$import": {"specifier","export","target","path"}}`, `{"$function": {"params","returns"}}`,
    /// `{"$promise": v}`, `{"$undefined": true}`, `{"$opaque": "source text"}`,
    /// `{"$number": "NaN"|"Infinity"|"-Infinity"|"-0"}`.
    pub fn to_json(&self) -> Value {
        match self {
            Val::Undefined => json!({"$undefined": true}),
            Val::Null => Value::Null,
            Val::Bool(b) => json!(b),
            Val::Num(n) => num_to_json(*n),
            Val::Str(s) => json!(s),
            Val::Array(a) => Value::Array(a.iter().map(|v| v.to_json()).collect()),
            Val::Object(p) => {
                let mut m = serde_json::Map::new();
                for (k, v) in p {
                    m.insert(k.clone(), v.to_json());
                }
                Value::Object(m)
            }
            Val::Import(i) => json!({"$import": i.to_json()}),
            Val::Function { params, returns } => json!({"$function": {
                "params": params,
                "returns": returns.as_ref().map(|r| r.to_json()),
            }}),
            Val::Promise(v) => json!({"$promise": v.to_json()}),
            Val::Opaque(s) => json!({"$opaque": s}),
        }
    }
}

impl ImportRef {
    pub fn to_json(&self) -> Value {
        let (kind, path) = match &self.target {
            Target::Package => ("package", None),
            Target::Inside(p) => ("inside", Some(p.clone())),
            Target::Outside(p) => ("outside", Some(p.clone())),
        };
        json!({
            "specifier": self.specifier,
            "export": self.export.as_str(),
            "target": kind,
            "target_path": path,
            "path": self.resolved,
        })
    }
}

fn num_to_json(n: f64) -> Value {
    if n.is_nan() {
        return json!({"$number": "NaN"});
    }
    if n.is_infinite() {
        return json!({"$number": if n > 0.0 { "Infinity" } else { "-Infinity" }});
    }
    if n == 0.0 && n.is_sign_negative() {
        return json!({"$number": "-0"});
    }
    if n.fract() == 0.0 && n.abs() < 9_007_199_254_740_992.0 {
        return json!(n as i64);
    }
    json!(n)
}

#[derive(Clone, Copy, Debug, PartialEq, Eq, PartialOrd, Ord, Hash)]
pub enum ImportKind {
    /// `import x from '…'`, `import {a} from '…'`, `import '…'`, `export … from '…'`
    Static,
    /// `import type … from '…'` (the whole declaration is type-only)
    TypeOnly,
    /// `import('…')` expression anywhere in the module
    Dynamic,
}

#[derive(Clone, Debug, PartialEq)]
pub struct ImportedName {
    pub local: String,
    pub imported: ExportName,
    /// `import { type X }` or a type-only declaration
    pub type_only: bool,
}

#[derive(Clone, Debug, PartialEq)]
pub struct Import {
    pub specifier: String,
    pub kind: ImportKind,
    pub names: Vec<ImportedName>,
    pub target: Target,
    /// see `ImportRef::resolved`
    pub resolved: Option<String>,
    /// 1-based line of the declaration / expression
    pub line: usize,
}

/// A simplified TypeScript type. Parentheses are dropped.
#[derive(Clone, Debug, PartialEq)]
pub enum TsTy {
    /// `string`, `number`, `boolean`, `null`, `undefined`, `void`, `any`, `unknown`, `never`,
    /// `object`, `bigint`, `symbol`, `this`
    Keyword(String),
    LitStr(String),
    LitNum(f64),
    LitBool(bool),
    /// `{ … }` type literal
    Object(Vec<TsProp>),
    Union(Vec<TsTy>),
    Intersection(Vec<TsTy>),
    /// `ReadonlyArray<T>` / `readonly T[]` (readonly = true), `Array<T>` / `T[]` (false)
    Array { elem: Box<TsTy>, readonly: bool },
    /// type reference, qualified names joined with `.` (`React.FC`)
    Ref { name: String, args: Vec<TsTy> },
    /// `typeof x` (`x` may be dotted), with type arguments if any
    TypeQuery { name: String, args: Vec<TsTy> },
    Function { type_params: Vec<String>, params: Vec<TsParam>, ret: Box<TsTy> },
    Tuple(Vec<TsTy>),
    /// `` `${A}x${B}` ``: quasis are cooked, `quasis.len() == types.len() + 1`
    TemplateLit { quasis: Vec<String>, types: Vec<TsTy> },
    Conditional { check: Box<TsTy>, extends: Box<TsTy>, then: Box<TsTy>, otherwise: Box<TsTy> },
    Infer(String),
    /// `keyof T`
    KeyOf(Box<TsTy>),
    /// anything else, as source text
    Other(String),
}

#[derive(Clone, Debug, PartialEq)]
pub struct TsParam {
    pub name: Option<String>,
    pub optional: bool,
    pub ty: Option<TsTy>,
}

/// Member kind of a type literal: `x: T`, `get x(): T`, `set x(value: T)` (updatable selections
/// are emitted as a getter/setter pair; for a setter `ty` is the parameter's type).
#[derive(Clone, Copy, Debug, PartialEq, Eq, Hash)]
pub enum PropKind {
    Property,
    Getter,
    Setter,
}

#[derive(Clone, Debug, PartialEq)]
pub struct TsProp {
    pub name: String,
    pub kind: PropKind,
    pub optional: bool,
    pub readonly: bool,
    pub ty: TsTy,
    /// text of the block comments directly before the property (`/** … */` without the
    /// delimiters), i.e. the schema description the compiler copied
    pub doc: Option<String>,
}

impl TsTy {
    /// `T | null` → (`T`, true); anything else → (self, false). A union of more than one
    /// non-null member stays a union.
    pub fn split_nullable(&self) -> (TsTy, bool) {
        match self {
            TsTy::Union(members) => {
                let non_null: Vec<TsTy> = members
                    .iter()
                    .filter(|m| !matches!(m, TsTy::Keyword(k) if k == "null"))
                    .cloned()
                    .collect();
                let nullable = non_null.len() != members.len();
                if non_null.len() == 1 {
                    (non_null.into_iter().next().unwrap(), nullable)
                } else {
                    (TsTy::Union(non_null), nullable)
                }
            }
            other => (other.clone(), false),
        }
    }
    /// The property (or getter) called `name` of an object type literal; setters are skipped.
    pub fn prop(&self, name: &str) -> Option<&TsProp> {
        match self {
            TsTy::Object(props) => props.iter().find(|p| p.name == name && p.kind != PropKind::Setter),
            _ => None,
        }
    }
    pub fn to_json(&self) -> Value {
        match self {
            TsTy::Keyword(k) => json!({"keyword": k}),
            TsTy::LitStr(s) => json!({"lit": s}),
            TsTy::LitNum(n) => json!({"lit": num_to_json(*n)}),
            TsTy::LitBool(b) => json!({"lit": b}),
            TsTy::Object(props) => json!({"object": props.iter().map(|p| json!({
                "name": p.name, "optional": p.optional, "readonly": p.readonly,
                "kind": match p.kind { PropKind::Property => "property", PropKind::Getter => "getter", PropKind::Setter => "setter" },
                "type": p.ty.to_json(), "doc": p.doc,
            })).collect::<Vec<_>>()}),
            TsTy::Union(m) => json!({"union": m.iter().map(|t| t.to_json()).collect::<Vec<_>>()}),
            TsTy::Intersection(m) => {
                json!({"intersection": m.iter().map(|t| t.to_json()).collect::<Vec<_>>()})
            }
            TsTy::Array { elem, readonly } => json!({"array": elem.to_json(), "readonly": readonly}),
            TsTy::Ref { name, args } => {
                json!({"ref": name, "args": args.iter().map(|t| t.to_json()).collect::<Vec<_>>()})
            }
            TsTy::TypeQuery { name, args } => {
                json!({"typeof": name, "args": args.iter().map(|t| t.to_json()).collect::<Vec<_>>()})
            }
            TsTy::Function { type_params, params, ret } => json!({"function": {
                "type_params": type_params,
                "params": params.iter().map(|p| json!({
                    "name": p.name, "optional": p.optional, "type": p.ty.as_ref().map(|t| t.to_json()),
                })).collect::<Vec<_>>(),
                "returns": ret.to_json(),
            }}),
            TsTy::Tuple(m) => json!({"tuple": m.iter().map(|t| t.to_json()).collect::<Vec<_>>()}),
            TsTy::TemplateLit { quasis, types } => json!({"template": {
                "quasis": quasis, "types": types.iter().map(|t| t.to_json()).collect::<Vec<_>>(),
            }}),
            TsTy::Conditional { check, extends, then, otherwise } => json!({"conditional": {
                "check": check.to_json(), "extends": extends.to_json(),
                "then": then.to_json(), "else": otherwise.to_json(),
            }}),
            TsTy::Infer(n) => json!({"infer": n}),
            TsTy::KeyOf(t) => json!({"keyof": t.to_json()}),
            TsTy::Other(s) => json!({"other": s}),
        }
    }
}

/// `type X<A, B> = …` (exported or not)
#[derive(Clone, Debug, PartialEq)]
pub struct TypeAlias {
    pub name: String,
    pub exported: bool,
    pub type_params: Vec<String>,
    pub ty: TsTy,
    pub line: usize,
}

/// `function f<T>(p: …): R;` (overload signature, `has_body == false`) or a function
/// declaration with a body, in source order.
#[derive(Clone, Debug, PartialEq)]
pub struct FnDecl {
    pub name: String,
    pub exported: bool,
    pub type_params: Vec<String>,
    pub params: Vec<TsParam>,
    pub ret: Option<TsTy>,
    pub has_body: bool,
    pub line: usize,
}

#[derive(Clone, Debug, PartialEq)]
pub struct ParseError {
    pub message: String,
    /// 1-based
    pub line: usize,
    /// 1-based, in characters
    pub col: usize,
    /// true when swc recovered and went on (`Parser::take_errors`), false for the error that
    /// stopped the parse
    pub recovered: bool,
}

/// One `.ts` artifact.
#[derive(Clone, Debug, Default)]
pub struct Module {
    /// artifact-relative path with `/` separators
    pub path: String,
    pub source: String,
    /// empty ⇔ the file is a syntactically valid TypeScript module for swc
    pub parse_errors: Vec<ParseError>,
    pub imports: Vec<Import>,
    /// `export default <expr>` evaluated (identifier → its `const` initialiser / import reference)
    pub default_export: Option<Val>,
    /// value exports: `export const x = …`, `export { a as b }`, `export function f`
    pub named_exports: BTreeMap<String, Val>,
    /// every module-level `const` (evaluated), whether exported or not
    pub consts: BTreeMap<String, Val>,
    /// every module-level type alias, in source order
    pub type_aliases: Vec<TypeAlias>,
    /// every module-level function declaration / overload signature, in source order
    pub functions: Vec<FnDecl>,
    /// Things a consumer should know that are not syntax errors: lone surrogates in a string,
    /// a string literal whose swc value differs from the specification-derived value,
    /// duplicate module-level bindings.
    pub issues: Vec<String>,
    /// Number of string literals / template quasis cooked (self-check statistics).
    pub strings_cooked: usize,
}

impl Module {
    pub fn type_alias(&self, name: &str) -> Option<&TypeAlias> {
        self.type_aliases.iter().find(|t| t.name == name)
    }
    /// The only exported type alias of a type artifact (`param_type.ts`, `output_type.ts`, …).
    pub fn exported_type(&self) -> Option<&TypeAlias> {
        let mut it = self.type_aliases.iter().filter(|t| t.exported);
        let first = it.next()?;
        if it.next().is_some() { None } else { Some(first) }
    }
    pub fn to_json(&self) -> Value {
        json!({
            "path": self.path,
            "parse_errors": self.parse_errors.iter().map(|e| json!({
                "message": e.message, "line": e.line, "col": e.col, "recovered": e.recovered,
            })).collect::<Vec<_>>(),
            "imports": self.imports.iter().map(|i| json!({
                "specifier": i.specifier,
                "kind": match i.kind { ImportKind::Static => "static", ImportKind::TypeOnly => "type-only", ImportKind::Dynamic => "dynamic" },
                "names": i.names.iter().map(|n| json!({
                    "local": n.local, "imported": n.imported.as_str(), "type_only": n.type_only,
                })).collect::<Vec<_>>(),
                "target": match &i.target { Target::Package => "package", Target::Inside(_) => "inside", Target::Outside(_) => "outside" },
                "target_path": match &i.target { Target::Package => None, Target::Inside(p) | Target::Outside(p) => Some(p.clone()) },
                "path": i.resolved,
                "line": i.line,
            })).collect::<Vec<_>>(),
            "default": self.default_export.as_ref().map(|v| v.to_json()),
            "named": self.named_exports.iter().map(|(k, v)| (k.clone(), v.to_json())).collect::<serde_json::Map<_, _>>(),
            "types": self.type_aliases.iter().map(|t| json!({
                "name": t.name, "exported": t.exported, "type_params": t.type_params, "type": t.ty.to_json(),
            })).collect::<Vec<_>>(),
            "issues": self.issues,
        })
    }
}
