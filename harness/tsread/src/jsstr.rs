//! ECMAScript string-value semantics, written from the specification (ECMA-262 §12.9.4 "String
//! Literals", §12.9.6 "Template Literal Lexical Components"), independent of swc.
//!
//! `cook_string_literal` takes the *source text of a string literal including its quotes* and
//! returns the String Value (SV) a JS engine computes for it in **strict/module code**;
//! `cook_template_raw` takes the *text between the back-ticks* of a template literal without
//! substitutions and returns its Template Value (TV). Both return UTF-16 code units, because
//! that is what a JS string is; `Cooked::to_string_lossy` converts to a Rust string and
//! `Cooked::lone_surrogates` tells whether that conversion lost anything.

#[derive(Clone, Debug, PartialEq, Eq)]
pub struct Cooked {
    pub utf16: Vec<u16>,
}

impl Cooked {
    pub fn to_string_lossy(&self) -> String {
        String::from_utf16_lossy(&self.utf16)
    }
    pub fn lone_surrogates(&self) -> bool {
        String::from_utf16(&self.utf16).is_err()
    }
}

#[derive(Clone, Debug, PartialEq, Eq)]
pub enum CookError {
    /// not of the form `'…'` or `"…"`
    NotAStringLiteral,
    /// an unescaped closing quote, LF or CR inside the literal
    Unterminated { at: usize },
    /// `\x`, `\u` not followed by the required hex digits, or a code point above 0x10FFFF
    BadEscape { at: usize },
    /// `\1`..`\9`, `\0` followed by a digit: a Syntax Error in strict code and in templates
    OctalEscape { at: usize },
    /// `${` inside a template: there is no single cooked value
    Substitution { at: usize },
    /// a raw back-tick inside a template
    Backtick { at: usize },
}

fn push_cp(out: &mut Vec<u16>, cp: u32) {
    if cp < 0x10000 {
        out.push(cp as u16);
    } else {
        let c = cp - 0x10000;
        out.push(0xD800 + (c >> 10) as u16);
        out.push(0xDC00 + (c & 0x3FF) as u16);
    }
}

fn hex_val(c: char) -> Option<u32> {
    c.to_digit(16)
}

/// Shared escape handling. `chars[i]` is the character after the backslash. Returns the new index.
fn escape(chars: &[(usize, char)], mut i: usize, out: &mut Vec<u16>) -> Result<usize, CookError> {
    let (at, c) = match chars.get(i) {
        Some(x) => *x,
        None => return Err(CookError::Unterminated { at: chars.last().map(|x| x.0).unwrap_or(0) }),
    };
    match c {
        // LineContinuation: the SV/TV contribution is empty
        '\n' | '\u{2028}' | '\u{2029}' => return Ok(i + 1),
        '\r' => {
            if matches!(chars.get(i + 1), Some((_, '\n'))) {
                return Ok(i + 2);
            }
            return Ok(i + 1);
        }
        '\'' | '"' | '\\' => out.push(c as u16),
        'b' => out.push(0x08),
        'f' => out.push(0x0C),
        'n' => out.push(0x0A),
        'r' => out.push(0x0D),
        't' => out.push(0x09),
        'v' => out.push(0x0B),
        '0' => {
            if matches!(chars.get(i + 1), Some((_, d)) if d.is_ascii_digit()) {
                return Err(CookError::OctalEscape { at });
            }
            out.push(0);
        }
        '1'..='9' => return Err(CookError::OctalEscape { at }),
        'x' => {
            let h1 = chars.get(i + 1).and_then(|x| hex_val(x.1));
            let h2 = chars.get(i + 2).and_then(|x| hex_val(x.1));
            match (h1, h2) {
                (Some(a), Some(b)) => {
                    out.push((a * 16 + b) as u16);
                    return Ok(i + 3);
                }
                _ => return Err(CookError::BadEscape { at }),
            }
        }
        'u' => {
            if matches!(chars.get(i + 1), Some((_, '{'))) {
                let mut j = i + 2;
                let mut v: u32 = 0;
                let mut n = 0;
                loop {
                    match chars.get(j) {
                        Some((_, '}')) if n > 0 => break,
                        Some((_, h)) if hex_val(*h).is_some() => {
                            v = v.saturating_mul(16).saturating_add(hex_val(*h).unwrap());
                            if v > 0x10FFFF {
                                return Err(CookError::BadEscape { at });
                            }
                            n += 1;
                            j += 1;
                        }
                        _ => return Err(CookError::BadEscape { at }),
                    }
                }
                push_cp(out, v);
                return Ok(j + 1);
            }
            let mut v = 0u32;
            for k in 1..=4 {
                match chars.get(i + k).and_then(|x| hex_val(x.1)) {
                    Some(h) => v = v * 16 + h,
                    None => return Err(CookError::BadEscape { at }),
                }
            }
            out.push(v as u16);
            return Ok(i + 5);
        }
        other => {
            // NonEscapeCharacter: stands for itself
            push_cp(out, other as u32);
        }
    }
    i += 1;
    Ok(i)
}

/// SV of a string literal given with its quotes, strict-mode rules.
pub fn cook_string_literal(literal: &str) -> Result<Cooked, CookError> {
    let chars: Vec<(usize, char)> = literal.char_indices().collect();
    if chars.len() < 2 {
        return Err(CookError::NotAStringLiteral);
    }
    let quote = chars[0].1;
    if quote != '\'' && quote != '"' {
        return Err(CookError::NotAStringLiteral);
    }
    let mut out = vec![];
    let mut i = 1;
    loop {
        let Some(&(at, c)) = chars.get(i) else {
            return Err(CookError::Unterminated { at: literal.len() });
        };
        if c == quote {
            if i + 1 != chars.len() {
                // text after the closing quote: the given text is not one literal
                return Err(CookError::Unterminated { at });
            }
            return Ok(Cooked { utf16: out });
        }
        match c {
            '\n' | '\r' => return Err(CookError::Unterminated { at }),
            '\\' => {
                i = escape(&chars, i + 1, &mut out)?;
            }
            _ => {
                push_cp(&mut out, c as u32);
                i += 1;
            }
        }
    }
}

/// TV of a template literal without substitutions, given the text between the back-ticks.
/// `<CR><LF>` and `<CR>` in the source become `<LF>` (ECMA-262: TV of LineTerminatorSequence).
pub fn cook_template_raw(raw: &str) -> Result<Cooked, CookError> {
    let chars: Vec<(usize, char)> = raw.char_indices().collect();
    let mut out = vec![];
    let mut i = 0;
    while let Some(&(at, c)) = chars.get(i) {
        match c {
            '`' => return Err(CookError::Backtick { at }),
            '$' if matches!(chars.get(i + 1), Some((_, '{'))) => {
                return Err(CookError::Substitution { at });
            }
            '\r' => {
                out.push(0x0A);
                i += if matches!(chars.get(i + 1), Some((_, '\n'))) { 2 } else { 1 };
            }
            '\\' => {
                i = escape(&chars, i + 1, &mut out)?;
            }
            _ => {
                push_cp(&mut out, c as u32);
                i += 1;
            }
        }
    }
    Ok(Cooked { utf16: out })
}

#[cfg(test)]
mod tests {
    use super::*;

    fn s(l: &str) -> String {
        cook_string_literal(l).unwrap().to_string_lossy()
    }

    #[test]
    fn strings() {
        assert_eq!(s("'a'"), "a");
        assert_eq!(s("'a\\\nb'"), "ab");
        assert_eq!(s("'a\\\r\nb'"), "ab");
        assert_eq!(s("'a\\nb'"), "a\nb");
        assert_eq!(s(r#"'\"'"#), "\"");
        assert_eq!(s(r#"'\\"'"#), "\\\"");
        assert_eq!(s(r#""\x41B\u{43}\u{1F600}""#), "ABC\u{1F600}");
        assert_eq!(s(r#"'\q\$'"#), "q$");
        assert_eq!(s("'\\0'"), "\0");
        assert_eq!(s("'\u{2028}'"), "\u{2028}");
        assert!(matches!(cook_string_literal("'a\nb'"), Err(CookError::Unterminated { .. })));
        assert!(matches!(cook_string_literal("'a'b'"), Err(CookError::Unterminated { .. })));
        assert!(matches!(cook_string_literal("'\\1'"), Err(CookError::OctalEscape { .. })));
        assert!(matches!(cook_string_literal("'\\u12'"), Err(CookError::BadEscape { .. })));
        assert!(cook_string_literal("'\\ud800'").unwrap().lone_surrogates());
    }

    #[test]
    fn templates() {
        let t = |r: &str| cook_template_raw(r).unwrap().to_string_lossy();
        assert_eq!(t("a\r\nb\rc\nd"), "a\nb\nc\nd");
        assert_eq!(t("a\\\nb"), "ab");
        assert_eq!(t("a\\tb"), "a\tb");
        assert!(matches!(cook_template_raw("a${b}"), Err(CookError::Substitution { .. })));
        assert_eq!(t("a$b"), "a$b");
    }
}
