//! swc → `Module`: parsing, import collection, literal evaluation, type-tree conversion.

use std::collections::{BTreeMap, BTreeSet, HashMap};

use swc_common::comments::{CommentKind, SingleThreadedComments};
use swc_common::sync::Lrc;
use swc_common::{BytePos, FileName, SourceFile, SourceMap, Span, Spanned};
use swc_ecma_ast as ast;
use swc_ecma_parser::lexer::Lexer;
use swc_ecma_parser::{Parser, StringInput, Syntax, TsSyntax};
use swc_ecma_visit::{Visit, VisitWith};

use crate::jsstr::{self, CookError};
use crate::value::*;
use crate::ARTIFACT_DIR_NAME;

/// Resolve a module specifier written in the artifact `from_path` (artifact-relative, `/`).
pub fn resolve_specifier(from_path: &str, specifier: &str) -> Target {
    if !(specifier == "." || specifier == ".." || specifier.starts_with("./") || specifier.starts_with("../")) {
        return Target::Package;
    }
    let mut stack: Vec<&str> = vec![ARTIFACT_DIR_NAME];
    let mut dirs: Vec<&str> = from_path.split('/').collect();
    dirs.pop();
    stack.extend(dirs.into_iter().filter(|s| !s.is_empty()));
    for seg in specifier.split('/') {
        match seg {
            "" | "." => {}
            ".." => {
                if matches!(stack.last(), Some(s) if *s != "..") {
                    stack.pop();
                } else {
                    stack.push("..");
                }
            }
            s => stack.push(s),
        }
    }
    if stack.first() == Some(&ARTIFACT_DIR_NAME) {
        Target::Inside(stack[1..].join("/"))
    } else {
        Target::Outside(stack.join("/"))
    }
}

fn resolve_in_set(target: &Target, files: &BTreeSet<String>) -> Option<String> {
    match target {
        Target::Inside(p) => {
            if files.contains(p) {
                Some(p.clone())
            } else {
                let with_ts = format!("{p}.ts");
                files.contains(&with_ts).then_some(with_ts)
            }
        }
        _ => None,
    }
}

struct Ctx<'a> {
    path: &'a str,
    fm: Lrc<SourceFile>,
    files: &'a BTreeSet<String>,
    leading_comments: HashMap<BytePos, Vec<(CommentKind, String)>>,
}

impl Ctx<'_> {
    fn text(&self, span: Span) -> String {
        let lo = (span.lo.0.saturating_sub(self.fm.start_pos.0)) as usize;
        let hi = (span.hi.0.saturating_sub(self.fm.start_pos.0)) as usize;
        self.fm.src.get(lo..hi).unwrap_or("").to_string()
    }
    fn line_col(&self, pos: BytePos) -> (usize, usize) {
        let off = (pos.0.saturating_sub(self.fm.start_pos.0)) as usize;
        let off = off.min(self.fm.src.len());
        let before = &self.fm.src[..floor_char_boundary(&self.fm.src, off)];
        let line = before.matches('\n').count() + 1;
        let col = before.rsplit('\n').next().map(|l| l.chars().count()).unwrap_or(0) + 1;
        (line, col)
    }
    fn import_ref(&self, specifier: &str, export: ExportName) -> ImportRef {
        let target = resolve_specifier(self.path, specifier);
        let resolved = resolve_in_set(&target, self.files);
        ImportRef { specifier: specifier.to_string(), export, target, resolved }
    }
}

fn floor_char_boundary(s: &str, mut i: usize) -> usize {
    while i > 0 && !s.is_char_boundary(i) {
        i -= 1;
    }
    i
}

/// Parse one artifact. `files` is the set of artifact-relative paths of the whole set (used to
/// fill `resolved`).
pub fn read_module(path: &str, source: &str, files: &BTreeSet<String>) -> Module {
    let cm: Lrc<SourceMap> = Default::default();
    let fm = cm.new_source_file(Lrc::new(FileName::Custom(path.to_string())), source.to_string());
    let comments = SingleThreadedComments::default();
    let lexer = Lexer::new(
        Syntax::Typescript(TsSyntax { tsx: false, ..Default::default() }),
        ast::EsVersion::latest(),
        StringInput::from(&*fm),
        Some(&comments),
    );
    let mut parser = Parser::new_from(lexer);
    let result = parser.parse_module();
    let recovered = parser.take_errors();

    let mut module = Module { path: path.to_string(), source: source.to_string(), ..Default::default() };
    let mut ctx = Ctx { path, fm: fm.clone(), files, leading_comments: HashMap::new() };

    fn push_err(ctx: &Ctx, m: &mut Module, e: swc_ecma_parser::error::Error, recovered: bool) {
        let (line, col) = ctx.line_col(e.span().lo);
        m.parse_errors.push(ParseError { message: e.kind().msg().to_string(), line, col, recovered });
    }
    for e in recovered {
        push_err(&ctx, &mut module, e, true);
    }
    let swc_module = match result {
        Ok(m) => m,
        Err(e) => {
            push_err(&ctx, &mut module, e, false);
            return module;
        }
    };

    let (leading, _trailing) = comments.take_all();
    for (pos, cs) in leading.borrow().iter() {
        ctx.leading_comments
            .insert(*pos, cs.iter().map(|c| (c.kind, c.text.to_string())).collect());
    }

    // 1. bindings
    let mut ev = Evaluator {
        ctx: &ctx,
        bindings: HashMap::new(),
        in_progress: vec![],
        scopes: vec![],
        memo: HashMap::new(),
        depth: 0,
    };
    let mut declared: Vec<(String, &'static str)> = vec![];
    for item in &swc_module.body {
        match item {
            ast::ModuleItem::ModuleDecl(ast::ModuleDecl::Import(d)) => {
                let spec = d.src.value.to_string();
                let (line, _) = ctx.line_col(d.span.lo);
                let target = resolve_specifier(path, &spec);
                let resolved = resolve_in_set(&target, files);
                let mut names = vec![];
                for s in &d.specifiers {
                    let (local, imported, ty) = match s {
                        ast::ImportSpecifier::Named(n) => {
                            let imported = match &n.imported {
                                Some(ast::ModuleExportName::Ident(i)) => i.sym.to_string(),
                                Some(ast::ModuleExportName::Str(s)) => s.value.to_string(),
                                None => n.local.sym.to_string(),
                            };
                            let imported = if imported == "default" {
                                ExportName::Default
                            } else {
                                ExportName::Named(imported)
                            };
                            (n.local.sym.to_string(), imported, n.is_type_only)
                        }
                        ast::ImportSpecifier::Default(n) => (n.local.sym.to_string(), ExportName::Default, false),
                        ast::ImportSpecifier::Namespace(n) => (n.local.sym.to_string(), ExportName::Namespace, false),
                    };
                    let type_only = ty || d.type_only;
                    declared.push((local.clone(), if type_only { "import-type" } else { "import" }));
                    ev.bindings.insert(
                        local.clone(),
                        Binding::Import(ctx.import_ref(&spec, imported.clone())),
                    );
                    names.push(ImportedName { local, imported, type_only });
                }
                module.imports.push(Import {
                    specifier: spec,
                    kind: if d.type_only { ImportKind::TypeOnly } else { ImportKind::Static },
                    names,
                    target,
                    resolved,
                    line,
                });
            }
            ast::ModuleItem::ModuleDecl(ast::ModuleDecl::ExportNamed(n)) if n.src.is_some() => {
                let spec = n.src.as_ref().unwrap().value.to_string();
                let (line, _) = ctx.line_col(n.span.lo);
                let target = resolve_specifier(path, &spec);
                let resolved = resolve_in_set(&target, files);
                module.imports.push(Import {
                    specifier: spec,
                    kind: if n.type_only { ImportKind::TypeOnly } else { ImportKind::Static },
                    names: vec![],
                    target,
                    resolved,
                    line,
                });
            }
            ast::ModuleItem::ModuleDecl(ast::ModuleDecl::ExportAll(n)) => {
                let spec = n.src.value.to_string();
                let (line, _) = ctx.line_col(n.span.lo);
                let target = resolve_specifier(path, &spec);
                let resolved = resolve_in_set(&target, files);
                module.imports.push(Import {
                    specifier: spec,
                    kind: if n.type_only { ImportKind::TypeOnly } else { ImportKind::Static },
                    names: vec![],
                    target,
                    resolved,
                    line,
                });
            }
            _ => {}
        }
        let decl = match item {
            ast::ModuleItem::Stmt(ast::Stmt::Decl(d)) => Some((d, false)),
            ast::ModuleItem::ModuleDecl(ast::ModuleDecl::ExportDecl(e)) => Some((&e.decl, true)),
            _ => None,
        };
        if let Some((decl, exported)) = decl {
            match decl {
                ast::Decl::Var(v) => {
                    for d in &v.decls {
                        if let ast::Pat::Ident(id) = &d.name {
                            let name = id.id.sym.to_string();
                            declared.push((name.clone(), "lexical"));
                            if v.kind == ast::VarDeclKind::Const {
                                if let Some(init) = &d.init {
                                    ev.bindings.insert(name.clone(), Binding::Const(init));
                                }
                            } else {
                                ev.bindings.insert(name.clone(), Binding::NotConst);
                            }
                            if exported {
                                module.named_exports.insert(name, Val::Undefined);
                            }
                        }
                    }
                }
                ast::Decl::Fn(f) => {
                    let name = f.ident.sym.to_string();
                    if f.function.body.is_some() {
                        declared.push((name.clone(), "function"));
                        ev.bindings.insert(name.clone(), Binding::Fn(&f.function));
                        if exported {
                            module.named_exports.insert(name.clone(), Val::Undefined);
                        }
                    }
                    let (line, _) = ctx.line_col(f.function.span.lo);
                    module.functions.push(FnDecl {
                        name,
                        exported,
                        type_params: type_param_names(f.function.type_params.as_deref()),
                        params: f.function.params.iter().map(|p| pat_param(&ctx, &p.pat)).collect(),
                        ret: f.function.return_type.as_ref().map(|t| convert_type(&ctx, &t.type_ann)),
                        has_body: f.function.body.is_some(),
                        line,
                    });
                }
                ast::Decl::Class(c) => {
                    declared.push((c.ident.sym.to_string(), "lexical"));
                }
                ast::Decl::TsTypeAlias(t) => {
                    let (line, _) = ctx.line_col(t.span.lo);
                    module.type_aliases.push(TypeAlias {
                        name: t.id.sym.to_string(),
                        exported,
                        type_params: type_param_names(t.type_params.as_deref()),
                        ty: convert_type(&ctx, &t.type_ann),
                        line,
                    });
                }
                _ => {}
            }
        }
    }

    // 2. evaluate consts, exports
    let const_names: Vec<String> = ev
        .bindings
        .iter()
        .filter(|(_, b)| matches!(b, Binding::Const(_)))
        .map(|(k, _)| k.clone())
        .collect();
    for name in const_names {
        let v = ev.lookup(&name);
        module.consts.insert(name, v);
    }
    let exported_names: Vec<String> = module.named_exports.keys().cloned().collect();
    for name in exported_names {
        let v = ev.lookup(&name);
        module.named_exports.insert(name, v);
    }
    for item in &swc_module.body {
        match item {
            ast::ModuleItem::ModuleDecl(ast::ModuleDecl::ExportDefaultExpr(e)) => {
                module.default_export = Some(ev.eval(&e.expr));
            }
            ast::ModuleItem::ModuleDecl(ast::ModuleDecl::ExportDefaultDecl(d)) => {
                module.default_export = Some(match &d.decl {
                    ast::DefaultDecl::Fn(f) => ev.eval_function(&f.function),
                    other => Val::Opaque(ctx.text(other.span())),
                });
            }
            ast::ModuleItem::ModuleDecl(ast::ModuleDecl::ExportNamed(n)) if n.src.is_none() && !n.type_only => {
                for s in &n.specifiers {
                    if let ast::ExportSpecifier::Named(s) = s {
                        if s.is_type_only {
                            continue;
                        }
                        let orig = export_name_str(&s.orig);
                        let exported = s.exported.as_ref().map(export_name_str).unwrap_or_else(|| orig.clone());
                        let v = ev.lookup(&orig);
                        if exported == "default" {
                            module.default_export = Some(v);
                        } else {
                            module.named_exports.insert(exported, v);
                        }
                    }
                }
            }
            _ => {}
        }
    }

    // 3. dynamic imports and string self-check over the whole tree
    let mut walker = Walker { ctx: &ctx, dynamic: vec![], issues: vec![], strings: 0 };
    swc_module.visit_with(&mut walker);
    module.strings_cooked = walker.strings;
    module.issues.extend(walker.issues);
    for (spec, line) in walker.dynamic {
        let target = resolve_specifier(path, &spec);
        let resolved = resolve_in_set(&target, files);
        module.imports.push(Import { specifier: spec, kind: ImportKind::Dynamic, names: vec![], target, resolved, line });
    }

    // 4. duplicate module-level bindings (an early error for every JS engine and for tsc)
    let mut seen: BTreeMap<&str, &str> = BTreeMap::new();
    for (name, kind) in &declared {
        if let Some(prev) = seen.get(name.as_str()) {
            // value-level duplicates are an early SyntaxError for every JS engine; duplicates that
            // involve a type-only import are "only" a tsc error
            let tag = if *prev == "import-type" || *kind == "import-type" {
                "duplicate-type-binding"
            } else {
                "duplicate-binding"
            };
            module.issues.push(format!("{tag}: `{name}` declared twice ({prev}, {kind})"));
        } else {
            seen.insert(name, kind);
        }
    }
    module
}

fn export_name_str(n: &ast::ModuleExportName) -> String {
    match n {
        ast::ModuleExportName::Ident(i) => i.sym.to_string(),
        ast::ModuleExportName::Str(s) => s.value.to_string(),
    }
}

fn type_param_names(d: Option<&ast::TsTypeParamDecl>) -> Vec<String> {
    d.map(|d| d.params.iter().map(|p| p.name.sym.to_string()).collect()).unwrap_or_default()
}

fn pat_param(ctx: &Ctx, p: &ast::Pat) -> TsParam {
    match p {
        ast::Pat::Ident(b) => TsParam {
            name: Some(b.id.sym.to_string()),
            optional: b.id.optional,
            ty: b.type_ann.as_ref().map(|t| convert_type(ctx, &t.type_ann)),
        },
        ast::Pat::Assign(a) => {
            let mut inner = pat_param(ctx, &a.left);
            inner.optional = true;
            inner
        }
        ast::Pat::Rest(r) => TsParam {
            name: Some(format!("...{}", ctx.text(r.arg.span()))),
            optional: true,
            ty: r.type_ann.as_ref().map(|t| convert_type(ctx, &t.type_ann)),
        },
        ast::Pat::Array(a) => TsParam {
            name: None,
            optional: a.optional,
            ty: a.type_ann.as_ref().map(|t| convert_type(ctx, &t.type_ann)),
        },
        ast::Pat::Object(o) => TsParam {
            name: None,
            optional: o.optional,
            ty: o.type_ann.as_ref().map(|t| convert_type(ctx, &t.type_ann)),
        },
        other => TsParam { name: Some(ctx.text(other.span())), optional: false, ty: None },
    }
}

fn pat_name(ctx: &Ctx, p: &ast::Pat) -> String {
    match p {
        ast::Pat::Ident(b) => b.id.sym.to_string(),
        ast::Pat::Assign(a) => pat_name(ctx, &a.left),
        other => ctx.text(other.span()),
    }
}

// ------------------------------------------------------------------------------------------
// strings

/// Cook a string literal from its source text; swc's value is only the fallback when the raw
/// text is not available.
fn cook_str(ctx: &Ctx, s: &ast::Str, issues: Option<&mut Vec<String>>) -> String {
    let raw = match &s.raw {
        Some(r) => r.to_string(),
        None => ctx.text(s.span),
    };
    match jsstr::cook_string_literal(&raw) {
        Ok(c) => {
            let own = c.to_string_lossy();
            if let Some(issues) = issues {
                if c.lone_surrogates() {
                    issues.push(format!("lone-surrogate: string literal {raw} is not valid UTF-16"));
                } else if own != s.value.as_str() {
                    issues.push(format!(
                        "cook-disagreement: literal {raw}: specification value {own:?}, swc value {:?}",
                        s.value.as_str()
                    ));
                }
            }
            own
        }
        Err(e) => {
            if let Some(issues) = issues {
                issues.push(format!("cook-error: literal {raw}: {e:?} (swc accepted it)"));
            }
            s.value.to_string()
        }
    }
}

fn cook_quasi(ctx: &Ctx, q: &ast::TplElement, issues: Option<&mut Vec<String>>) -> Option<String> {
    let raw = ctx.text(q.span);
    match jsstr::cook_template_raw(&raw) {
        Ok(c) => {
            let own = c.to_string_lossy();
            if let Some(issues) = issues {
                if c.lone_surrogates() {
                    issues.push(format!("lone-surrogate: template chunk `{raw}` is not valid UTF-16"));
                } else if q.cooked.as_ref().map(|a| a.as_str()) != Some(own.as_str()) {
                    issues.push(format!(
                        "cook-disagreement: template chunk `{raw}`: specification value {own:?}, swc value {:?}",
                        q.cooked.as_ref().map(|a| a.to_string())
                    ));
                }
            }
            Some(own)
        }
        Err(CookError::Substitution { .. }) | Err(CookError::Backtick { .. }) => q.cooked.as_ref().map(|a| a.to_string()),
        Err(e) => {
            if let Some(issues) = issues {
                issues.push(format!("cook-error: template chunk `{raw}`: {e:?}"));
            }
            q.cooked.as_ref().map(|a| a.to_string())
        }
    }
}

struct Walker<'a> {
    ctx: &'a Ctx<'a>,
    dynamic: Vec<(String, usize)>,
    issues: Vec<String>,
    strings: usize,
}

impl Visit for Walker<'_> {
    fn visit_call_expr(&mut self, n: &ast::CallExpr) {
        if let ast::Callee::Import(_) = &n.callee {
            let (line, _) = self.ctx.line_col(n.span.lo);
            match n.args.first().map(|a| &*a.expr) {
                Some(ast::Expr::Lit(ast::Lit::Str(s))) => {
                    self.dynamic.push((cook_str(self.ctx, s, None), line));
                }
                Some(ast::Expr::Tpl(t)) if t.exprs.is_empty() && t.quasis.len() == 1 => {
                    if let Some(s) = cook_quasi(self.ctx, &t.quasis[0], None) {
                        self.dynamic.push((s, line));
                    }
                }
                _ => self.issues.push(format!(
                    "dynamic-import: specifier of `{}` is not a literal",
                    self.ctx.text(n.span)
                )),
            }
        }
        n.visit_children_with(self);
    }
    fn visit_str(&mut self, n: &ast::Str) {
        self.strings += 1;
        cook_str(self.ctx, n, Some(&mut self.issues));
    }
    fn visit_tpl_element(&mut self, n: &ast::TplElement) {
        self.strings += 1;
        cook_quasi(self.ctx, n, Some(&mut self.issues));
    }
}

// ------------------------------------------------------------------------------------------
// evaluation

enum Binding<'a> {
    Const(&'a ast::Expr),
    Fn(&'a ast::Function),
    Import(ImportRef),
    NotConst,
}

struct Evaluator<'a> {
    ctx: &'a Ctx<'a>,
    bindings: HashMap<String, Binding<'a>>,
    in_progress: Vec<String>,
    scopes: Vec<HashMap<String, Val>>,
    memo: HashMap<String, Val>,
    depth: usize,
}

const MAX_DEPTH: usize = 400;

impl<'a> Evaluator<'a> {
    fn opaque(&self, span: Span) -> Val {
        Val::Opaque(self.ctx.text(span))
    }

    fn lookup(&mut self, name: &str) -> Val {
        for scope in self.scopes.iter().rev() {
            if let Some(v) = scope.get(name) {
                return v.clone();
            }
        }
        if name == "undefined" && !self.bindings.contains_key(name) {
            return Val::Undefined;
        }
        if let Some(v) = self.memo.get(name) {
            return v.clone();
        }
        if self.in_progress.iter().any(|n| n == name) {
            return Val::Opaque(format!("cyclic:{name}"));
        }
        let v = match self.bindings.get(name) {
            None => return Val::Opaque(format!("unbound:{name}")),
            Some(Binding::NotConst) => return Val::Opaque(format!("not-const:{name}")),
            Some(Binding::Import(r)) => return Val::Import(r.clone()),
            Some(Binding::Const(e)) => {
                let e: &'a ast::Expr = e;
                self.in_progress.push(name.to_string());
                // module-level initialisers do not see inner scopes
                let saved = std::mem::take(&mut self.scopes);
                let v = self.eval(e);
                self.scopes = saved;
                self.in_progress.pop();
                v
            }
            Some(Binding::Fn(f)) => {
                let f: &'a ast::Function = f;
                self.in_progress.push(name.to_string());
                let saved = std::mem::take(&mut self.scopes);
                let v = self.eval_function(f);
                self.scopes = saved;
                self.in_progress.pop();
                v
            }
        };
        self.memo.insert(name.to_string(), v.clone());
        v
    }

    fn eval_function(&mut self, f: &ast::Function) -> Val {
        let params: Vec<String> = f.params.iter().map(|p| pat_name(self.ctx, &p.pat)).collect();
        let returns = match &f.body {
            Some(b) => self.eval_block_return(&params, b),
            None => None,
        };
        Val::Function { params, returns: returns.map(Box::new) }
    }

    fn eval_block_return(&mut self, params: &[String], b: &ast::BlockStmt) -> Option<Val> {
        if b.stmts.len() == 1 {
            if let ast::Stmt::Return(r) = &b.stmts[0] {
                return Some(match &r.arg {
                    Some(e) => self.with_params(params, |ev| ev.eval(e)),
                    None => Val::Undefined,
                });
            }
        }
        None
    }

    fn with_params<T>(&mut self, params: &[String], f: impl FnOnce(&mut Self) -> T) -> T {
        let scope = params.iter().map(|p| (p.clone(), Val::Opaque(format!("param:{p}")))).collect();
        self.scopes.push(scope);
        let r = f(self);
        self.scopes.pop();
        r
    }

    fn eval_arrow(&mut self, a: &ast::ArrowExpr, bound: Option<Vec<Val>>) -> Val {
        let params: Vec<String> = a.params.iter().map(|p| pat_name(self.ctx, p)).collect();
        let mut scope: HashMap<String, Val> =
            params.iter().map(|p| (p.clone(), Val::Opaque(format!("param:{p}")))).collect();
        let applying = bound.is_some();
        if let Some(args) = bound {
            for (p, v) in params.iter().zip(args) {
                scope.insert(p.clone(), v);
            }
        }
        self.scopes.push(scope);
        let returns = match &*a.body {
            ast::BlockStmtOrExpr::Expr(e) => Some(self.eval(e)),
            ast::BlockStmtOrExpr::BlockStmt(b) => {
                if b.stmts.len() == 1 {
                    if let ast::Stmt::Return(r) = &b.stmts[0] {
                        Some(match &r.arg {
                            Some(e) => self.eval(e),
                            None => Val::Undefined,
                        })
                    } else {
                        None
                    }
                } else {
                    None
                }
            }
        };
        self.scopes.pop();
        if applying {
            return returns.unwrap_or_else(|| self.opaque(a.span));
        }
        Val::Function { params, returns: returns.map(Box::new) }
    }

    fn prop_name(&mut self, p: &ast::PropName) -> Option<String> {
        Some(match p {
            ast::PropName::Ident(i) => i.sym.to_string(),
            ast::PropName::Str(s) => cook_str(self.ctx, s, None),
            ast::PropName::Num(n) => js_number_to_string(n.value),
            ast::PropName::BigInt(b) => b.value.to_string(),
            ast::PropName::Computed(c) => match self.eval(&c.expr) {
                Val::Str(s) => s,
                Val::Num(n) => js_number_to_string(n),
                _ => return None,
            },
        })
    }

    fn eval(&mut self, e: &ast::Expr) -> Val {
        self.depth += 1;
        if self.depth > MAX_DEPTH {
            self.depth -= 1;
            return Val::Opaque("too-deep".into());
        }
        let v = self.eval_inner(e);
        self.depth -= 1;
        v
    }

    fn eval_inner(&mut self, e: &ast::Expr) -> Val {
        use ast::Expr as E;
        match e {
            E::Lit(l) => match l {
                ast::Lit::Str(s) => Val::Str(cook_str(self.ctx, s, None)),
                ast::Lit::Bool(b) => Val::Bool(b.value),
                ast::Lit::Null(_) => Val::Null,
                ast::Lit::Num(n) => Val::Num(n.value),
                other => self.opaque(other.span()),
            },
            E::Tpl(t) => {
                let mut out = String::new();
                for (i, q) in t.quasis.iter().enumerate() {
                    match cook_quasi(self.ctx, q, None) {
                        Some(s) => out.push_str(&s),
                        None => return self.opaque(t.span),
                    }
                    if let Some(x) = t.exprs.get(i) {
                        match self.eval(x) {
                            Val::Str(s) => out.push_str(&s),
                            Val::Num(n) => out.push_str(&js_number_to_string(n)),
                            Val::Bool(b) => out.push_str(if b { "true" } else { "false" }),
                            Val::Null => out.push_str("null"),
                            Val::Undefined => out.push_str("undefined"),
                            _ => return self.opaque(t.span),
                        }
                    }
                }
                Val::Str(out)
            }
            E::Array(a) => {
                let mut out = vec![];
                for el in &a.elems {
                    match el {
                        None => out.push(Val::Undefined),
                        Some(x) if x.spread.is_some() => match self.eval(&x.expr) {
                            Val::Array(inner) => out.extend(inner),
                            _ => return self.opaque(a.span),
                        },
                        Some(x) => out.push(self.eval(&x.expr)),
                    }
                }
                Val::Array(out)
            }
            E::Object(o) => {
                let mut props: Vec<(String, Val)> = vec![];
                let set = |props: &mut Vec<(String, Val)>, k: String, v: Val| {
                    if let Some(slot) = props.iter_mut().find(|(pk, _)| *pk == k) {
                        slot.1 = v;
                    } else {
                        props.push((k, v));
                    }
                };
                for p in &o.props {
                    match p {
                        ast::PropOrSpread::Spread(s) => match self.eval(&s.expr) {
                            Val::Object(inner) => {
                                for (k, v) in inner {
                                    set(&mut props, k, v);
                                }
                            }
                            Val::Null | Val::Undefined => {}
                            _ => return self.opaque(o.span),
                        },
                        ast::PropOrSpread::Prop(p) => match &**p {
                            ast::Prop::Shorthand(i) => {
                                let v = self.lookup(&i.sym);
                                set(&mut props, i.sym.to_string(), v);
                            }
                            ast::Prop::KeyValue(kv) => {
                                let Some(k) = self.prop_name(&kv.key) else {
                                    return self.opaque(o.span);
                                };
                                let v = self.eval(&kv.value);
                                set(&mut props, k, v);
                            }
                            ast::Prop::Method(m) => {
                                let Some(k) = self.prop_name(&m.key) else {
                                    return self.opaque(o.span);
                                };
                                let v = self.eval_function(&m.function);
                                set(&mut props, k, v);
                            }
                            _ => return self.opaque(o.span),
                        },
                    }
                }
                Val::Object(props)
            }
            E::Ident(i) => self.lookup(&i.sym),
            E::Paren(p) => self.eval(&p.expr),
            E::TsAs(t) => self.eval(&t.expr),
            E::TsConstAssertion(t) => self.eval(&t.expr),
            E::TsNonNull(t) => self.eval(&t.expr),
            E::TsSatisfies(t) => self.eval(&t.expr),
            E::TsTypeAssertion(t) => self.eval(&t.expr),
            E::TsInstantiation(t) => self.eval(&t.expr),
            E::Unary(u) => {
                let arg = self.eval(&u.arg);
                match (u.op, arg) {
                    (ast::UnaryOp::Minus, Val::Num(n)) => Val::Num(-n),
                    (ast::UnaryOp::Plus, Val::Num(n)) => Val::Num(n),
                    (ast::UnaryOp::Bang, Val::Bool(b)) => Val::Bool(!b),
                    (ast::UnaryOp::Void, _) => Val::Undefined,
                    _ => self.opaque(u.span),
                }
            }
            E::Bin(b) if b.op == ast::BinaryOp::Add => {
                match (self.eval(&b.left), self.eval(&b.right)) {
                    (Val::Str(l), Val::Str(r)) => Val::Str(l + r.as_str()),
                    (Val::Num(l), Val::Num(r)) => Val::Num(l + r),
                    _ => self.opaque(b.span),
                }
            }
            E::Arrow(a) => self.eval_arrow(a, None),
            E::Fn(f) => self.eval_function(&f.function),
            E::Member(m) => {
                let obj = self.eval(&m.obj);
                let key = match &m.prop {
                    ast::MemberProp::Ident(i) => Some(i.sym.to_string()),
                    ast::MemberProp::Computed(c) => match self.eval(&c.expr) {
                        Val::Str(s) => Some(s),
                        Val::Num(n) => Some(js_number_to_string(n)),
                        _ => None,
                    },
                    _ => None,
                };
                let Some(key) = key else { return self.opaque(m.span) };
                match obj {
                    Val::Object(_) => obj.get(&key).cloned().unwrap_or(Val::Undefined),
                    Val::Array(a) => match key.parse::<usize>() {
                        Ok(i) => a.get(i).cloned().unwrap_or(Val::Undefined),
                        Err(_) if key == "length" => Val::Num(a.len() as f64),
                        Err(_) => self.opaque(m.span),
                    },
                    Val::Import(r) if r.export == ExportName::Namespace => Val::Import(ImportRef {
                        export: if key == "default" { ExportName::Default } else { ExportName::Named(key) },
                        ..r
                    }),
                    _ => self.opaque(m.span),
                }
            }
            E::Call(c) => self.eval_call(c),
            other => self.opaque(other.span()),
        }
    }

    fn eval_call(&mut self, c: &ast::CallExpr) -> Val {
        match &c.callee {
            ast::Callee::Import(_) => {
                let spec = match c.args.first().map(|a| &*a.expr) {
                    Some(ast::Expr::Lit(ast::Lit::Str(s))) => Some(cook_str(self.ctx, s, None)),
                    Some(ast::Expr::Tpl(t)) if t.exprs.is_empty() && t.quasis.len() == 1 => {
                        cook_quasi(self.ctx, &t.quasis[0], None)
                    }
                    _ => None,
                };
                match spec {
                    Some(s) => Val::Promise(Box::new(Val::Import(self.ctx.import_ref(&s, ExportName::Namespace)))),
                    None => self.opaque(c.span),
                }
            }
            ast::Callee::Expr(callee) => {
                // promise.then(x => …)
                if let ast::Expr::Member(m) = &**callee {
                    if m.prop.is_ident_with("then") && c.args.len() == 1 && c.args[0].spread.is_none() {
                        if let Val::Promise(inner) = self.eval(&m.obj) {
                            let cb = strip_parens(&c.args[0].expr);
                            if let ast::Expr::Arrow(a) = cb {
                                if a.params.len() <= 1 && a.params.iter().all(|p| matches!(p, ast::Pat::Ident(_))) {
                                    let r = self.eval_arrow(a, Some(vec![*inner]));
                                    return match r {
                                        Val::Promise(p) => Val::Promise(p),
                                        other => Val::Promise(Box::new(other)),
                                    };
                                }
                            }
                        }
                        return self.opaque(c.span);
                    }
                }
                // call of a local function without arguments
                if c.args.is_empty() {
                    if let Val::Function { params, returns: Some(r) } = self.eval(callee) {
                        if params.is_empty() {
                            return *r;
                        }
                    }
                }
                self.opaque(c.span)
            }
            _ => self.opaque(c.span),
        }
    }
}

fn strip_parens(e: &ast::Expr) -> &ast::Expr {
    match e {
        ast::Expr::Paren(p) => strip_parens(&p.expr),
        other => other,
    }
}

/// Number::toString for property keys and template substitutions (integers and simple decimals).
fn js_number_to_string(n: f64) -> String {
    if n.is_nan() {
        return "NaN".into();
    }
    if n.is_infinite() {
        return if n > 0.0 { "Infinity".into() } else { "-Infinity".into() };
    }
    if n == 0.0 {
        return "0".into();
    }
    if n.fract() == 0.0 && n.abs() < 1e21 {
        return format!("{}", n as i128);
    }
    format!("{n}")
}

// ------------------------------------------------------------------------------------------
// types

fn entity_name(n: &ast::TsEntityName) -> String {
    match n {
        ast::TsEntityName::Ident(i) => i.sym.to_string(),
        ast::TsEntityName::TsQualifiedName(q) => format!("{}.{}", entity_name(&q.left), q.right.sym),
    }
}

fn type_args(ctx: &Ctx, a: Option<&ast::TsTypeParamInstantiation>) -> Vec<TsTy> {
    a.map(|a| a.params.iter().map(|t| convert_type(ctx, t)).collect()).unwrap_or_default()
}

fn doc_before(ctx: &Ctx, pos: BytePos) -> Option<String> {
    let cs = ctx.leading_comments.get(&pos)?;
    let blocks: Vec<&str> =
        cs.iter().filter(|(k, _)| *k == CommentKind::Block).map(|(_, t)| t.as_str()).collect();
    if blocks.is_empty() {
        return None;
    }
    Some(
        blocks
            .iter()
            .map(|t| t.strip_prefix('*').unwrap_or(t).to_string())
            .collect::<Vec<_>>()
            .join("\n"),
    )
}

fn convert_type(ctx: &Ctx, t: &ast::TsType) -> TsTy {
    use ast::TsType as T;
    match t {
        T::TsKeywordType(k) => TsTy::Keyword(ctx.text(k.span)),
        T::TsThisType(_) => TsTy::Keyword("this".into()),
        T::TsParenthesizedType(p) => convert_type(ctx, &p.type_ann),
        T::TsLitType(l) => match &l.lit {
            ast::TsLit::Str(s) => TsTy::LitStr(cook_str(ctx, s, None)),
            ast::TsLit::Number(n) => TsTy::LitNum(n.value),
            ast::TsLit::Bool(b) => TsTy::LitBool(b.value),
            ast::TsLit::Tpl(tpl) => {
                let mut quasis = vec![];
                for q in &tpl.quasis {
                    match cook_quasi(ctx, q, None) {
                        Some(s) => quasis.push(s),
                        None => return TsTy::Other(ctx.text(l.span)),
                    }
                }
                TsTy::TemplateLit { quasis, types: tpl.types.iter().map(|t| convert_type(ctx, t)).collect() }
            }
            _ => TsTy::Other(ctx.text(l.span)),
        },
        T::TsTypeLit(l) => {
            let mut props = vec![];
            for m in &l.members {
                match m {
                    ast::TsTypeElement::TsPropertySignature(p) => {
                        let name = match (&*p.key, p.computed) {
                            (ast::Expr::Ident(i), false) => i.sym.to_string(),
                            (ast::Expr::Lit(ast::Lit::Str(s)), _) => cook_str(ctx, s, None),
                            (ast::Expr::Lit(ast::Lit::Num(n)), _) => js_number_to_string(n.value),
                            (other, _) => format!("[{}]", ctx.text(other.span())),
                        };
                        props.push(TsProp {
                            name,
                            kind: PropKind::Property,
                            optional: p.optional,
                            readonly: p.readonly,
                            ty: p
                                .type_ann
                                .as_ref()
                                .map(|t| convert_type(ctx, &t.type_ann))
                                .unwrap_or(TsTy::Keyword("any".into())),
                            doc: doc_before(ctx, p.span.lo),
                        });
                    }
                    ast::TsTypeElement::TsGetterSignature(g) if !g.computed && g.key.is_ident() => {
                        props.push(TsProp {
                            name: g.key.as_ident().map(|i| i.sym.to_string()).unwrap_or_default(),
                            kind: PropKind::Getter,
                            optional: false,
                            readonly: false,
                            ty: g
                                .type_ann
                                .as_ref()
                                .map(|t| convert_type(ctx, &t.type_ann))
                                .unwrap_or(TsTy::Keyword("any".into())),
                            doc: doc_before(ctx, g.span.lo),
                        });
                    }
                    ast::TsTypeElement::TsSetterSignature(s) if !s.computed && s.key.is_ident() => {
                        let ty = match &s.param {
                            ast::TsFnParam::Ident(b) => b.type_ann.as_ref().map(|t| convert_type(ctx, &t.type_ann)),
                            _ => None,
                        };
                        props.push(TsProp {
                            name: s.key.as_ident().map(|i| i.sym.to_string()).unwrap_or_default(),
                            kind: PropKind::Setter,
                            optional: false,
                            readonly: false,
                            ty: ty.unwrap_or(TsTy::Keyword("any".into())),
                            doc: doc_before(ctx, s.span.lo),
                        });
                    }
                    other => {
                        return TsTy::Other(format!(
                            "type literal with unsupported member `{}`: {}",
                            ctx.text(other.span()),
                            ctx.text(l.span)
                        ));
                    }
                }
            }
            TsTy::Object(props)
        }
        T::TsUnionOrIntersectionType(u) => match u {
            ast::TsUnionOrIntersectionType::TsUnionType(u) => {
                TsTy::Union(u.types.iter().map(|t| convert_type(ctx, t)).collect())
            }
            ast::TsUnionOrIntersectionType::TsIntersectionType(i) => {
                TsTy::Intersection(i.types.iter().map(|t| convert_type(ctx, t)).collect())
            }
        },
        T::TsArrayType(a) => TsTy::Array { elem: Box::new(convert_type(ctx, &a.elem_type)), readonly: false },
        T::TsTypeOperator(o) if o.op == ast::TsTypeOperatorOp::ReadOnly => match convert_type(ctx, &o.type_ann) {
            TsTy::Array { elem, .. } => TsTy::Array { elem, readonly: true },
            _ => TsTy::Other(ctx.text(o.span)),
        },
        T::TsTypeOperator(o) if o.op == ast::TsTypeOperatorOp::KeyOf => {
            TsTy::KeyOf(Box::new(convert_type(ctx, &o.type_ann)))
        }
        T::TsTypeRef(r) => {
            let name = entity_name(&r.type_name);
            let mut args = type_args(ctx, r.type_params.as_deref());
            if (name == "ReadonlyArray" || name == "Array") && args.len() == 1 {
                return TsTy::Array { elem: Box::new(args.remove(0)), readonly: name == "ReadonlyArray" };
            }
            TsTy::Ref { name, args }
        }
        T::TsTypeQuery(q) => match &q.expr_name {
            ast::TsTypeQueryExpr::TsEntityName(n) => {
                TsTy::TypeQuery { name: entity_name(n), args: type_args(ctx, q.type_args.as_deref()) }
            }
            _ => TsTy::Other(ctx.text(q.span)),
        },
        T::TsFnOrConstructorType(ast::TsFnOrConstructorType::TsFnType(f)) => TsTy::Function {
            type_params: type_param_names(f.type_params.as_deref()),
            params: f
                .params
                .iter()
                .map(|p| match p {
                    ast::TsFnParam::Ident(b) => TsParam {
                        name: Some(b.id.sym.to_string()),
                        optional: b.id.optional,
                        ty: b.type_ann.as_ref().map(|t| convert_type(ctx, &t.type_ann)),
                    },
                    ast::TsFnParam::Rest(r) => TsParam {
                        name: Some(format!("...{}", ctx.text(r.arg.span()))),
                        optional: true,
                        ty: r.type_ann.as_ref().map(|t| convert_type(ctx, &t.type_ann)),
                    },
                    ast::TsFnParam::Array(a) => TsParam {
                        name: None,
                        optional: a.optional,
                        ty: a.type_ann.as_ref().map(|t| convert_type(ctx, &t.type_ann)),
                    },
                    ast::TsFnParam::Object(o) => TsParam {
                        name: None,
                        optional: o.optional,
                        ty: o.type_ann.as_ref().map(|t| convert_type(ctx, &t.type_ann)),
                    },
                })
                .collect(),
            ret: Box::new(convert_type(ctx, &f.type_ann.type_ann)),
        },
        T::TsTupleType(tu) => TsTy::Tuple(tu.elem_types.iter().map(|e| convert_type(ctx, &e.ty)).collect()),
        T::TsConditionalType(c) => TsTy::Conditional {
            check: Box::new(convert_type(ctx, &c.check_type)),
            extends: Box::new(convert_type(ctx, &c.extends_type)),
            then: Box::new(convert_type(ctx, &c.true_type)),
            otherwise: Box::new(convert_type(ctx, &c.false_type)),
        },
        T::TsInferType(i) => TsTy::Infer(i.type_param.name.sym.to_string()),
        other => TsTy::Other(ctx.text(other.span())),
    }
}
