//! C24 — every iso literal resolves to its own generated overload in `iso.ts`.
//!
//! ## The model (an assumption, recorded by the caller with `C24_ASSUMPTION`)
//!
//! No `tsc` exists offline, so the conditional / template-literal types `iso.ts` relies on are
//! modelled by hand. `read_iso_file` first **verifies that the file has exactly the shape the
//! model covers** and refuses (signature `harness-model:…`, to be mapped to *inconclusive*, not
//! to a violation) when it does not:
//!
//! ```text
//! type WhitespaceCharacter = ' ' | '\t' | '\n';                       // read, not assumed
//! type Whitespace<In> = In extends `${WhitespaceCharacter}${infer In}` ? Whitespace<In> : In;
//! type MatchesWhitespaceAndString<TString extends string, T> =
//!     Whitespace<T> extends `${TString}${string}` ? T : never;
//! export function iso<T>(param: T & MatchesWhitespaceAndString<'field Query.foo', T>): R;   // × n
//! export function iso(text: string): … { … }        // implementation signature: not an overload
//! ```
//!
//! Semantics modelled, for a call ``iso(`text`)``:
//! 1. `T` is the string-literal type of the template literal = its **Template Value**: escapes
//!    applied, and `<CR><LF>` / `<CR>` of the source normalised to `<LF>` (ECMA-262 TV of
//!    LineTerminatorSequence). A literal with `${` or an invalid escape has no literal type and is
//!    outside the domain (`harness-domain:…`).
//! 2. `Whitespace<T>` removes, repeatedly, one leading member of `WhitespaceCharacter` — leading
//!    only; nothing inside the text is touched.
//! 3. `` X extends `${P}${string}` `` holds iff the pattern `P` is a prefix of `X`.
//! 4. Overload resolution tries the signatures in declaration order and takes the first whose
//!    parameter accepts the argument; `T & never` = `never` accepts nothing. The signature of
//!    the implementation (the one with a body) is not visible to callers.
//!    (Not modelled: tsc's instantiation-depth limit, relevant only for ~1000 leading
//!    whitespace characters.)
//!
//! ## The check
//! For each literal `(kind, Type, field, literal text as written between the back-ticks)`:
//! the first matching overload must exist, its return type must name `<Type>__<field>__param`
//! (fields, pointers) / `entrypoint_<Type>__<field>` (entrypoints), and — when the import of
//! that name resolves inside the set — the import must come from `<Type>/<field>/param_type` /
//! `<Type>/<field>/entrypoint`.
//!
//! Failure signatures: `no-overload:missing` (no overload carries this declaration at all),
//! `no-overload:leading-whitespace` (the literal starts with a character the compiler's lexer
//! skips — form feed, U+FEFF — that `WhitespaceCharacter` lacks), `no-overload:header-layout`
//! (the header is not the single-space canonical `kind Type.field` form the patterns spell),
//! `no-overload:whitespace-set-incomplete` (a leading space, tab or line feed is not stripped),
//! `no-overload:other`, `wrong-overload:prefix` (an earlier overload's pattern is a prefix),
//! `wrong-overload:return-type`, `wrong-overload:import-path`,
//! `wrong-overload:underscore-name-collision` (the return type
//! has the expected name but is imported from another declaration's directory: `A.b__c` and
//! `A__b.c` share `A__b__c__param`).

use vcore::Fail;

use crate::{ArtifactSet, ExportName, FnDecl, Module, TsTy, jsstr};

pub const C24_ASSUMPTION: &str = "C24 models tsc by hand: the call iso(`text`) infers T as the template \
literal's cooked text (CR/CRLF -> LF); Whitespace<T> strips leading members of the WhitespaceCharacter \
union read from iso.ts; `X extends `${P}${string}`` is a prefix test; the first overload in declaration \
order whose parameter type is not never is selected; the implementation signature is invisible. The \
shape of the three helper types and of every overload is verified against iso.ts before the model is used.";

#[derive(Clone, Copy, Debug, PartialEq, Eq, PartialOrd, Ord, Hash)]
pub enum IsoKind {
    Field,
    Pointer,
    Entrypoint,
}

impl IsoKind {
    pub fn keyword(self) -> &'static str {
        match self {
            IsoKind::Field => "field",
            IsoKind::Pointer => "pointer",
            IsoKind::Entrypoint => "entrypoint",
        }
    }
    pub fn from_keyword(s: &str) -> Option<IsoKind> {
        match s {
            "field" => Some(IsoKind::Field),
            "pointer" => Some(IsoKind::Pointer),
            "entrypoint" => Some(IsoKind::Entrypoint),
            _ => None,
        }
    }
}

/// One iso literal of the program, as written in the source between the back-ticks.
#[derive(Clone, Debug, PartialEq, Eq, Hash)]
pub struct IsoLiteral {
    pub kind: IsoKind,
    pub parent_type: String,
    pub field: String,
    pub literal_text: String,
}

/// One `export function iso<T>(param: T & MatchesWhitespaceAndString<'…', T>): R;`
#[derive(Clone, Debug, PartialEq)]
pub struct Overload {
    /// position among the overloads, in declaration order
    pub index: usize,
    /// the string-literal type argument, cooked
    pub pattern: String,
    /// `Query__foo__param` / `entrypoint_Query__foo`: the identifier the return type names
    pub return_name: String,
    /// return type is `typeof <return_name>` (entrypoints)
    pub returns_typeof: bool,
    /// outer type of the return (`IdentityWithParam`, `IdentityWithParamComponent`, `typeof`)
    pub wrapper: String,
    /// artifact-relative file `return_name` is imported from, when the import resolves in the set
    pub import_path: Option<String>,
    pub line: usize,
}

#[derive(Clone, Debug, PartialEq)]
pub struct IsoFile {
    /// members of `WhitespaceCharacter`, cooked
    pub whitespace: Vec<String>,
    pub overloads: Vec<Overload>,
}

fn model_err(what: impl Into<String>) -> Fail {
    Fail::new("harness-model:iso.ts-shape", what)
}

fn is_ref(t: &TsTy, name: &str) -> bool {
    matches!(t, TsTy::Ref { name: n, args } if n == name && args.is_empty())
}

/// Read `iso.ts` and verify it has the shape the model covers.
pub fn read_iso_file(set: &ArtifactSet) -> Result<IsoFile, Fail> {
    let m: &Module = set
        .files
        .get("iso.ts")
        .ok_or_else(|| Fail::new("no-iso-file", "the artifact set has no iso.ts"))?;
    if !m.parse_errors.is_empty() {
        return Err(Fail::new(
            "harness-model:iso.ts-does-not-parse",
            format!("iso.ts has syntax errors (a C13 matter): {:?}", m.parse_errors.first()),
        ));
    }

    // WhitespaceCharacter
    let ws_alias = m.type_alias("WhitespaceCharacter").ok_or_else(|| model_err("no type WhitespaceCharacter"))?;
    let whitespace: Vec<String> = match &ws_alias.ty {
        TsTy::LitStr(s) => vec![s.clone()],
        TsTy::Union(members) => members
            .iter()
            .map(|t| match t {
                TsTy::LitStr(s) => Ok(s.clone()),
                other => Err(model_err(format!("WhitespaceCharacter member is not a string literal: {other:?}"))),
            })
            .collect::<Result<_, _>>()?,
        other => return Err(model_err(format!("WhitespaceCharacter is not a union of string literals: {other:?}"))),
    };
    if whitespace.iter().any(|w| w.is_empty()) {
        return Err(model_err("WhitespaceCharacter has an empty member"));
    }

    // Whitespace<In>
    let ws = m.type_alias("Whitespace").ok_or_else(|| model_err("no type Whitespace"))?;
    let shape_ok = (|| {
        let [p] = ws.type_params.as_slice() else { return false };
        let TsTy::Conditional { check, extends, then, otherwise } = &ws.ty else { return false };
        if !is_ref(check, p) {
            return false;
        }
        let TsTy::TemplateLit { quasis, types } = &**extends else { return false };
        if quasis.len() != 3 || quasis.iter().any(|q| !q.is_empty()) || types.len() != 2 {
            return false;
        }
        if !is_ref(&types[0], "WhitespaceCharacter") {
            return false;
        }
        let TsTy::Infer(rest) = &types[1] else { return false };
        let TsTy::Ref { name, args } = &**then else { return false };
        if name != "Whitespace" || args.len() != 1 || !is_ref(&args[0], rest) {
            return false;
        }
        // `infer In` shadows the parameter `In` inside the true branch; the false branch sees the
        // parameter
        is_ref(otherwise, p)
    })();
    if !shape_ok {
        return Err(model_err(format!("type Whitespace does not have the modelled shape: {:?}", ws.ty)));
    }

    // MatchesWhitespaceAndString<TString, T>
    let mw = m
        .type_alias("MatchesWhitespaceAndString")
        .ok_or_else(|| model_err("no type MatchesWhitespaceAndString"))?;
    let shape_ok = (|| {
        let [s, t] = mw.type_params.as_slice() else { return false };
        let TsTy::Conditional { check, extends, then, otherwise } = &mw.ty else { return false };
        let TsTy::Ref { name, args } = &**check else { return false };
        if name != "Whitespace" || args.len() != 1 || !is_ref(&args[0], t) {
            return false;
        }
        let TsTy::TemplateLit { quasis, types } = &**extends else { return false };
        if quasis.len() != 3 || quasis.iter().any(|q| !q.is_empty()) || types.len() != 2 {
            return false;
        }
        if !is_ref(&types[0], s) || !matches!(&types[1], TsTy::Keyword(k) if k == "string") {
            return false;
        }
        is_ref(then, t) && matches!(&**otherwise, TsTy::Keyword(k) if k == "never")
    })();
    if !shape_ok {
        return Err(model_err(format!(
            "type MatchesWhitespaceAndString does not have the modelled shape: {:?}",
            mw.ty
        )));
    }

    // overloads
    let mut overloads = vec![];
    let isos: Vec<&FnDecl> = m.functions.iter().filter(|f| f.name == "iso").collect();
    for (i, f) in isos.iter().enumerate() {
        if f.has_body {
            if i + 1 != isos.len() {
                return Err(model_err("the iso implementation is not the last iso declaration"));
            }
            continue;
        }
        let [tp] = f.type_params.as_slice() else {
            return Err(model_err(format!("iso overload at line {} is not generic in one parameter", f.line)));
        };
        let [param] = f.params.as_slice() else {
            return Err(model_err(format!("iso overload at line {} does not take one parameter", f.line)));
        };
        let pattern = match &param.ty {
            Some(TsTy::Intersection(parts)) if parts.len() == 2 && is_ref(&parts[0], tp) => match &parts[1] {
                TsTy::Ref { name, args }
                    if name == "MatchesWhitespaceAndString" && args.len() == 2 && is_ref(&args[1], tp) =>
                {
                    match &args[0] {
                        TsTy::LitStr(s) => Some(s.clone()),
                        _ => None,
                    }
                }
                _ => None,
            },
            _ => None,
        };
        let Some(pattern) = pattern else {
            return Err(model_err(format!(
                "iso overload at line {}: parameter type is not `T & MatchesWhitespaceAndString<'…', T>`: {:?}",
                f.line, param.ty
            )));
        };
        let (wrapper, return_name, returns_typeof) = match &f.ret {
            Some(TsTy::TypeQuery { name, args }) if args.is_empty() => ("typeof".to_string(), name.clone(), true),
            Some(TsTy::Ref { name, args }) if !args.is_empty() => match &args[0] {
                TsTy::Ref { name: inner, args: a } if a.is_empty() => (name.clone(), inner.clone(), false),
                other => {
                    return Err(model_err(format!(
                        "iso overload at line {}: first type argument of the return type is not a name: {other:?}",
                        f.line
                    )));
                }
            },
            other => {
                return Err(model_err(format!("iso overload at line {}: unmodelled return type {other:?}", f.line)));
            }
        };
        let import_path = m
            .imports
            .iter()
            .find(|imp| {
                imp.names.iter().any(|n| {
                    n.local == return_name
                        && if returns_typeof {
                            n.imported == ExportName::Default
                        } else {
                            n.imported == ExportName::Named(return_name.clone())
                        }
                })
            })
            .and_then(|imp| imp.resolved.clone());
        overloads.push(Overload {
            index: overloads.len(),
            pattern,
            return_name,
            returns_typeof,
            wrapper,
            import_path,
            line: f.line,
        });
    }
    Ok(IsoFile { whitespace, overloads })
}

/// `Whitespace<T>`: strip leading members of the whitespace set.
pub fn strip_leading_whitespace<'a>(iso: &IsoFile, mut text: &'a str) -> &'a str {
    'outer: loop {
        for w in &iso.whitespace {
            if let Some(rest) = text.strip_prefix(w.as_str()) {
                text = rest;
                continue 'outer;
            }
        }
        return text;
    }
}

/// Index of the overload tsc selects for a literal whose cooked text is `cooked`.
pub fn select_overload(iso: &IsoFile, cooked: &str) -> Option<usize> {
    let stripped = strip_leading_whitespace(iso, cooked);
    iso.overloads.iter().position(|o| stripped.starts_with(o.pattern.as_str()))
}

/// How a literal's header is laid out, relative to what the generated patterns can match.
#[derive(Clone, Copy, Debug, PartialEq, Eq, PartialOrd, Ord, Hash)]
pub enum HeaderLayout {
    /// `kind Type.field` with single spaces and nothing but ' ', '\t', '\n', '\r' before it
    Canonical,
    /// canonical header, but preceded by a character the compiler's lexer skips and JS template
    /// cooking keeps (form feed, U+FEFF)
    LeadingNonTsWhitespace,
    /// more than one space / another whitespace character between `kind` and `Type`, or
    /// whitespace around the dot
    NonCanonicalInside,
    /// does not start with `kind Type . field` at all under the compiler's own token rules
    NotAHeader,
}

/// Whitespace the iso-literal lexer skips (`[ \t\r\n\f\u{feff}]`, isograph_lang_parser).
fn is_compiler_ws(c: char) -> bool {
    matches!(c, ' ' | '\t' | '\r' | '\n' | '\u{c}' | '\u{feff}')
}

/// Classify the header layout of a literal (independent of `iso.ts`; used for labels, the
/// non-trivial rule and exclusion by construction).
pub fn header_layout(lit: &IsoLiteral) -> HeaderLayout {
    let text = lit.literal_text.as_str();
    let body = text.trim_start_matches(is_compiler_ws);
    let leading = &text[..text.len() - body.len()];
    let canonical = format!("{} {}.{}", lit.kind.keyword(), lit.parent_type, lit.field);
    let is_ident_char = |c: char| c.is_ascii_alphanumeric() || c == '_';
    if let Some(rest) = body.strip_prefix(canonical.as_str()) {
        if !rest.chars().next().is_some_and(is_ident_char) {
            return if leading.chars().all(|c| matches!(c, ' ' | '\t' | '\n' | '\r')) {
                HeaderLayout::Canonical
            } else {
                HeaderLayout::LeadingNonTsWhitespace
            };
        }
    }
    // token-wise: kind ws+ Type ws* . ws* field
    let mut rest = body;
    let eat = |rest: &mut &str, tok: &str, need_ws_before: bool| -> bool {
        let trimmed = rest.trim_start_matches(is_compiler_ws);
        if need_ws_before && trimmed.len() == rest.len() {
            return false;
        }
        match trimmed.strip_prefix(tok) {
            Some(r) => {
                *rest = r;
                true
            }
            None => false,
        }
    };
    let ok = eat(&mut rest, lit.kind.keyword(), false)
        && eat(&mut rest, &lit.parent_type, true)
        && eat(&mut rest, ".", false)
        && eat(&mut rest, &lit.field, false)
        && !rest.chars().next().is_some_and(is_ident_char);
    if ok { HeaderLayout::NonCanonicalInside } else { HeaderLayout::NotAHeader }
}

#[derive(Clone, Debug, Default)]
pub struct C24Stats {
    pub overloads: usize,
    pub literals: usize,
    /// literals for which another declaration's pattern is a proper prefix of this
    /// declaration's pattern (the order of the overloads matters for them)
    pub prefix_related: usize,
    pub non_canonical_layout: usize,
    pub whitespace: Vec<String>,
}

/// Check one literal against the file.
pub fn check_literal(iso: &IsoFile, lit: &IsoLiteral) -> Result<(), Fail> {
    let cooked = match jsstr::cook_template_raw(&lit.literal_text) {
        Ok(c) if !c.lone_surrogates() => c.to_string_lossy(),
        other => {
            return Err(Fail::new(
                "harness-domain:literal-has-no-literal-type",
                format!("literal text {:?} is not a plain template literal: {other:?}", lit.literal_text),
            ));
        }
    };
    let expected_name = match lit.kind {
        IsoKind::Entrypoint => format!("entrypoint_{}__{}", lit.parent_type, lit.field),
        _ => format!("{}__{}__param", lit.parent_type, lit.field),
    };
    let expected_path = match lit.kind {
        IsoKind::Entrypoint => format!("{}/{}/entrypoint.ts", lit.parent_type, lit.field),
        _ => format!("{}/{}/param_type.ts", lit.parent_type, lit.field),
    };
    let describe = |o: &Overload| {
        format!(
            "overload #{} (iso.ts line {}): pattern {:?} -> {}<{}>",
            o.index, o.line, o.pattern, o.wrapper, o.return_name
        )
    };
    let own_pattern = format!("{} {}.{}", lit.kind.keyword(), lit.parent_type, lit.field);
    match select_overload(iso, &cooked) {
        None => {
            let stripped = strip_leading_whitespace(iso, &cooked);
            let has_own = iso.overloads.iter().any(|o| o.pattern == own_pattern);
            let sig = if !has_own {
                "no-overload:missing"
            } else {
                match header_layout(lit) {
                    HeaderLayout::LeadingNonTsWhitespace => "no-overload:leading-whitespace",
                    HeaderLayout::NonCanonicalInside => "no-overload:header-layout",
                    // a canonical literal whose leading space / tab / line feed was not stripped:
                    // the WhitespaceCharacter union of iso.ts has lost a member (not the open
                    // finding, which is about form feed and U+FEFF)
                    HeaderLayout::Canonical if stripped.chars().next().is_some_and(is_compiler_ws) => {
                        "no-overload:whitespace-set-incomplete"
                    }
                    _ => "no-overload:other",
                }
            };
            Err(Fail::new(
                sig,
                format!(
                    "{} {}.{}: no overload of iso matches the literal, so the call does not type-check.\n\
                     literal text: {:?}\nafter Whitespace<T> (leading {:?} stripped): {:?}\n\
                     own pattern {:?} {}",
                    lit.kind.keyword(),
                    lit.parent_type,
                    lit.field,
                    lit.literal_text,
                    iso.whitespace,
                    stripped.chars().take(80).collect::<String>(),
                    own_pattern,
                    if has_own { "exists but is not a prefix of that text" } else { "does not exist in iso.ts" },
                ),
            ))
        }
        Some(i) => {
            let o = &iso.overloads[i];
            if o.return_name != expected_name || o.returns_typeof != (lit.kind == IsoKind::Entrypoint) {
                let sig = if o.pattern != own_pattern { "wrong-overload:prefix" } else { "wrong-overload:return-type" };
                return Err(Fail::new(
                    sig,
                    format!(
                        "{} {}.{}: the first matching overload belongs to another declaration.\n\
                         literal text: {:?}\nselected {}\nexpected return type naming {}",
                        lit.kind.keyword(),
                        lit.parent_type,
                        lit.field,
                        lit.literal_text,
                        describe(o),
                        expected_name
                    ),
                ));
            }
            if let Some(p) = &o.import_path {
                if *p != expected_path {
                    // the name is right and the file is wrong: two declarations `A.b__c` / `A__b.c`
                    // share the identifier `A__b__c__param`
                    let sig = if crate::collapses_to_same_identifier(p, &expected_path) {
                        "wrong-overload:underscore-name-collision"
                    } else {
                        "wrong-overload:import-path"
                    };
                    return Err(Fail::new(
                        sig,
                        format!(
                            "{} {}.{}: selected {} whose return type is imported from {}, expected {}",
                            lit.kind.keyword(),
                            lit.parent_type,
                            lit.field,
                            describe(o),
                            p,
                            expected_path
                        ),
                    ));
                }
            }
            Ok(())
        }
    }
}

/// Statistics plus every failure (one per literal at most).
pub fn check_c24_all(set: &ArtifactSet, literals: &[IsoLiteral]) -> Result<(C24Stats, Vec<Fail>), Fail> {
    let iso = read_iso_file(set)?;
    let mut stats = C24Stats {
        overloads: iso.overloads.len(),
        literals: literals.len(),
        whitespace: iso.whitespace.clone(),
        ..Default::default()
    };
    let mut fails = vec![];
    for lit in literals {
        let own = format!("{} {}.{}", lit.kind.keyword(), lit.parent_type, lit.field);
        if iso.overloads.iter().any(|o| o.pattern != own && own.starts_with(o.pattern.as_str())) {
            stats.prefix_related += 1;
        }
        if header_layout(lit) != HeaderLayout::Canonical {
            stats.non_canonical_layout += 1;
        }
        if let Err(f) = check_literal(&iso, lit) {
            fails.push(f);
        }
    }
    Ok((stats, fails))
}

/// First failure only.
pub fn check_c24(set: &ArtifactSet, literals: &[IsoLiteral]) -> Result<C24Stats, Fail> {
    let (stats, mut fails) = check_c24_all(set, literals)?;
    if fails.is_empty() { Ok(stats) } else { Err(fails.remove(0)) }
}

/// Extract iso literals from a source text the way the compiler does
/// (`isograph_schema::…::EXTRACT_ISO_LITERAL`: ``iso(`…`)``, skipping `// `-commented ones) and read
/// kind / type / field with the compiler's token rules. Only for self-checks on the checked-in
/// projects, where no model of the program exists; generated projects pass their model instead.
pub fn extract_literals_from_source(source: &str) -> Vec<IsoLiteral> {
    let mut out = vec![];
    let bytes = source.as_bytes();
    let mut i = 0;
    while let Some(pos) = source[i..].find("iso") {
        let start = i + pos;
        i = start + 3;
        let mut j = i;
        if bytes.get(j) == Some(&b'(') {
            j += 1;
        }
        while j < bytes.len() && (bytes[j] as char).is_ascii_whitespace() {
            j += 1;
        }
        if bytes.get(j) != Some(&b'`') {
            continue;
        }
        let Some(end) = source[j + 1..].find('`') else { break };
        let text = &source[j + 1..j + 1 + end];
        i = j + 1 + end + 1;
        if text.is_empty() {
            continue;
        }
        // commented out?
        let line_start = source[..start].rfind('\n').map(|x| x + 1).unwrap_or(0);
        if source[line_start..start].contains("// ") {
            continue;
        }
        let mut toks = text
            .split(|c: char| is_compiler_ws(c) || c == '.' || c == '@' || c == '(' || c == '{')
            .filter(|s| !s.is_empty());
        let (Some(k), Some(t), Some(f)) = (toks.next(), toks.next(), toks.next()) else { continue };
        let Some(kind) = IsoKind::from_keyword(k) else { continue };
        out.push(IsoLiteral { kind, parent_type: t.to_string(), field: f.to_string(), literal_text: text.to_string() });
    }
    out
}
