//! Self-check / demo driver for `tsread` and the C13 / C24 library checks.
//!
//!   tsread_demo checked-in          the four checked-in projects of /repo (VERIF_REPO)
//!   tsread_demo hostile             tiny hand-written projects compiled in-process
//!   tsread_demo dir <__isograph>    C13 on one artifact directory
//!   tsread_demo json <__isograph>   print the module graph as JSON
//!
//! Exit 0 when every expectation holds, 1 otherwise (not a registered check: `proj` owns C13/C24).

use std::collections::BTreeMap;
use std::path::{Path, PathBuf};

use common_lang_types::CurrentWorkingDirectory;
use graphql_network_protocol::GraphQLAndJavascriptProfile;
use intern::string_key::Intern;
use isograph_compiler::CompilerState;
use tsread::raw::{CompileError, RawProject};
use tsread::c13::{C13Options, check_c13_all};
use tsread::c24::{self, IsoKind, IsoLiteral};
use tsread::{ArtifactSet, Val};

fn repo() -> PathBuf {
    PathBuf::from(std::env::var("VERIF_REPO").unwrap_or_else(|_| "/repo".into()))
}

const PROJECTS: [(&str, &str); 4] = [
    ("demos/pet-demo", "src/components"),
    ("demos/vite-demo", "src/components"),
    ("demos/github-demo", "src/isograph-components"),
    ("libs/isograph-react", "src/tests"),
];

fn main() {
    let args: Vec<String> = std::env::args().skip(1).collect();
    let mode = args.first().map(|s| s.as_str()).unwrap_or("all");
    let mut bad = 0usize;
    match mode {
        "checked-in" => bad += checked_in(),
        "hostile" => bad += hostile(),
        "regen" => bad += regen(),
        "write-replays" => write_replays(),
        "replays" => bad += run_replays(),
        "all" => {
            bad += checked_in();
            bad += hostile();
        }
        "dir" => {
            let dir = PathBuf::from(&args[1]);
            let set = ArtifactSet::from_dir(&dir).expect("read dir");
            let (stats, fails) = check_c13_all(
                &set,
                &C13Options { outside_root: dir.parent().map(|p| p.to_path_buf()), ..Default::default() },
            );
            println!("{stats:#?}");
            for f in &fails {
                println!("FAIL {}\n{}", f.signature, f.message);
            }
            bad += fails.len();
        }
        "json" => {
            let set = ArtifactSet::from_dir(Path::new(&args[1])).expect("read dir");
            println!("{}", serde_json::to_string_pretty(&set.to_json()).unwrap());
        }
        other => {
            eprintln!("unknown mode {other}");
            std::process::exit(2);
        }
    }
    if bad > 0 {
        println!("tsread_demo: {bad} unexpected result(s)");
        std::process::exit(1);
    }
    println!("tsread_demo: ok");
}

fn walk_sources(dir: &Path, out: &mut Vec<PathBuf>) {
    let Ok(rd) = std::fs::read_dir(dir) else { return };
    let mut entries: Vec<_> = rd.flatten().collect();
    entries.sort_by_key(|e| e.file_name());
    for e in entries {
        let p = e.path();
        let name = e.file_name().to_string_lossy().to_string();
        if p.is_dir() {
            if name != "node_modules" && name != "__isograph" {
                walk_sources(&p, out);
            }
        } else if [".ts", ".tsx", ".js", ".jsx"].iter().any(|x| name.ends_with(x)) {
            out.push(p);
        }
    }
}

fn checked_in() -> usize {
    let mut bad = 0;
    for (proj, root) in PROJECTS {
        let project_root = repo().join(proj).join(root);
        let dir = project_root.join("__isograph");
        let set = match ArtifactSet::from_dir(&dir) {
            Ok(s) => s,
            Err(e) => {
                println!("{proj}: cannot read {}: {e}", dir.display());
                bad += 1;
                continue;
            }
        };
        // C13
        let (stats, fails) = check_c13_all(
            &set,
            &C13Options { include_extensions: Some(false), outside_root: Some(project_root.clone()), ..Default::default() },
        );
        println!(
            "{proj}: ts={} json={} inside-imports={} (dynamic {}) outside={} (checked {}) package={} strings={} docs={} notes={}",
            stats.ts_files,
            stats.json_files,
            stats.imports_inside,
            stats.imports_dynamic,
            stats.imports_outside,
            stats.outside_checked,
            stats.imports_package,
            stats.strings_cooked,
            stats.doc_comments,
            stats.notes.len()
        );
        for n in stats.notes.iter().take(10) {
            println!("  note: {n}");
        }
        for f in &fails {
            println!("  C13 FAIL {}: {}", f.signature, f.message);
            bad += 1;
        }
        // evaluation coverage: every default export of a value artifact is fully evaluated
        let mut kinds: BTreeMap<String, (usize, usize)> = BTreeMap::new();
        for (path, m) in &set.files {
            let kind = tsread::file_kind(path);
            let e = kinds.entry(kind.clone()).or_default();
            e.0 += 1;
            match &m.default_export {
                Some(v) => {
                    let v = v.call0();
                    let full = match kind.as_str() {
                        // resolver functions are opaque by design
                        "refetch_reader.ts" | "resolver_reader.ts" => {
                            v.get("readerAst").is_some_and(|r| set.deref(r).is_fully_evaluated())
                                && v.get("kind").and_then(|k| k.as_str()).is_some()
                        }
                        _ => v.is_fully_evaluated(),
                    };
                    if full {
                        e.1 += 1;
                    } else {
                        println!("  not fully evaluated: {path}: {}", v.to_json());
                        bad += 1;
                    }
                }
                None => {
                    if m.exported_type().is_some() || path == "iso.ts" {
                        e.1 += 1;
                    } else {
                        println!("  no default export and no exported type: {path}");
                        bad += 1;
                    }
                }
            }
        }
        println!("  kinds (files, understood): {kinds:?}");
        // type artifacts: no TsTy::Other anywhere
        let mut others = 0;
        for (path, m) in &set.files {
            for t in &m.type_aliases {
                let j = t.ty.to_json().to_string();
                if j.contains("\"other\":") && path != "iso.ts" {
                    others += 1;
                    if others <= 5 {
                        println!("  type with unmodelled part: {path} {}: {}", t.name, &j[..j.len().min(300)]);
                    }
                }
            }
        }
        println!("  type aliases with unmodelled parts: {others}");
        // query texts parse with relay's parser
        let mut q = 0;
        for p in set.query_text_paths() {
            match set.query_text(p) {
                Some(text) => {
                    q += 1;
                    if let Err(e) = graphql_syntax::parse_executable(text, common::SourceLocationKey::generated()) {
                        println!("  query text of {p} rejected by relay's parser: {e:?}\n    {text}");
                        bad += 1;
                    }
                    if text.contains('\n') || text.contains('\\') {
                        println!("  query text of {p} contains a newline or backslash after cooking: {text:?}");
                    }
                }
                None => {
                    println!("  {p}: default export is not a string");
                    bad += 1;
                }
            }
        }
        // entrypoints: operation text reachable through the import graph
        let mut eps = 0;
        for p in set.paths_named("entrypoint.ts") {
            let ep = set.default_of(p).unwrap();
            let text = ep
                .get("networkRequestInfo")
                .and_then(|n| n.get("operation"))
                .and_then(|o| o.get("text"))
                .map(|t| set.deref(t));
            let norm = ep
                .get("networkRequestInfo")
                .and_then(|n| n.get("normalizationAst"))
                .map(|t| set.deref(t));
            let norm_ok = match norm {
                Some(Val::Object(_)) => norm.unwrap().get("selections").is_some() || norm.unwrap().get("loader").is_some(),
                _ => false,
            };
            if !matches!(text, Some(Val::Str(_))) || !norm_ok {
                println!("  {p}: operation text / normalization AST not reachable: {:?}", ep.to_json());
                bad += 1;
            }
            eps += 1;
        }
        println!("  query texts parsed by relay: {q}; entrypoints linked: {eps}");
        // C24 on the literals found in the sources
        let mut sources = vec![];
        walk_sources(&project_root, &mut sources);
        let mut literals = vec![];
        for s in &sources {
            let text = std::fs::read_to_string(s).unwrap_or_default();
            literals.extend(c24::extract_literals_from_source(&text));
        }
        match c24::check_c24_all(&set, &literals) {
            Ok((st, fails)) => {
                println!(
                    "  C24: overloads={} literals={} prefix-related={} non-canonical={} whitespace={:?}",
                    st.overloads, st.literals, st.prefix_related, st.non_canonical_layout, st.whitespace
                );
                for f in fails {
                    println!("  C24 FAIL {}: {}", f.signature, f.message);
                    bad += 1;
                }
                // every overload is used by some literal (the checked-in artifacts are current)
                let iso = c24::read_iso_file(&set).unwrap();
                for o in &iso.overloads {
                    if !literals.iter().any(|l| format!("{} {}.{}", l.kind.keyword(), l.parent_type, l.field) == o.pattern) {
                        println!("  note: overload {:?} has no literal in the sources", o.pattern);
                    }
                }
            }
            Err(f) => {
                println!("  C24 cannot run: {} {}", f.signature, f.message);
                bad += 1;
            }
        }
    }
    bad
}

// ------------------------------------------------------------------------------------------------
// hostile mini projects

struct Mini {
    name: &'static str,
    schema: String,
    /// (relative path under src/, content)
    sources: Vec<(String, String)>,
    options: serde_json::Value,
}

fn scratch() -> PathBuf {
    let base = if Path::new("/dev/shm").is_dir() { PathBuf::from("/dev/shm") } else { std::env::temp_dir() };
    let p = base.join(format!("tsread-demo-{}", std::process::id()));
    std::fs::create_dir_all(&p).unwrap();
    p
}

fn raw_of(m: &Mini) -> RawProject {
    RawProject {
        schema: m.schema.clone(),
        sources: m.sources.iter().cloned().collect(),
        options: m.options.clone(),
        ..Default::default()
    }
}

fn compile_mini(root: &Path, m: &Mini) -> Result<(ArtifactSet, PathBuf), String> {
    match tsread::raw::compile(&raw_of(m), root) {
        Ok(c) => Ok((c.set, c.project_root)),
        Err(CompileError::Rejected(d)) => Err(format!("diagnostics: {d}")),
        Err(CompileError::Panic(p)) => Err(format!("panic: {p}")),
    }
}

const BASE_SCHEMA: &str = r#"
type Query {
  me: User
  node(id: ID!): Node
  search(text: String, limit: Int): [User!]!
}
interface Node { id: ID! }
type User implements Node {
  id: ID!
  "DESC"
  name: String
  friend(nick: String): User
}
"#;

fn mini(name: &'static str, desc: &str, sources: Vec<(&str, String)>, options: serde_json::Value) -> Mini {
    Mini {
        name,
        schema: BASE_SCHEMA.replace("\"DESC\"", desc),
        sources: sources.into_iter().map(|(p, c)| (p.to_string(), c)).collect(),
        options,
    }
}

fn basic_sources(arg: &str) -> Vec<(&'static str, String)> {
    vec![
        (
            "a.ts",
            format!(
                "import {{ iso }} from './__isograph/iso';\n\
                 export const Foo = iso(`\n  field User.Foo {{\n    name\n    friend(nick: {arg}) {{\n      name\n    }}\n  }}\n`)(() => 1);\n\
                 export const FooBar = iso(`\n  field User.FooBar @component {{\n    name\n  }}\n`)(() => 1);\n\
                 export const Home = iso(`\n  field Query.Home {{\n    me {{\n      Foo\n      FooBar\n    }}\n  }}\n`)(() => 1);\n\
                 export const Ho = iso(`field Query.Ho {{ me {{ name, }}, }}`)(() => 1);\n"
            ),
        ),
        ("b.ts", "import { iso } from './__isograph/iso';\niso(`\n  entrypoint Query.Home\n`);\niso(`entrypoint Query.Ho`);\n".to_string()),
    ]
}

fn literals_of(m: &Mini) -> Vec<IsoLiteral> {
    m.sources.iter().flat_map(|(_, c)| c24::extract_literals_from_source(c)).collect()
}

fn hostile() -> usize {
    let root = scratch();
    let mut bad = 0;
    // (mini, expected C13 signatures, expected C24 signatures)
    let cases = first_cases();
    let mut cases = cases;
    cases.extend(more_cases());
    run_cases(&root, cases, &mut bad);
    let _ = std::fs::remove_dir_all(&root);
    bad
}

fn first_cases() -> Vec<(Mini, Vec<&'static str>, Vec<&'static str>)> {
    vec![
        (mini("plain", "\"plain\"", basic_sources("\"x\""), serde_json::json!({})), vec![], vec![]),
        (
            mini("ext", "\"plain\"", basic_sources("\"x\""), serde_json::json!({"include_file_extensions_in_import_statements": true})),
            vec![],
            vec![],
        ),
        (
            mini("desc-comment-end", "\"ends */ here\"", basic_sources("\"x\""), serde_json::json!({})),
            vec![],
            vec![],
        ),
        (
            mini("desc-block", "\"\"\"\n  multi\n  `tick` 'q' \\\\ back\n  \"\"\"", basic_sources("\"x\""), serde_json::json!({})),
            vec![],
            vec![],
        ),
        (mini("arg-apostrophe", "\"plain\"", basic_sources("\"O'Brien\""), serde_json::json!({})), vec![], vec![]),
        (mini("arg-escaped-quote", "\"plain\"", basic_sources("\"a\\\"b\""), serde_json::json!({})), vec![], vec![]),
        (mini("arg-backslash", "\"plain\"", basic_sources("\"a\\\\b\""), serde_json::json!({})), vec![], vec![]),
        (mini("arg-newline-escape", "\"plain\"", basic_sources("\"a\\nb\""), serde_json::json!({})), vec![], vec![]),
        (
            mini("header", "\"plain\"", basic_sources("\"x\""), serde_json::json!({"generated_file_header": "generated, do not edit"})),
            vec![],
            vec![],
        ),
        (
            mini(
                "header-persisted",
                "\"plain\"",
                basic_sources("\"x\""),
                serde_json::json!({"generated_file_header": "generated", "persisted_documents": {"algorithm": "md5"}}),
            ),
            vec![],
            vec![],
        ),
        (
            mini("header-ls", "\"plain\"", basic_sources("\"x\""), serde_json::json!({"generated_file_header": "a\u{2028}b c"})),
            vec![],
            vec![],
        ),
        (
            mini("no-babel", "\"plain\"", basic_sources("\"x\""), serde_json::json!({"no_babel_transform": true})),
            vec![],
            vec![],
        ),
        (
            mini(
                "persisted-extra",
                "\"plain\"",
                basic_sources("\"x\""),
                serde_json::json!({"persisted_documents": {"algorithm": "sha256", "include_extra_info": true, "file": "docs.json"}}),
            ),
            vec![],
            vec![],
        ),
    ]
}

fn run_cases(root: &Path, cases: Vec<(Mini, Vec<&'static str>, Vec<&'static str>)>, bad_out: &mut usize) {
    let mut bad = 0;
    for (m, want13, want24) in cases {
        match compile_mini(root, &m) {
            Err(e) if ["header-ls", "header-cr"].contains(&m.name) && e.contains("generated_file_header") => {
                println!("{}: rejected by the configuration reader, as it must be: {}", m.name, e.lines().next().unwrap_or(""));
            }
            Err(e) => {
                println!("{}: did not compile: {}", m.name, e.lines().take(12).collect::<Vec<_>>().join("\n    "));
                bad += 1;
            }
            Ok((set, src_root)) => {
                let ext = m.options.get("include_file_extensions_in_import_statements").and_then(|v| v.as_bool()).unwrap_or(false);
                let header = m.options.get("generated_file_header").and_then(|v| v.as_str()).map(|s| s.to_string());
                let (stats, fails) = check_c13_all(
                    &set,
                    &C13Options { include_extensions: Some(ext), outside_root: Some(src_root), generated_file_header: header },
                );
                let mut got13: Vec<String> = fails.iter().map(|f| f.signature.clone()).collect();
                got13.sort();
                got13.dedup();
                println!(
                    "{}: files ts={} json={} other={} inside={} dyn={} outside={} -> C13 {:?}",
                    m.name, stats.ts_files, stats.json_files, stats.other_files, stats.imports_inside, stats.imports_dynamic,
                    stats.imports_outside, got13
                );
                for n in stats.notes.iter().take(5) {
                    println!("    note: {n}");
                }
                for f in &fails {
                    println!("    {}: {}", f.signature, f.message.lines().take(9).collect::<Vec<_>>().join("\n      "));
                }
                let want: Vec<String> = want13.iter().map(|s| s.to_string()).collect();
                if got13 != want {
                    println!("    UNEXPECTED C13 result, wanted {want:?}");
                    bad += 1;
                }
                let lits = literals_of(&m);
                // the fixes must also be right, not only quiet: query texts are GraphQL after
                // cooking, and the no_babel case labels evaluate to the literal texts
                if got13.is_empty() {
                    for p in set.query_text_paths() {
                        let text = set.query_text(p).unwrap_or("");
                        if let Err(e) = graphql_syntax::parse_executable(text, common::SourceLocationKey::generated()) {
                            println!("    cooked query text of {p} rejected by relay's parser: {e:?}\n      {text}");
                            bad += 1;
                        }
                    }
                    if m.name == "no-babel" {
                        let iso = &set.files["iso.ts"].source;
                        let labels: Vec<String> = iso
                            .lines()
                            .filter_map(|l| l.strip_prefix("    case ").and_then(|r| r.strip_suffix(':')))
                            .map(|lit| tsread::jsstr::cook_string_literal(lit).expect("case label").to_string_lossy())
                            .collect();
                        for l in lits.iter().filter(|l| l.kind == IsoKind::Entrypoint) {
                            let runtime_value = tsread::jsstr::cook_template_raw(&l.literal_text).unwrap().to_string_lossy();
                            if !labels.contains(&runtime_value) {
                                println!("    no case label of iso.ts evaluates to the literal {:?}: {labels:?}", l.literal_text);
                                bad += 1;
                            }
                        }
                        println!("    no_babel case labels: {labels:?}");
                    }
                }
                match c24::check_c24_all(&set, &lits) {
                    Ok((st, fails)) => {
                        let mut got: Vec<String> = fails.iter().map(|f| f.signature.clone()).collect();
                        got.sort();
                        got.dedup();
                        println!(
                            "    C24 overloads={} literals={} prefix-related={} -> {:?}",
                            st.overloads, st.literals, st.prefix_related, got
                        );
                        let want: Vec<String> = want24.iter().map(|s| s.to_string()).collect();
                        if got != want {
                            for f in &fails {
                                println!("    {}: {}", f.signature, f.message);
                            }
                            println!("    UNEXPECTED C24 result, wanted {want:?}");
                            bad += 1;
                        }
                    }
                    Err(f) => {
                        println!("    C24 cannot run: {} {}", f.signature, f.message.lines().next().unwrap_or(""));
                        if !want13.iter().any(|s| s.starts_with("ts-syntax")) {
                            bad += 1;
                        }
                    }
                }
            }
        }
    }
    *bad_out += bad;
}

fn src(files: Vec<(&'static str, &str)>) -> Vec<(&'static str, String)> {
    files.into_iter().map(|(p, c)| (p, c.to_string())).collect()
}

fn more_cases() -> Vec<(Mini, Vec<&'static str>, Vec<&'static str>)> {
    let loadable = r#"import { iso } from './__isograph/iso';
export const Foo = iso(`
  field User.Foo($x: String = "d") @component {
    name
    friend(nick: $x) {
      name
    }
  }
`)(() => 1);
export const Bar = iso(`
  field User.Bar {
    name
  }
`)(() => 1);
export const Home = iso(`
  field Query.Home {
    me {
      Foo @loadable(lazyLoadArtifact: true)
      Bar @loadable
      __refetch
    }
  }
`)(() => 1);
iso(`entrypoint Query.Home @lazyLoad`);
"#;
    let pointer = r#"import { iso } from './__isograph/iso';
export const best = iso(`
  pointer User.best to User {
    friend {
      __link
    }
  }
`)(({ data }) => data.friend?.__link);
export const Home = iso(`
  field Query.Home {
    me {
      name @updatable
      best {
        name
      }
    }
  }
`)(() => 1);
iso(`entrypoint Query.Home`);
"#;
    let default_apostrophe = r#"import { iso } from './__isograph/iso';
export const Home = iso(`
  field Query.Home($q: String = "it's") {
    search(text: $q) {
      name
    }
  }
`)(() => 1);
iso(`entrypoint Query.Home`);
"#;
    let layouts = "import { iso } from './__isograph/iso';\n\
export const A = iso(`field  User.A { name, }`)(() => 1);\n\
export const B = iso(`field\tUser.B { name, }`)(() => 1);\n\
export const C = iso(`field User . C { name, }`)(() => 1);\n\
export const D = iso(`field\nUser.D { name, }`)(() => 1);\n\
export const E = iso(`\r\n  field User.E { name, }`)(() => 1);\n\
export const F = iso(`\u{c}field User.F { name, }`)(() => 1);\n\
export const G = iso(`field User.G@component{ name, }`)(() => 1);\n\
export const GG = iso(`\t \n field User.GG { name, }`)(() => 1);\n\
export const H = iso(`field Query.H { me { A, B, C, D, E, F, G, GG, }, }`)(() => 1);\n\
iso(`entrypoint  Query.H`);\n";
    let client_desc = r#"import { iso } from './__isograph/iso';
export const Foo = iso(`
  field User.Foo "ends */ here, it's `quoted`" {
    name
  }
`)(() => 1);
export const Bar = iso(`
  field User.Bar @component """
    block */ description
    second 'line' \\ back
  """ {
    name
  }
`)(() => 1);
export const Home = iso(`
  field Query.Home {
    me {
      Foo
      Bar
      friend(nick: "lsLSpsPS \u0041 \/ \t $x */ //") {
        name
      }
    }
  }
`)(() => 1);
iso(`entrypoint Query.Home`);
"#
    .replace("`quoted`", "quoted")
    .replace("LS", "\u{2028}")
    .replace("PS", "\u{2029}");
    let collision_schema = r#"
type Query {
  me: User
  other: User__a
}
type User {
  id: ID!
  name: String
}
type User__a {
  id: ID!
  name: String
}
"#;
    let collision = r#"import { iso } from './__isograph/iso';
export const X = iso(`
  field User.a__b {
    name
  }
`)(() => 1);
export const Y = iso(`
  field User__a.b {
    name
  }
`)(() => 1);
export const Home = iso(`
  field Query.Home {
    me {
      a__b
    }
    other {
      b
    }
  }
`)(() => 1);
iso(`entrypoint Query.Home`);
"#;
    vec![
        (
            Mini { name: "client-description", schema: BASE_SCHEMA.into(), sources: own(vec![("a.ts", client_desc)]), options: serde_json::json!({}) },
            vec![],
            vec![],
        ),
        (
            Mini { name: "underscore-collision", schema: collision_schema.into(), sources: own(src(vec![("a.ts", collision)])), options: serde_json::json!({}) },
            // open findings: Type__field names are not injective
            vec!["duplicate-binding:underscore-name-collision"],
            vec!["wrong-overload:underscore-name-collision"],
        ),
        (
            Mini { name: "loadable", schema: BASE_SCHEMA.into(), sources: own(src(vec![("a.tsx", loadable)])), options: serde_json::json!({}) },
            vec![],
            vec![],
        ),
        (
            Mini {
                name: "loadable-ext",
                schema: BASE_SCHEMA.into(),
                sources: own(src(vec![("a.tsx", loadable)])),
                options: serde_json::json!({"include_file_extensions_in_import_statements": true}),
            },
            vec![],
            vec![],
        ),
        (
            Mini { name: "pointer-updatable", schema: BASE_SCHEMA.into(), sources: own(src(vec![("a.ts", pointer)])), options: serde_json::json!({}) },
            vec![],
            vec![],
        ),
        (
            Mini { name: "default-apostrophe", schema: BASE_SCHEMA.into(), sources: own(src(vec![("a.ts", default_apostrophe)])), options: serde_json::json!({}) },
            vec![],
            vec![],
        ),
        (
            Mini { name: "file-apostrophe", schema: BASE_SCHEMA.into(), sources: own(src(vec![("it's.ts", pointer)])), options: serde_json::json!({}) },
            vec![],
            vec![],
        ),
        (
            Mini { name: "header-cr", schema: BASE_SCHEMA.into(), sources: own(src(vec![("a.ts", pointer)])), options: serde_json::json!({"generated_file_header": "a\rb c"}) },
            vec![],
            vec![],
        ),
        (
            Mini {
                name: "persisted-txt",
                schema: BASE_SCHEMA.into(),
                sources: own(src(vec![("a.ts", pointer)])),
                options: serde_json::json!({"generated_file_header": "hdr", "persisted_documents": {"file": "docs.txt"}}),
            },
            vec![],
            vec![],
        ),
        (
            Mini { name: "layouts", schema: BASE_SCHEMA.into(), sources: own(src(vec![("a.ts", layouts)])), options: serde_json::json!({}) },
            vec![],
            // open findings: the compiler accepts these headers, the generated overloads do not
            vec!["no-overload:header-layout", "no-overload:leading-whitespace"],
        ),
    ]
}

fn own(v: Vec<(&'static str, String)>) -> Vec<(String, String)> {
    v.into_iter().map(|(p, c)| (p.to_string(), c)).collect()
}

/// Compile the four checked-in projects in memory with the working tree's compiler and compare
/// with the checked-in artifact directories (nothing is written).
fn regen() -> usize {
    let mut bad = 0;
    for (proj, root) in PROJECTS {
        let dir = repo().join(proj);
        let config_path = dir.join("isograph.config.json");
        let cwd: CurrentWorkingDirectory = dir.to_str().unwrap().intern().into();
        let result = vcore::catch_panic(|| {
            let config = isograph_config::create_config(&config_path, cwd);
            let state = CompilerState::<GraphQLAndJavascriptProfile>::new(config, cwd).map_err(|e| format!("{e}"))?;
            let (artifacts, _) = artifact_content::get_artifact_path_and_content(&state.db)
                .map_err(|d| format!("{} diagnostics", d.len()))?;
            Ok::<_, String>(tsread::artifacts_to_files(&artifacts))
        });
        let files = match result {
            Ok(Ok(f)) => f,
            other => {
                println!("{proj}: did not compile: {:?}", other.map(|r| r.map(|_| ())));
                bad += 1;
                continue;
            }
        };
        let on_disk = dir.join(root).join("__isograph");
        let mut differing = 0;
        for (path, content) in &files {
            match std::fs::read_to_string(on_disk.join(path)) {
                Ok(c) if &c == content => {}
                Ok(_) => {
                    differing += 1;
                    println!("  {proj}: {path} differs from the checked-in file");
                }
                Err(_) => {
                    differing += 1;
                    println!("  {proj}: {path} is not checked in");
                }
            }
        }
        let set = ArtifactSet::from_dir(&on_disk).unwrap();
        let generated: std::collections::BTreeSet<&String> = files.iter().map(|(p, _)| p).collect();
        for p in set.files.keys().chain(set.json.keys()) {
            if !generated.contains(p) {
                differing += 1;
                println!("  {proj}: checked-in {p} is not generated any more");
            }
        }
        println!("{proj}: {} artifacts generated in memory, {} differences to the checked-in directory", files.len(), differing);
        bad += differing;
    }
    bad
}

/// Dump the hostile mini projects as checked-in replay inputs (`raw-project` format):
/// `replays/C13/regress-*.json` for the repaired defects, `replays/C24/known-*.json` and
/// `replays/C24/regress-*.json` for the header layouts.
fn write_replays() {
    let root = vcore::verif_root().join("replays");
    let write = |prop: &str, file: &str, signature: &str, expected: &str, input: serde_json::Value| {
        let dir = root.join(prop);
        std::fs::create_dir_all(&dir).unwrap();
        let doc = serde_json::json!({
            "property": prop, "seed": 0, "tier": "quick", "kind": "raw-project",
            "signature": signature, "expected": expected, "input": input,
        });
        std::fs::write(dir.join(file), serde_json::to_string_pretty(&doc).unwrap() + "\n").unwrap();
        println!("wrote {}/{}", prop, file);
    };
    let mut all = vec![];
    all.extend(first_cases());
    all.extend(more_cases());
    let c13: [(&str, &str, &str); 8] = [
        ("desc-comment-end", "ts-syntax:comment-terminator-in-description", "regress-description-comment-terminator.json"),
        ("arg-apostrophe", "ts-syntax:unescaped-quote-in-query-text", "regress-apostrophe-in-string-argument.json"),
        ("default-apostrophe", "ts-syntax:unescaped-quote-in-query-text", "regress-apostrophe-in-default-value.json"),
        ("header-persisted", "json-syntax:generated-file-header", "regress-header-on-json.json"),
        ("no-babel", "ts-syntax:iso.ts", "regress-no-babel-multiline-entrypoint.json"),
        ("loadable-ext", "import-missing-extension:resolver_reader.ts", "regress-lazy-entrypoint-import-extension.json"),
        ("file-apostrophe", "ts-syntax:resolver_reader.ts", "regress-apostrophe-in-source-path.json"),
        ("arg-escaped-quote", "", "regress-escaped-quote-in-string-argument.json"),
    ];
    for (m, _, _) in &all {
        if let Some((_, sig, file)) = c13.iter().find(|(n, _, _)| *n == m.name) {
            write("C13", file, sig, "held (violated before the fix: commit in known_findings.json)", raw_of(m).to_json());
        }
    }
    for (m, _, _) in &all {
        if m.name == "underscore-collision" {
            write("C13", "known-underscore-name-collision.json", "duplicate-binding:underscore-name-collision", "violated (open finding)", raw_of(m).to_json());
            write("C24", "known-underscore-name-collision.json", "wrong-overload:underscore-name-collision", "violated (open finding)", raw_of(m).to_json());
        }
        if m.name == "client-description" {
            write("C13", "regress-client-field-description-and-hostile-argument.json", "", "held", raw_of(m).to_json());
        }
    }
    // C24: one literal per layout class
    let schema = BASE_SCHEMA.to_string();
    let one = |decl: &str, extra: &str| -> serde_json::Value {
        let mut p = RawProject { schema: schema.clone(), options: serde_json::json!({}), ..Default::default() };
        p.sources.insert(
            "a.ts".into(),
            format!("import {{ iso }} from './__isograph/iso';\nexport const A = iso(`{decl} {{ name, }}`)(() => 1);\n{extra}"),
        );
        p.to_json()
    };
    write("C24", "known-header-double-space.json", "no-overload:header-layout", "violated (open finding)", one("field  User.A", ""));
    write("C24", "known-header-space-around-dot.json", "no-overload:header-layout", "violated (open finding)", one("field User . A", ""));
    write("C24", "known-leading-form-feed.json", "no-overload:leading-whitespace", "violated (open finding)", one("\u{c}field User.A", ""));
    write("C24", "regress-crlf-and-glued-directive.json", "", "held", one("\r\n \t field User.A@component", ""));
    write(
        "C24",
        "regress-prefix-names.json",
        "",
        "held",
        one(
            "field User.Foo",
            "export const B = iso(`field User.FooBar { name, }`)(() => 1);\nexport const C = iso(`field User.Fo { name, }`)(() => 1);\n\
             export const D = iso(`field Query.Foo { me { Foo, FooBar, Fo, }, }`)(() => 1);\niso(`entrypoint Query.Foo`);\n",
        ),
    );
}

/// Run every checked-in `raw-project` replay of C13 and C24 through `raw::replay_*`:
/// `regress-*` must hold, `known-*` must fail with the signature recorded in the file.
fn run_replays() -> usize {
    let mut bad = 0;
    for prop in ["C13", "C24"] {
        for (name, doc) in vcore::regression_inputs(prop) {
            if doc["input"]["kind"] != "raw-project" {
                continue;
            }
            let r = if prop == "C13" { tsread::raw::replay_c13(&doc["input"]) } else { tsread::raw::replay_c24(&doc["input"]) };
            let want = doc["signature"].as_str().unwrap_or("");
            let ok = match (&r, name.starts_with("known-")) {
                (Ok(()), false) => true,
                (Err(f), true) => f.signature == want,
                _ => false,
            };
            println!(
                "{prop}/{name}: {} {}",
                match &r { Ok(()) => "held".to_string(), Err(f) => format!("FAILED {}", f.signature) },
                if ok { "(as expected)" } else { "UNEXPECTED" }
            );
            if !ok {
                if let Err(f) = &r {
                    println!("{}", f.message);
                }
                bad += 1;
            }
        }
    }
    vcore::remove_scratch();
    bad
}
