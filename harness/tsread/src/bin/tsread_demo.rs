//! Self-check / demo driver for `tsread` and the C13 / C24 library checks.
//!
//!   tsread_demo checked-in          the four checked-in projects of /repo (VERIF_REPO)
//!   tsread_demo hostile             tiny hand-written projects compiled in-process
//!   tsread_demo dir <__isograph>    C13 on one artifact directory
//!   tsread_demo json <__isograph>   print the module graph as JSON
//!
//! Exit 0 when every expectation holds, 1 otherwise (not a registered check: `proj` owns C13/C24).

use std::collections::BTreeMap;
use std::path::{Path, PathBuf};

use common_lang_types::CurrentWorkingDirectory;
use graphql_network_protocol::GraphQLAndJavascriptProfile;
use intern::string_key::Intern;
use isograph_compiler::CompilerState;
use tsread::c13::{C13Options, check_c13_all};
use tsread::c24::{self, IsoKind, IsoLiteral};
use tsread::{ArtifactSet, Val};

fn repo() -> PathBuf {
    PathBuf::from(std::env::var("VERIF_REPO").unwrap_or_else(|_| "/repo".into()))
}

const PROJECTS: [(&str, &str); 4] = [
    ("demos/pet-demo", "src/components"),
    ("demos/vite-demo", "src/components"),
    ("demos/github-demo", "src/isograph-components"),
    ("libs/isograph-react", "src/tests"),
];

fn main() {
    let args: Vec<String> = std::env::args().skip(1).collect();
    let mode = args.first().map(|s| s.as_str()).unwrap_or("all");
    let mut bad = 0usize;
    match mode {
        "checked-in" => bad += checked_in(),
        "hostile" => bad += hostile(),
        "all" => {
            bad += checked_in();
            bad += hostile();
        }
        "dir" => {
            let dir = PathBuf::from(&args[1]);
            let set = ArtifactSet::from_dir(&dir).expect("read dir");
            let (stats, fails) = check_c13_all(
                &set,
                &C13Options { outside_root: dir.parent().map(|p| p.to_path_buf()), ..Default::default() },
            );
            println!("{stats:#?}");
            for f in &fails {
                println!("FAIL {}\n{}", f.signature, f.message);
            }
            bad += fails.len();
        }
        "json" => {
            let set = ArtifactSet::from_dir(Path::new(&args[1])).expect("read dir");
            println!("{}", serde_json::to_string_pretty(&set.to_json()).unwrap());
        }
        other => {
            eprintln!("unknown mode {other}");
            std::process::exit(2);
        }
    }
    if bad > 0 {
        println!("tsread_demo: {bad} unexpected result(s)");
        std::process::exit(1);
    }
    println!("tsread_demo: ok");
}

fn walk_sources(dir: &Path, out: &mut Vec<PathBuf>) {
    let Ok(rd) = std::fs::read_dir(dir) else { return };
    let mut entries: Vec<_> = rd.flatten().collect();
    entries.sort_by_key(|e| e.file_name());
    for e in entries {
        let p = e.path();
        let name = e.file_name().to_string_lossy().to_string();
        if p.is_dir() {
            if name != "node_modules" && name != "__isograph" {
                walk_sources(&p, out);
            }
        } else if [".ts", ".tsx", ".js", ".jsx"].iter().any(|x| name.ends_with(x)) {
            out.push(p);
        }
    }
}

fn checked_in() -> usize {
    let mut bad = 0;
    for (proj, root) in PROJECTS {
        let project_root = repo().join(proj).join(root);
        let dir = project_root.join("__isograph");
        let set = match ArtifactSet::from_dir(&dir) {
            Ok(s) => s,
            Err(e) => {
                println!("{proj}: cannot read {}: {e}", dir.display());
                bad += 1;
                continue;
            }
        };
        // C13
        let (stats, fails) = check_c13_all(
            &set,
            &C13Options { include_extensions: Some(false), outside_root: Some(project_root.clone()), ..Default::default() },
        );
        println!(
            "{proj}: ts={} json={} inside-imports={} (dynamic {}) outside={} (checked {}) package={} strings={} docs={} notes={}",
            stats.ts_files,
            stats.json_files,
            stats.imports_inside,
            stats.imports_dynamic,
            stats.imports_outside,
            stats.outside_checked,
            stats.imports_package,
            stats.strings_cooked,
            stats.doc_comments,
            stats.notes.len()
        );
        for n in stats.notes.iter().take(10) {
            println!("  note: {n}");
        }
        for f in &fails {
            println!("  C13 FAIL {}: {}", f.signature, f.message);
            bad += 1;
        }
        // evaluation coverage: every default export of a value artifact is fully evaluated
        let mut kinds: BTreeMap<String, (usize, usize)> = BTreeMap::new();
        for (path, m) in &set.files {
            let kind = tsread::file_kind(path);
            let e = kinds.entry(kind.clone()).or_default();
            e.0 += 1;
            match &m.default_export {
                Some(v) => {
                    let v = v.call0();
                    let full = match kind.as_str() {
                        // resolver functions are opaque by design
                        "refetch_reader.ts" | "resolver_reader.ts" => {
                            v.get("readerAst").is_some_and(|r| set.deref(r).is_fully_evaluated())
                                && v.get("kind").and_then(|k| k.as_str()).is_some()
                        }
                        _ => v.is_fully_evaluated(),
                    };
                    if full {
                        e.1 += 1;
                    } else {
                        println!("  not fully evaluated: {path}: {}", v.to_json());
                        bad += 1;
                    }
                }
                None => {
                    if m.exported_type().is_some() || path == "iso.ts" {
                        e.1 += 1;
                    } else {
                        println!("  no default export and no exported type: {path}");
                        bad += 1;
                    }
                }
            }
        }
        println!("  kinds (files, understood): {kinds:?}");
        // type artifacts: no TsTy::Other anywhere
        let mut others = 0;
        for (path, m) in &set.files {
            for t in &m.type_aliases {
                let j = t.ty.to_json().to_string();
                if j.contains("\"other\":") && path != "iso.ts" {
                    others += 1;
                    if others <= 5 {
                        println!("  type with unmodelled part: {path} {}: {}", t.name, &j[..j.len().min(300)]);
                    }
                }
            }
        }
        println!("  type aliases with unmodelled parts: {others}");
        // query texts parse with relay's parser
        let mut q = 0;
        for p in set.query_text_paths() {
            match set.query_text(p) {
                Some(text) => {
                    q += 1;
                    if let Err(e) = graphql_syntax::parse_executable(text, common::SourceLocationKey::generated()) {
                        println!("  query text of {p} rejected by relay's parser: {e:?}\n    {text}");
                        bad += 1;
                    }
                    if text.contains('\n') || text.contains('\\') {
                        println!("  query text of {p} contains a newline or backslash after cooking: {text:?}");
                    }
                }
                None => {
                    println!("  {p}: default export is not a string");
                    bad += 1;
                }
            }
        }
        // entrypoints: operation text reachable through the import graph
        let mut eps = 0;
        for p in set.paths_named("entrypoint.ts") {
            let ep = set.default_of(p).unwrap();
            let text = ep
                .get("networkRequestInfo")
                .and_then(|n| n.get("operation"))
                .and_then(|o| o.get("text"))
                .map(|t| set.deref(t));
            let norm = ep
                .get("networkRequestInfo")
                .and_then(|n| n.get("normalizationAst"))
                .map(|t| set.deref(t));
            let norm_ok = match norm {
                Some(Val::Object(_)) => norm.unwrap().get("selections").is_some() || norm.unwrap().get("loader").is_some(),
                _ => false,
            };
            if !matches!(text, Some(Val::Str(_))) || !norm_ok {
                println!("  {p}: operation text / normalization AST not reachable: {:?}", ep.to_json());
                bad += 1;
            }
            eps += 1;
        }
        println!("  query texts parsed by relay: {q}; entrypoints linked: {eps}");
        // C24 on the literals found in the sources
        let mut sources = vec![];
        walk_sources(&project_root, &mut sources);
        let mut literals = vec![];
        for s in &sources {
            let text = std::fs::read_to_string(s).unwrap_or_default();
            literals.extend(c24::extract_literals_from_source(&text));
        }
        match c24::check_c24_all(&set, &literals) {
            Ok((st, fails)) => {
                println!(
                    "  C24: overloads={} literals={} prefix-related={} non-canonical={} whitespace={:?}",
                    st.overloads, st.literals, st.prefix_related, st.non_canonical_layout, st.whitespace
                );
                for f in fails {
                    println!("  C24 FAIL {}: {}", f.signature, f.message);
                    bad += 1;
                }
                // every overload is used by some literal (the checked-in artifacts are current)
                let iso = c24::read_iso_file(&set).unwrap();
                for o in &iso.overloads {
                    if !literals.iter().any(|l| format!("{} {}.{}", l.kind.keyword(), l.parent_type, l.field) == o.pattern) {
                        println!("  note: overload {:?} has no literal in the sources", o.pattern);
                    }
                }
            }
            Err(f) => {
                println!("  C24 cannot run: {} {}", f.signature, f.message);
                bad += 1;
            }
        }
    }
    bad
}

// ------------------------------------------------------------------------------------------------
// hostile mini projects

struct Mini {
    name: &'static str,
    schema: String,
    /// (relative path under src/, content)
    sources: Vec<(String, String)>,
    options: serde_json::Value,
}

fn scratch() -> PathBuf {
    let base = if Path::new("/dev/shm").is_dir() { PathBuf::from("/dev/shm") } else { std::env::temp_dir() };
    let p = base.join(format!("tsread-demo-{}", std::process::id()));
    std::fs::create_dir_all(&p).unwrap();
    p
}

fn compile_mini(root: &Path, m: &Mini) -> Result<(ArtifactSet, PathBuf), String> {
    let dir = root.join(m.name);
    let _ = std::fs::remove_dir_all(&dir);
    std::fs::create_dir_all(dir.join("src")).unwrap();
    std::fs::write(dir.join("schema.graphql"), &m.schema).unwrap();
    for (p, c) in &m.sources {
        let path = dir.join("src").join(p);
        std::fs::create_dir_all(path.parent().unwrap()).unwrap();
        std::fs::write(path, c).unwrap();
    }
    let config = serde_json::json!({
        "project_root": "./src",
        "schema": "./schema.graphql",
        "options": m.options,
    });
    let config_path = dir.join("isograph.config.json");
    std::fs::write(&config_path, serde_json::to_string_pretty(&config).unwrap()).unwrap();
    let cwd: CurrentWorkingDirectory = dir.to_str().unwrap().intern().into();
    let result = vcore::catch_panic(|| {
        let config = isograph_config::create_config(&config_path, cwd);
        let state = CompilerState::<GraphQLAndJavascriptProfile>::new(config, cwd).map_err(|e| format!("{e}"))?;
        let (artifacts, _stats) = artifact_content::get_artifact_path_and_content(&state.db).map_err(|diags| {
            diags
                .iter()
                .map(|d| d.printable(state.db.print_location_fn(false)).to_string())
                .collect::<Vec<_>>()
                .join("\n")
        })?;
        Ok::<_, String>(ArtifactSet::from_artifacts(&artifacts))
    });
    match result {
        Ok(Ok(set)) => Ok((set, dir.join("src"))),
        Ok(Err(e)) => Err(format!("diagnostics: {e}")),
        Err(p) => Err(format!("panic: {p}")),
    }
}

const BASE_SCHEMA: &str = r#"
type Query {
  me: User
  node(id: ID!): Node
  search(text: String, limit: Int): [User!]!
}
interface Node { id: ID! }
type User implements Node {
  id: ID!
  "DESC"
  name: String
  friend(nick: String): User
}
"#;

fn mini(name: &'static str, desc: &str, sources: Vec<(&str, String)>, options: serde_json::Value) -> Mini {
    Mini {
        name,
        schema: BASE_SCHEMA.replace("\"DESC\"", desc),
        sources: sources.into_iter().map(|(p, c)| (p.to_string(), c)).collect(),
        options,
    }
}

fn basic_sources(arg: &str) -> Vec<(&'static str, String)> {
    vec![
        (
            "a.ts",
            format!(
                "import {{ iso }} from './__isograph/iso';\n\
                 export const Foo = iso(`\n  field User.Foo {{\n    name\n    friend(nick: {arg}) {{ name }}\n  }}\n`)(() => 1);\n\
                 export const FooBar = iso(`\n  field User.FooBar @component {{\n    name\n  }}\n`)(() => 1);\n\
                 export const Home = iso(`\n  field Query.Home {{\n    me {{ Foo FooBar }}\n  }}\n`)(() => 1);\n\
                 export const Ho = iso(`field Query.Ho {{ me {{ name }} }}`)(() => 1);\n"
            ),
        ),
        ("b.ts", "import { iso } from './__isograph/iso';\niso(`\n  entrypoint Query.Home\n`);\niso(`entrypoint Query.Ho`);\n".to_string()),
    ]
}

fn literals_of(m: &Mini) -> Vec<IsoLiteral> {
    m.sources.iter().flat_map(|(_, c)| c24::extract_literals_from_source(c)).collect()
}

fn hostile() -> usize {
    let root = scratch();
    let mut bad = 0;
    // (mini, expected C13 signatures, expected C24 signatures)
    let cases: Vec<(Mini, Vec<&str>, Vec<&str>)> = vec![
        (mini("plain", "\"plain\"", basic_sources("\"x\""), serde_json::json!({})), vec![], vec![]),
        (
            mini("ext", "\"plain\"", basic_sources("\"x\""), serde_json::json!({"include_file_extensions_in_import_statements": true})),
            vec![],
            vec![],
        ),
        (
            mini("desc-comment-end", "\"ends */ here\"", basic_sources("\"x\""), serde_json::json!({})),
            vec![],
            vec![],
        ),
        (
            mini("desc-block", "\"\"\"\n  multi\n  `tick` 'q' \\\\ back\n  \"\"\"", basic_sources("\"x\""), serde_json::json!({})),
            vec![],
            vec![],
        ),
        (mini("arg-apostrophe", "\"plain\"", basic_sources("\"O'Brien\""), serde_json::json!({})), vec![], vec![]),
        (mini("arg-escaped-quote", "\"plain\"", basic_sources("\"a\\\\\"b\""), serde_json::json!({})), vec![], vec![]),
        (mini("arg-backslash", "\"plain\"", basic_sources("\"a\\\\\\\\b\""), serde_json::json!({})), vec![], vec![]),
        (mini("arg-newline-escape", "\"plain\"", basic_sources("\"a\\\\nb\""), serde_json::json!({})), vec![], vec![]),
        (
            mini("header", "\"plain\"", basic_sources("\"x\""), serde_json::json!({"generated_file_header": "generated, do not edit"})),
            vec![],
            vec![],
        ),
        (
            mini(
                "header-persisted",
                "\"plain\"",
                basic_sources("\"x\""),
                serde_json::json!({"generated_file_header": "generated", "persisted_documents": {"algorithm": "md5"}}),
            ),
            vec![],
            vec![],
        ),
        (
            mini("header-ls", "\"plain\"", basic_sources("\"x\""), serde_json::json!({"generated_file_header": "a\u{2028}b c"})),
            vec![],
            vec![],
        ),
        (
            mini("no-babel", "\"plain\"", basic_sources("\"x\""), serde_json::json!({"no_babel_transform": true})),
            vec![],
            vec![],
        ),
        (
            mini(
                "persisted-extra",
                "\"plain\"",
                basic_sources("\"x\""),
                serde_json::json!({"persisted_documents": {"algorithm": "sha256", "include_extra_info": true, "file": "docs.json"}}),
            ),
            vec![],
            vec![],
        ),
    ];
    for (m, want13, want24) in cases {
        match compile_mini(&root, &m) {
            Err(e) => {
                println!("{}: did not compile: {}", m.name, e.lines().take(12).collect::<Vec<_>>().join("\n    "));
                bad += 1;
            }
            Ok((set, src_root)) => {
                let ext = m.options.get("include_file_extensions_in_import_statements").and_then(|v| v.as_bool()).unwrap_or(false);
                let header = m.options.get("generated_file_header").and_then(|v| v.as_str()).map(|s| s.to_string());
                let (stats, fails) = check_c13_all(
                    &set,
                    &C13Options { include_extensions: Some(ext), outside_root: Some(src_root), generated_file_header: header },
                );
                let mut got13: Vec<String> = fails.iter().map(|f| f.signature.clone()).collect();
                got13.sort();
                got13.dedup();
                println!(
                    "{}: files ts={} json={} other={} inside={} dyn={} outside={} -> C13 {:?}",
                    m.name, stats.ts_files, stats.json_files, stats.other_files, stats.imports_inside, stats.imports_dynamic,
                    stats.imports_outside, got13
                );
                for n in stats.notes.iter().take(5) {
                    println!("    note: {n}");
                }
                for f in &fails {
                    println!("    {}: {}", f.signature, f.message.lines().take(9).collect::<Vec<_>>().join("\n      "));
                }
                let want: Vec<String> = want13.iter().map(|s| s.to_string()).collect();
                if got13 != want {
                    println!("    UNEXPECTED C13 result, wanted {want:?}");
                    bad += 1;
                }
                let lits = literals_of(&m);
                match c24::check_c24_all(&set, &lits) {
                    Ok((st, fails)) => {
                        let mut got: Vec<String> = fails.iter().map(|f| f.signature.clone()).collect();
                        got.sort();
                        got.dedup();
                        println!(
                            "    C24 overloads={} literals={} prefix-related={} -> {:?}",
                            st.overloads, st.literals, st.prefix_related, got
                        );
                        let want: Vec<String> = want24.iter().map(|s| s.to_string()).collect();
                        if got != want {
                            for f in &fails {
                                println!("    {}: {}", f.signature, f.message);
                            }
                            println!("    UNEXPECTED C24 result, wanted {want:?}");
                            bad += 1;
                        }
                    }
                    Err(f) => {
                        println!("    C24 cannot run: {} {}", f.signature, f.message.lines().next().unwrap_or(""));
                        if !want13.iter().any(|s| s.starts_with("ts-syntax")) {
                            bad += 1;
                        }
                    }
                }
            }
        }
    }
    let _ = std::fs::remove_dir_all(&root);
    let _ = IsoKind::Field;
    bad
}
