//! # tsread — generated TypeScript artifacts read as data
//!
//! ## README (for builders of C09 / C11 / C15 / C25 / C26 / C27 and the node runtime)
//!
//! ```ignore
//! // 1. build an artifact set
//! let (artifacts, _stats) = artifact_content::get_artifact_path_and_content(&state.db)?;
//! let set = tsread::ArtifactSet::from_artifacts(&artifacts);          // in memory, no disk
//! let set = tsread::ArtifactSet::from_dir(Path::new(".../__isograph"))?; // or a directory
//! let set = tsread::ArtifactSet::from_files(vec![("Query/X/query_text.ts".into(), text)]);
//!
//! // 2. look at modules; keys are artifact-relative paths with '/' ("Query/X/entrypoint.ts", "iso.ts")
//! let m = &set.files["Query/X/entrypoint.ts"];
//! assert!(m.parse_errors.is_empty());
//! let entry = m.default_export.as_ref().unwrap();           // Val::Object
//! let text_ref = entry.get("networkRequestInfo").unwrap().get("operation").unwrap().get("text").unwrap();
//! let text = set.deref(text_ref).as_str().unwrap();          // follows the import into query_text.ts:
//!                                                            // the COOKED string the JS runtime sees
//! // shortcuts
//! set.query_text("Query/X/query_text.ts");                   // Option<&str>
//! set.default_of("Query/X/resolver_reader.ts");              // reader artifacts are `() => ({…})`:
//!                                                            // Val::Function{returns}; use .call0()
//! set.deref(v).call0().get("readerAst");
//!
//! // 3. types
//! let t = set.files["Pet/X/param_type.ts"].exported_type().unwrap();   // TypeAlias{name, ty: TsTy}
//! let data = t.ty.prop("data").unwrap();                               // TsProp{name, optional, readonly, ty, doc}
//! let (inner, nullable) = data.ty.split_nullable();
//!
//! // 4. JSON for the node runtime: every module with default/named exports, import references
//! //    as {"$import": {specifier, export, target, path}}, functions as {"$function": …}
//! let json = set.to_json();
//! ```
//!
//! What is evaluated: object / array / string / number / boolean / null literals, `as const`,
//! `satisfies`, `as T`, template literals (substitutions allowed when they evaluate to primitives),
//! unary `-` `+` `!` `void`, `+` on two strings or numbers, identifiers (→ `undefined`, the
//! module-level `const` initialiser, a function declaration, or an `Val::Import` reference),
//! shorthand properties, object/array spread of evaluable values, member access on evaluated
//! objects/arrays/namespace imports, arrow functions and function expressions (`Val::Function`,
//! `returns` = the evaluated expression body or single `return`), `import('…')` (`Val::Promise` of
//! the namespace reference) and `.then(m => …)` on such a promise, calls of local zero-parameter
//! functions. Everything else is `Val::Opaque(source text)`: never guessed.
//!
//! String values are **cooked by this crate from the raw source text** following ECMA-262
//! (`jsstr`), not taken from swc (swc's value is wrong for lone surrogates); every literal is also
//! compared with swc's value and a disagreement is reported in `Module::issues`.
//!
//! Specifier resolution (`Target`): the artifact directory is called `__isograph`; a relative
//! specifier is normalised against the importing file's directory. `Target::Inside(p)` = inside
//! the artifact directory (`../__isograph/Query/X/entrypoint` from `iso.ts` is inside);
//! `Target::Outside(p)` = a path relative to the directory that contains `__isograph` (the
//! resolver source files); `Target::Package` = bare specifier. `resolved` is the file of the set
//! the specifier names (exact, or with `.ts` appended).
//!
//! JSON object keys come out sorted (serde_json without `preserve_order`); `Val::Object` itself
//! keeps source order.
//!
//! The property checks C13 (`c13::check_c13`) and C24 (`c24::check_c24`) live here as library
//! functions over an `ArtifactSet`; see their module docs. `raw` compiles hand-written projects
//! in-process and is the replay format of the checked-in C13 / C24 regression inputs
//! (`raw::replay_c13`, `raw::replay_c24`).

pub mod c13;
pub mod c24;
pub mod jsstr;
pub mod raw;
mod read;
mod value;

use std::collections::{BTreeMap, BTreeSet};
use std::path::Path;

pub use read::{read_module, resolve_specifier};
pub use value::*;

/// Name of the artifact directory (`isograph_config::ISOGRAPH_FOLDER`).
pub const ARTIFACT_DIR_NAME: &str = "__isograph";

/// A `.json` artifact (`tsconfig.json`, the persisted-documents file).
#[derive(Clone, Debug)]
pub struct JsonFile {
    pub path: String,
    pub source: String,
    /// `Err(message)` when serde_json (strict RFC 8259 JSON) rejects the file
    pub value: Result<serde_json::Value, String>,
}

/// All artifacts of one compile, keyed by artifact-relative path (`/` separators).
#[derive(Clone, Debug, Default)]
pub struct ArtifactSet {
    /// every `.ts` file
    pub files: BTreeMap<String, Module>,
    /// every `.json` file
    pub json: BTreeMap<String, JsonFile>,
    /// any other file (a persisted-documents file with a custom, non-`.json` name)
    pub other: BTreeMap<String, String>,
    /// paths that occurred more than once in the input (the last content wins, as on disk)
    pub duplicate_paths: Vec<String>,
}

/// The path under the artifact directory at which the compiler writes an artifact:
/// `<file_name>` for root files, `<parent_entity_name>/<selectable_name>/<file_name>` otherwise
/// (`artifact_content::FileSystemState::{recreate_all, diff}`).
pub fn artifact_relative_path(p: &common_lang_types::ArtifactPath) -> String {
    match &p.type_and_field {
        None => p.file_name.to_string(),
        Some(tf) => format!("{}/{}/{}", tf.parent_entity_name, tf.selectable_name, p.file_name),
    }
}

/// `(relative path, content)` pairs of a compile result, in the compiler's order.
pub fn artifacts_to_files(artifacts: &[common_lang_types::ArtifactPathAndContent]) -> Vec<(String, String)> {
    artifacts
        .iter()
        .map(|a| (artifact_relative_path(&a.artifact_path), a.file_content.0.clone()))
        .collect()
}

impl ArtifactSet {
    /// From `(artifact-relative path, content)` pairs.
    pub fn from_files(files: impl IntoIterator<Item = (String, String)>) -> ArtifactSet {
        let mut contents: BTreeMap<String, String> = BTreeMap::new();
        let mut duplicate_paths = vec![];
        for (path, content) in files {
            let path = path.replace('\\', "/");
            if contents.insert(path.clone(), content).is_some() {
                duplicate_paths.push(path);
            }
        }
        let names: BTreeSet<String> = contents.keys().cloned().collect();
        let mut set = ArtifactSet { duplicate_paths, ..Default::default() };
        for (path, content) in contents {
            if path.ends_with(".ts") {
                let m = read_module(&path, &content, &names);
                set.files.insert(path, m);
            } else if path.ends_with(".json") {
                let value = serde_json::from_str::<serde_json::Value>(&content).map_err(|e| e.to_string());
                set.json.insert(path.clone(), JsonFile { path, source: content, value });
            } else {
                set.other.insert(path, content);
            }
        }
        set
    }

    /// From the compiler's in-memory result.
    pub fn from_artifacts(artifacts: &[common_lang_types::ArtifactPathAndContent]) -> ArtifactSet {
        Self::from_files(artifacts_to_files(artifacts))
    }

    /// From an artifact directory on disk (recursively; files that are not UTF-8 are read lossily).
    pub fn from_dir(dir: &Path) -> std::io::Result<ArtifactSet> {
        fn walk(base: &Path, dir: &Path, out: &mut Vec<(String, String)>) -> std::io::Result<()> {
            let mut entries: Vec<_> = std::fs::read_dir(dir)?.collect::<Result<_, _>>()?;
            entries.sort_by_key(|e| e.file_name());
            for e in entries {
                let p = e.path();
                if p.is_dir() {
                    walk(base, &p, out)?;
                } else {
                    let rel = p.strip_prefix(base).unwrap().to_string_lossy().replace('\\', "/");
                    let bytes = std::fs::read(&p)?;
                    out.push((rel, String::from_utf8_lossy(&bytes).into_owned()));
                }
            }
            Ok(())
        }
        let mut out = vec![];
        walk(dir, dir, &mut out)?;
        Ok(Self::from_files(out))
    }

    pub fn module(&self, path: &str) -> Option<&Module> {
        self.files.get(path)
    }

    /// Default export of a module of the set.
    pub fn default_of(&self, path: &str) -> Option<&Val> {
        self.files.get(path)?.default_export.as_ref()
    }

    /// The value an import reference denotes, when it points into the set and the target module
    /// has that export (one step; `Namespace` references have no single value).
    pub fn follow(&self, r: &ImportRef) -> Option<&Val> {
        let m = self.files.get(r.resolved.as_ref()?)?;
        match &r.export {
            ExportName::Default => m.default_export.as_ref(),
            ExportName::Named(n) => m.named_exports.get(n),
            ExportName::Namespace => None,
        }
    }

    /// Follow import references (transitively) as long as they resolve inside the set; any other
    /// value is returned unchanged. Cycle-safe.
    pub fn deref<'a>(&'a self, v: &'a Val) -> &'a Val {
        let mut cur = v;
        for _ in 0..64 {
            match cur {
                Val::Import(r) => match self.follow(r) {
                    Some(next) => cur = next,
                    None => return cur,
                },
                _ => return cur,
            }
        }
        cur
    }

    /// Cooked default export of a query-text artifact.
    pub fn query_text(&self, path: &str) -> Option<&str> {
        self.default_of(path)?.as_str()
    }

    /// Paths of all query-text artifacts (`query_text.ts`, `__refetch__query_text__N.ts`).
    pub fn query_text_paths(&self) -> Vec<&str> {
        self.files
            .keys()
            .filter(|p| {
                let name = p.rsplit('/').next().unwrap_or(p);
                name == "query_text.ts" || (name.starts_with("__refetch__query_text__") && name.ends_with(".ts"))
            })
            .map(|s| s.as_str())
            .collect()
    }

    /// Paths of all files named `name` (e.g. `"entrypoint.ts"`).
    pub fn paths_named(&self, name: &str) -> Vec<&str> {
        self.files
            .keys()
            .filter(|p| p.rsplit('/').next().unwrap_or(p) == name)
            .map(|s| s.as_str())
            .collect()
    }

    /// The whole module graph as JSON: `{"files": {path: Module::to_json()}, "json": {path: value|null}}`.
    pub fn to_json(&self) -> serde_json::Value {
        serde_json::json!({
            "files": self.files.iter().map(|(k, m)| (k.clone(), m.to_json())).collect::<serde_json::Map<_, _>>(),
            "json": self.json.iter().map(|(k, j)| (k.clone(), j.value.clone().unwrap_or(serde_json::Value::Null))).collect::<serde_json::Map<_, _>>(),
            "other": self.other.keys().collect::<Vec<_>>(),
        })
    }
}

/// File name with numbers replaced by `N` (`__refetch__3.ts` → `__refetch__N.ts`): the artifact
/// *kind*, used in failure signatures.
pub fn file_kind(path: &str) -> String {
    let name = path.rsplit('/').next().unwrap_or(path);
    let mut out = String::new();
    let mut in_digits = false;
    for c in name.chars() {
        if c.is_ascii_digit() {
            if !in_digits {
                out.push('N');
            }
            in_digits = true;
        } else {
            in_digits = false;
            out.push(c);
        }
    }
    out
}

/// Do two artifact paths `Type/field/file` differ only in where the `/` between type and field
/// falls, so that `Type__field` is the same identifier (`User/a__b/x` vs `User__a/b/x`)?
pub fn collapses_to_same_identifier(path_a: &str, path_b: &str) -> bool {
    fn type_field(p: &str) -> Option<String> {
        let mut parts: Vec<&str> = p.split('/').collect();
        if parts.len() != 3 {
            return None;
        }
        parts.pop();
        Some(parts.join("__"))
    }
    match (type_field(path_a), type_field(path_b)) {
        (Some(a), Some(b)) => a == b && path_a != path_b,
        _ => false,
    }
}
