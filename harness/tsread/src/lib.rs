// tsread
