//! C13 — every generated artifact is syntactically valid and the artifact set is import-closed.
//!
//! `check_c13_all(set, opts)` returns statistics and **every** failure found (so a caller can
//! tolerate listed findings and still see the others); `check_c13` returns the first one.
//!
//! What is asserted (nothing more):
//! * every `.ts` artifact parses as a TypeScript module with swc, TS syntax, tsx off, with **no**
//!   error, fatal or recovered (`Parser::take_errors()` empty);
//! * no artifact declares the same module-level *value* binding twice (an early SyntaxError of
//!   the module grammar, which swc's parser does not report);
//! * every `.json` artifact parses with serde_json;
//! * every static, type-only or dynamic import whose specifier is relative and stays inside the
//!   artifact directory names a file of the same set — exactly as written when the configuration
//!   includes file extensions in import statements, exactly or with `.ts` appended when it omits
//!   them (`C13Options::include_extensions = None` accepts both; used for checked-in directories
//!   whose configuration is not consulted);
//! * optionally (`outside_root`), every relative import leaving the artifact directory names an
//!   existing file under the directory that contains `__isograph`.
//!
//! Failure signatures name the root cause where the text shows it, the artifact kind otherwise:
//! `ts-syntax:comment-terminator-in-description`, `ts-syntax:unescaped-quote-in-query-text`,
//! `ts-syntax:line-terminator-in-string:<kind>`, `ts-syntax:generated-file-header`,
//! `ts-syntax:<kind>`, `duplicate-binding:underscore-name-collision` (declarations `A.b__c` and
//! `A__b.c` share every generated identifier), `duplicate-binding:<kind>`, `json-syntax:generated-file-header`,
//! `json-syntax:<kind>`, `import-missing-extension:<kind>`, `import-unresolved:<kind>`,
//! `import-outside-missing:<kind>`.

use std::path::PathBuf;

use vcore::Fail;

use crate::{ArtifactSet, ImportKind, Target, file_kind, jsstr};

#[derive(Clone, Debug, Default)]
pub struct C13Options {
    /// `options.include_file_extensions_in_import_statements` of the compile; `None` = unknown
    pub include_extensions: Option<bool>,
    /// The directory that contains the artifact directory; when given, imports that leave the
    /// artifact directory are checked to name an existing file (with any extension when the
    /// specifier has none).
    pub outside_root: Option<PathBuf>,
    /// `options.generated_file_header` of the compile, used only to name the root cause
    pub generated_file_header: Option<String>,
}

/// An import that leaves the artifact directory (a resolver source file).
#[derive(Clone, Debug, PartialEq)]
pub struct OutsideImport {
    pub from: String,
    pub specifier: String,
    /// path relative to the directory containing `__isograph`
    pub path: String,
    /// (local name, imported name)
    pub names: Vec<(String, String)>,
}

#[derive(Clone, Debug, Default)]
pub struct C13Stats {
    pub ts_files: usize,
    pub json_files: usize,
    pub other_files: usize,
    pub imports_inside: usize,
    pub imports_dynamic: usize,
    pub imports_package: usize,
    pub imports_outside: usize,
    pub outside_checked: usize,
    pub strings_cooked: usize,
    /// block comments in type artifacts (= copied descriptions)
    pub doc_comments: usize,
    pub outside: Vec<OutsideImport>,
    /// Observations that are not violations of C13 as stated (imported name not exported by the
    /// target artifact, duplicate type-level binding, cooker disagreement with swc, …).
    pub notes: Vec<String>,
}

pub fn check_c13(set: &ArtifactSet, opts: &C13Options) -> Result<C13Stats, Fail> {
    let (stats, mut fails) = check_c13_all(set, opts);
    if fails.is_empty() { Ok(stats) } else { Err(fails.remove(0)) }
}

pub fn check_c13_all(set: &ArtifactSet, opts: &C13Options) -> (C13Stats, Vec<Fail>) {
    let mut stats = C13Stats::default();
    let mut fails: Vec<Fail> = vec![];

    for (path, m) in &set.files {
        stats.ts_files += 1;
        stats.strings_cooked += m.strings_cooked;
        stats.doc_comments += m.source.matches("/**").count();
        if !m.parse_errors.is_empty() {
            let cause = diagnose_ts(path, &m.source, opts);
            let errs: Vec<String> = m
                .parse_errors
                .iter()
                .map(|e| {
                    format!(
                        "{}:{}:{}: {}{}",
                        path,
                        e.line,
                        e.col,
                        e.message,
                        if e.recovered { " (recovered)" } else { "" }
                    )
                })
                .collect();
            let first_line = m.parse_errors[0].line;
            fails.push(Fail::new(
                format!("ts-syntax:{cause}"),
                format!(
                    "{} does not parse as a TypeScript module\n{}\n--- source around line {} ---\n{}",
                    path,
                    errs.join("\n"),
                    first_line,
                    excerpt(&m.source, first_line)
                ),
            ));
            continue;
        }
        for issue in &m.issues {
            if issue.starts_with("duplicate-binding:") {
                // root cause, where the imports show it: two declarations `A.b__c` and `A__b.c`
                // share every generated identifier `A__b__c__…`
                let collision = m.imports.iter().enumerate().any(|(i, a)| {
                    m.imports.iter().skip(i + 1).any(|b| {
                        matches!((&a.target, &b.target), (Target::Inside(pa), Target::Inside(pb))
                            if pa != pb && crate::collapses_to_same_identifier(pa, pb))
                            && a.names.iter().any(|na| b.names.iter().any(|nb| na.local == nb.local && na.local.contains("__")))
                    })
                });
                let cause = if collision { "underscore-name-collision".to_string() } else { file_kind(path) };
                fails.push(Fail::new(
                    format!("duplicate-binding:{cause}"),
                    format!("{path}: {issue} (SyntaxError in every JS engine: duplicate module-level declaration)"),
                ));
            } else {
                stats.notes.push(format!("{path}: {issue}"));
            }
        }
        for imp in &m.imports {
            match &imp.target {
                Target::Package => stats.imports_package += 1,
                Target::Inside(p) => {
                    stats.imports_inside += 1;
                    if imp.kind == ImportKind::Dynamic {
                        stats.imports_dynamic += 1;
                    }
                    let exact = set.files.contains_key(p) || set.json.contains_key(p) || set.other.contains_key(p);
                    let with_ts = set.files.contains_key(&format!("{p}.ts"));
                    let ok = match opts.include_extensions {
                        Some(true) => exact,
                        Some(false) | None => exact || with_ts,
                    };
                    if !ok {
                        let kind = file_kind(path);
                        let (sig, why) = if with_ts {
                            (
                                format!("import-missing-extension:{kind}"),
                                "the configuration includes file extensions in import statements, but this \
                                 specifier has none (the file exists with `.ts` appended)",
                            )
                        } else {
                            (format!("import-unresolved:{kind}"), "no artifact of this compile has that path")
                        };
                        fails.push(Fail::new(
                            sig,
                            format!(
                                "{}:{}: {} import of '{}' resolves to `{}` inside the artifact directory: {}",
                                path,
                                imp.line,
                                match imp.kind {
                                    ImportKind::Static => "static",
                                    ImportKind::TypeOnly => "type-only",
                                    ImportKind::Dynamic => "dynamic",
                                },
                                imp.specifier,
                                p,
                                why
                            ),
                        ));
                    } else if let Some(target) = imp.resolved.as_ref().and_then(|r| set.files.get(r)) {
                        // informational: the imported names exist in the target artifact
                        if target.parse_errors.is_empty() {
                            for n in &imp.names {
                                let found = match &n.imported {
                                    crate::ExportName::Default => target.default_export.is_some(),
                                    crate::ExportName::Named(name) => {
                                        target.named_exports.contains_key(name)
                                            || target.type_aliases.iter().any(|t| t.exported && &t.name == name)
                                    }
                                    crate::ExportName::Namespace => true,
                                };
                                if !found {
                                    stats.notes.push(format!(
                                        "{}:{}: imports `{}` from '{}' but {} has no such export",
                                        path,
                                        imp.line,
                                        n.imported.as_str(),
                                        imp.specifier,
                                        target.path
                                    ));
                                }
                            }
                        }
                    }
                }
                Target::Outside(p) => {
                    stats.imports_outside += 1;
                    stats.outside.push(OutsideImport {
                        from: path.clone(),
                        specifier: imp.specifier.clone(),
                        path: p.clone(),
                        names: imp.names.iter().map(|n| (n.local.clone(), n.imported.as_str().to_string())).collect(),
                    });
                    if let Some(root) = &opts.outside_root {
                        stats.outside_checked += 1;
                        if !outside_exists(root, p) {
                            fails.push(Fail::new(
                                format!("import-outside-missing:{}", file_kind(path)),
                                format!(
                                    "{}:{}: import of '{}' leaves the artifact directory and names `{}` under {}, \
                                     which does not exist",
                                    path,
                                    imp.line,
                                    imp.specifier,
                                    p,
                                    root.display()
                                ),
                            ));
                        }
                    }
                }
            }
        }
    }

    for (path, j) in &set.json {
        stats.json_files += 1;
        if let Err(e) = &j.value {
            let cause = if j.source.starts_with("//") {
                "generated-file-header".to_string()
            } else {
                file_kind(path)
            };
            fails.push(Fail::new(
                format!("json-syntax:{cause}"),
                format!("{path} is not JSON: {e}\n--- first lines ---\n{}", excerpt(&j.source, 1)),
            ));
        }
    }
    stats.other_files = set.other.len();
    for d in &set.duplicate_paths {
        stats.notes.push(format!("path emitted more than once by the compile: {d}"));
    }
    (stats, fails)
}

fn outside_exists(root: &std::path::Path, rel: &str) -> bool {
    let p = root.join(rel);
    if p.is_file() {
        return true;
    }
    // extension-less specifier: any `<name>.<ext>` next to it
    let (Some(dir), Some(name)) = (p.parent(), p.file_name().and_then(|n| n.to_str())) else {
        return false;
    };
    let Ok(rd) = std::fs::read_dir(dir) else { return false };
    let prefix = format!("{name}.");
    rd.flatten().any(|e| {
        e.file_name().to_str().is_some_and(|n| n.starts_with(&prefix) && !n[prefix.len()..].contains('.'))
            && e.path().is_file()
    })
}

fn excerpt(source: &str, line: usize) -> String {
    let lo = line.saturating_sub(3);
    source
        .lines()
        .enumerate()
        .skip(lo)
        .take(6)
        .map(|(i, l)| {
            let l: String = l.chars().take(200).collect();
            format!("{:>4} | {}", i + 1, l)
        })
        .collect::<Vec<_>>()
        .join("\n")
}

/// Name the root cause of a syntax error from the text, where the text shows it.
fn diagnose_ts(path: &str, source: &str, opts: &C13Options) -> String {
    let kind = file_kind(path);
    // a header that contains a JS line terminator other than LF ends the `//` comment early
    if let Some(h) = &opts.generated_file_header {
        if h.contains(['\r', '\u{2028}', '\u{2029}']) {
            return "generated-file-header".into();
        }
    }
    // descriptions are written as "/**\n<text>\n<indent>*/\n": a `*/` inside <text>
    let mut rest = source;
    while let Some(start) = rest.find("/**\n") {
        let body = &rest[start + 4..];
        if let Some(end) = body.find("*/") {
            let line_start = body[..end].rfind('\n').map(|i| i + 1).unwrap_or(0);
            let only_indent_before = body[line_start..end].chars().all(|c| c == ' ');
            let newline_after = body[end + 2..].starts_with('\n');
            if !(only_indent_before && newline_after) {
                return "comment-terminator-in-description".into();
            }
            rest = &body[end + 2..];
        } else {
            return "comment-terminator-in-description".into();
        }
    }
    if kind == "query_text.ts" || kind == "__refetch__query_text__N.ts" {
        let body = source.lines().filter(|l| !l.starts_with("//")).collect::<Vec<_>>().join("\n");
        if let Some(lit) = body.strip_prefix("export default ").and_then(|s| s.strip_suffix(';')) {
            match jsstr::cook_string_literal(lit) {
                Err(jsstr::CookError::Unterminated { at }) => {
                    return match lit[at..].chars().next() {
                        Some('\'') => "unescaped-quote-in-query-text".into(),
                        Some('\n') | Some('\r') => format!("line-terminator-in-string:{kind}"),
                        _ => kind,
                    };
                }
                Err(_) => return format!("bad-escape-in-query-text"),
                Ok(_) => {}
            }
        }
    }
    kind
}
