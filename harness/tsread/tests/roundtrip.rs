//! Self-check of the oracle: random JSON values are printed as TypeScript in many spellings
//! (quote styles, every escape form, line continuations, template literals, `as const`,
//! indirection through consts, arrow-function wrappers) and must evaluate back to the value.

use proptest::prelude::*;
use proptest::test_runner::{Config, RngAlgorithm, RngSeed, TestRunner};
use serde_json::{Value, json};

#[derive(Clone, Debug)]
struct Spelled {
    value: Value,
    text: String,
}

fn spell_char(c: char, style: u8, quote: char) -> String {
    let cp = c as u32;
    let must_escape = c == quote
        || c == '\\'
        || c == '\n'
        || c == '\r'
        || (quote == '`' && c == '$')
        || (cp < 0x20 && quote != '`');
    let raw_ok = !must_escape;
    match style % 6 {
        0 if raw_ok => c.to_string(),
        1 if cp < 0x100 => format!("\\x{cp:02x}"),
        2 => {
            let mut buf = [0u16; 2];
            c.encode_utf16(&mut buf).iter().map(|u| format!("\\u{u:04X}")).collect()
        }
        3 => format!("\\u{{{cp:x}}}"),
        4 => match c {
            '\n' => "\\n".into(),
            '\r' => "\\r".into(),
            '\t' => "\\t".into(),
            '\u{8}' => "\\b".into(),
            '\u{b}' => "\\v".into(),
            '\u{c}' => "\\f".into(),
            '\0' => "\\x00".into(),
            '\'' | '"' | '\\' | '`' | '$' => format!("\\{c}"),
            // NonEscapeCharacter: any other non-digit, non-x/u, non-line-terminator character
            c if !c.is_ascii_digit() && !"xubfnrtv".contains(c) && !matches!(c, '\u{2028}' | '\u{2029}') => {
                format!("\\{c}")
            }
            _ => format!("\\u{{{cp:x}}}"),
        },
        _ if raw_ok => c.to_string(),
        _ => format!("\\u{{{cp:x}}}"),
    }
}

fn spell_string(s: &str, styles: &[u8], quote_sel: u8) -> String {
    let quote = ['\'', '"', '`'][(quote_sel % 3) as usize];
    let mut out = String::new();
    out.push(quote);
    for (i, c) in s.chars().enumerate() {
        let st = styles.get(i % styles.len().max(1)).copied().unwrap_or(0);
        // sprinkle line continuations
        if st % 11 == 7 {
            out.push_str("\\\n");
        }
        out.push_str(&spell_char(c, st, quote));
    }
    out.push(quote);
    out
}

fn arb_string() -> impl Strategy<Value = String> {
    let ch = prop_oneof![
        6 => proptest::char::range('a', 'z'),
        2 => Just('\''), 2 => Just('"'), 2 => Just('\\'), 1 => Just('`'), 1 => Just('$'), 1 => Just('{'),
        1 => Just('\n'), 1 => Just('\r'), 1 => Just('\t'), 1 => Just('\0'), 1 => Just('\u{2028}'), 1 => Just('\u{2029}'),
        1 => Just('é'), 1 => Just('漢'), 1 => Just('😀'), 1 => Just('*'), 1 => Just('/'), 1 => Just(' '),
        1 => proptest::char::range('\u{1}', '\u{1f}'),
    ];
    proptest::collection::vec(ch, 0..12).prop_map(|v| v.into_iter().collect())
}

fn arb_spelled() -> impl Strategy<Value = Spelled> {
    let leaf = prop_oneof![
        Just(Spelled { value: Value::Null, text: "null".into() }),
        any::<bool>().prop_map(|b| Spelled { value: json!(b), text: b.to_string() }),
        (-1000i64..1000).prop_map(|n| Spelled { value: json!(n), text: n.to_string() }),
        (0u32..100000, 1u32..4).prop_map(|(n, d)| {
            let f = n as f64 / 10f64.powi(d as i32);
            let v = if f.fract() == 0.0 { json!(f as i64) } else { json!(f) };
            Spelled { value: v, text: format!("{f:?}") }
        }),
        (arb_string(), proptest::collection::vec(any::<u8>(), 1..6), any::<u8>()).prop_map(|(s, st, q)| Spelled {
            text: spell_string(&s, &st, q),
            value: json!(s),
        }),
    ];
    leaf.prop_recursive(4, 40, 5, |inner| {
        prop_oneof![
            (proptest::collection::vec(inner.clone(), 0..5), any::<bool>()).prop_map(|(items, trailing)| {
                let mut text = String::from("[");
                for (i, it) in items.iter().enumerate() {
                    if i > 0 {
                        text.push_str(", ");
                    }
                    text.push_str(&it.text);
                }
                if trailing && !items.is_empty() {
                    text.push(',');
                }
                text.push(']');
                Spelled { value: Value::Array(items.into_iter().map(|i| i.value).collect()), text }
            }),
            (proptest::collection::vec(("[a-z]{1,4}", any::<u8>(), inner.clone()), 0..5), any::<bool>()).prop_map(
                |(props, as_const)| {
                    let mut map = serde_json::Map::new();
                    let mut text = String::from("{");
                    for (k, style, v) in props {
                        let key = match style % 3 {
                            0 => k.clone(),
                            1 => format!("\"{k}\""),
                            _ => format!("['{k}']"),
                        };
                        text.push_str(&format!(" {key}: {},\n", v.text));
                        map.insert(k, v.value);
                    }
                    text.push('}');
                    if as_const {
                        text = format!("({text} as const)");
                    }
                    Spelled { value: Value::Object(map), text }
                }
            ),
        ]
    })
}

#[test]
fn printed_values_evaluate_back() {
    let mut runner = TestRunner::new(Config {
        cases: 3000,
        failure_persistence: None,
        rng_algorithm: RngAlgorithm::ChaCha,
        rng_seed: RngSeed::Fixed(20260921),
        ..Config::default()
    });
    let strategy = (arb_spelled(), 0u8..4);
    runner
        .run(&strategy, |(sp, wrap)| {
            let source = match wrap {
                0 => format!("export default {};\n", sp.text),
                1 => format!("const v: Foo<Bar> = {};\nexport default v;\n", sp.text),
                2 => format!("const inner = {};\nconst artifact = (): T => ({{ inner, other: inner }});\nexport default artifact;\n", sp.text),
                _ => format!("// header\nimport type {{X}} from './x';\nconst a = {} satisfies X;\nexport {{ a as default }};\n", sp.text),
            };
            let set = tsread::ArtifactSet::from_files(vec![("T/f/a.ts".to_string(), source.clone())]);
            let m = &set.files["T/f/a.ts"];
            prop_assert!(m.parse_errors.is_empty(), "does not parse: {:?}\n{}", m.parse_errors, source);
            // swc 3 mis-cooks surrogate pairs written as two \uXXXX escapes (it keeps the escape
            // text); that is the one disagreement this crate's own cooker is there for
            prop_assert!(
                m.issues.iter().all(|i| !i.starts_with("cook-") || i.contains("\\\\uD")),
                "cooker disagrees with swc: {:?}\n{}",
                m.issues,
                source
            );
            let got = m.default_export.as_ref().expect("default export");
            let got = match wrap {
                2 => got.call0().get("other").expect("other").to_json(),
                _ => got.to_json(),
            };
            prop_assert_eq!(&got, &sp.value, "source:\n{}", source);
            Ok(())
        })
        .unwrap();
}

#[test]
fn specifiers_resolve_relative_to_the_artifact_directory() {
    use tsread::{Target, resolve_specifier};
    assert_eq!(resolve_specifier("Query/X/entrypoint.ts", "./query_text"), Target::Inside("Query/X/query_text".into()));
    assert_eq!(resolve_specifier("Query/X/r.ts", "../../Pet/Y/resolver_reader.ts"), Target::Inside("Pet/Y/resolver_reader.ts".into()));
    assert_eq!(resolve_specifier("iso.ts", "../__isograph/Query/X/entrypoint"), Target::Inside("Query/X/entrypoint".into()));
    assert_eq!(resolve_specifier("Query/X/r.ts", "../../../Pet/Card"), Target::Outside("Pet/Card".into()));
    assert_eq!(resolve_specifier("Query/X/r.ts", "../../../../lib/a.tsx"), Target::Outside("../lib/a.tsx".into()));
    assert_eq!(resolve_specifier("Query/X/r.ts", "@isograph/react"), Target::Package);
}
