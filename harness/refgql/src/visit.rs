//! Small traversal helpers.

use crate::ast::*;

fn value_strings(v: &mut Value, f: &mut dyn FnMut(&mut StringValue)) {
    match v {
        Value::String(s) => f(s),
        Value::List(l) => l.iter_mut().for_each(|v| value_strings(v, f)),
        Value::Object(o) => o.iter_mut().for_each(|(_, v)| value_strings(v, f)),
        _ => {}
    }
}

fn directives_strings(ds: &mut [Directive], f: &mut dyn FnMut(&mut StringValue)) {
    for d in ds {
        for a in &mut d.arguments {
            value_strings(&mut a.value, f);
        }
    }
}

fn selection_set_strings(s: &mut SelectionSet, f: &mut dyn FnMut(&mut StringValue)) {
    for sel in &mut s.items {
        match sel {
            Selection::Field(fl) => {
                for a in &mut fl.arguments {
                    value_strings(&mut a.value, f);
                }
                directives_strings(&mut fl.directives, f);
                if let Some(s) = &mut fl.selection_set {
                    selection_set_strings(s, f);
                }
            }
            Selection::FragmentSpread(fs) => directives_strings(&mut fs.directives, f),
            Selection::InlineFragment(i) => {
                directives_strings(&mut i.directives, f);
                selection_set_strings(&mut i.selection_set, f);
            }
        }
    }
}

fn input_values_strings(vs: &mut [InputValueDefinition], f: &mut dyn FnMut(&mut StringValue)) {
    for v in vs {
        if let Some(d) = &mut v.description {
            f(d);
        }
        if let Some(d) = &mut v.default_value {
            value_strings(d, f);
        }
        directives_strings(&mut v.directives, f);
    }
}

fn fields_strings(fs: &mut [FieldDefinition], f: &mut dyn FnMut(&mut StringValue)) {
    for fd in fs {
        if let Some(d) = &mut fd.description {
            f(d);
        }
        input_values_strings(&mut fd.arguments, f);
        directives_strings(&mut fd.directives, f);
    }
}

/// Visit every string literal (descriptions included) of a document, in source order per node.
pub fn for_each_string_mut(doc: &mut Document, f: &mut dyn FnMut(&mut StringValue)) {
    for d in &mut doc.definitions {
        match d {
            Definition::Operation(op) => {
                for v in &mut op.variable_definitions {
                    if let Some(d) = &mut v.default_value {
                        value_strings(d, f);
                    }
                    directives_strings(&mut v.directives, f);
                }
                directives_strings(&mut op.directives, f);
                selection_set_strings(&mut op.selection_set, f);
            }
            Definition::Fragment(fr) => {
                directives_strings(&mut fr.directives, f);
                selection_set_strings(&mut fr.selection_set, f);
            }
            Definition::TypeSystem(TypeSystemDefinition::Directive(dd)) => {
                if let Some(d) = &mut dd.description {
                    f(d);
                }
                input_values_strings(&mut dd.arguments, f);
            }
            Definition::TypeSystem(TypeSystemDefinition::Schema(s)) | Definition::Extension(TypeSystemExtension::Schema(s)) => {
                if let Some(d) = &mut s.description {
                    f(d);
                }
                directives_strings(&mut s.directives, f);
            }
            Definition::TypeSystem(TypeSystemDefinition::Scalar(s)) | Definition::Extension(TypeSystemExtension::Scalar(s)) => {
                if let Some(d) = &mut s.description {
                    f(d);
                }
                directives_strings(&mut s.directives, f);
            }
            Definition::TypeSystem(TypeSystemDefinition::Object(s)) | Definition::Extension(TypeSystemExtension::Object(s)) => {
                if let Some(d) = &mut s.description {
                    f(d);
                }
                directives_strings(&mut s.directives, f);
                fields_strings(&mut s.fields, f);
            }
            Definition::TypeSystem(TypeSystemDefinition::Interface(s))
            | Definition::Extension(TypeSystemExtension::Interface(s)) => {
                if let Some(d) = &mut s.description {
                    f(d);
                }
                directives_strings(&mut s.directives, f);
                fields_strings(&mut s.fields, f);
            }
            Definition::TypeSystem(TypeSystemDefinition::Union(s)) | Definition::Extension(TypeSystemExtension::Union(s)) => {
                if let Some(d) = &mut s.description {
                    f(d);
                }
                directives_strings(&mut s.directives, f);
            }
            Definition::TypeSystem(TypeSystemDefinition::Enum(s)) | Definition::Extension(TypeSystemExtension::Enum(s)) => {
                if let Some(d) = &mut s.description {
                    f(d);
                }
                directives_strings(&mut s.directives, f);
                for v in &mut s.values {
                    if let Some(d) = &mut v.description {
                        f(d);
                    }
                    directives_strings(&mut v.directives, f);
                }
            }
            Definition::TypeSystem(TypeSystemDefinition::InputObject(s))
            | Definition::Extension(TypeSystemExtension::InputObject(s)) => {
                if let Some(d) = &mut s.description {
                    f(d);
                }
                directives_strings(&mut s.directives, f);
                input_values_strings(&mut s.fields, f);
            }
        }
    }
}
