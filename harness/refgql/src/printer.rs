//! Canonical printer. `parse(print(doc)) == doc` for every `doc` the parser can produce, except
//! that a block string whose value cannot be written as a block string (see
//! [`block_string_printable`]) is printed as a quoted string (its `block` flag is then lost; use
//! [`normalize_block_flags`] when comparing).

use crate::ast::*;

pub fn print_document(doc: &Document) -> String {
    let mut p = Printer { out: String::new(), indent: 0 };
    for (i, d) in doc.definitions.iter().enumerate() {
        if i > 0 {
            p.out.push('\n');
        }
        p.definition(d);
        p.out.push('\n');
    }
    p.out
}

pub fn print_value(v: &Value) -> String {
    let mut p = Printer { out: String::new(), indent: 0 };
    p.value(v);
    p.out
}

/// `"…"` with the escapes of `StringCharacter`; every character that may appear literally does.
pub fn print_quoted_string(s: &str) -> String {
    let mut out = String::with_capacity(s.len() + 2);
    out.push('"');
    for c in s.chars() {
        match c {
            '"' => out.push_str("\\\""),
            '\\' => out.push_str("\\\\"),
            '\u{8}' => out.push_str("\\b"),
            '\u{c}' => out.push_str("\\f"),
            '\n' => out.push_str("\\n"),
            '\r' => out.push_str("\\r"),
            '\t' => out.push('\t'),
            c if (c as u32) < 0x20 || c == '\u{7f}' => out.push_str(&format!("\\u{:04X}", c as u32)),
            c if (c as u32) > 0xFFFF => {
                // outside the June 2018 SourceCharacter range: write as a surrogate pair of escapes
                let v = c as u32 - 0x10000;
                out.push_str(&format!("\\u{:04X}\\u{:04X}", 0xD800 + (v >> 10), 0xDC00 + (v & 0x3FF)));
            }
            c => out.push(c),
        }
    }
    out.push('"');
    out
}

/// Can `value` be produced by a block string? (No `\r`, only SourceCharacters, no blank first/last
/// line, and not every line after the first indented.)
pub fn block_string_printable(value: &str) -> bool {
    if value.is_empty() {
        return true;
    }
    if value.chars().any(|c| c == '\r' || ((c as u32) < 0x20 && c != '\t' && c != '\n') || (c as u32) > 0xFFFF) {
        return false;
    }
    let lines: Vec<&str> = value.split('\n').collect();
    let ws_only = |l: &str| l.chars().all(|c| c == ' ' || c == '\t');
    if ws_only(lines[0]) || ws_only(lines[lines.len() - 1]) {
        return false;
    }
    // all lines (the printed form starts with an empty first line) must have common indent 0
    lines.iter().any(|l| !ws_only(l) && !l.starts_with([' ', '\t']))
}

fn print_block_string(value: &str, indent: usize) -> String {
    let pad = "  ".repeat(indent);
    let mut out = String::from("\"\"\"\n");
    if !value.is_empty() {
        for line in value.replace("\"\"\"", "\\\"\"\"").split('\n') {
            if !line.is_empty() {
                out.push_str(&pad);
                out.push_str(line);
            }
            out.push('\n');
        }
    }
    out.push_str(&pad);
    out.push_str("\"\"\"");
    out
}

/// Set every `block` flag to `false` (for comparisons after printing).
pub fn normalize_block_flags(doc: &mut Document) {
    use crate::visit::for_each_string_mut;
    for_each_string_mut(doc, &mut |s| s.block = false);
}

struct Printer {
    out: String,
    indent: usize,
}

impl Printer {
    fn nl(&mut self) {
        self.out.push('\n');
        for _ in 0..self.indent {
            self.out.push_str("  ");
        }
    }
    fn string(&mut self, s: &StringValue) {
        if s.block && block_string_printable(&s.value) {
            let t = print_block_string(&s.value, self.indent);
            self.out.push_str(&t);
        } else {
            self.out.push_str(&print_quoted_string(&s.value));
        }
    }
    fn description(&mut self, d: &Option<StringValue>) {
        if let Some(d) = d {
            self.string(d);
            self.nl();
        }
    }
    fn value(&mut self, v: &Value) {
        match v {
            Value::Variable(n) => {
                self.out.push('$');
                self.out.push_str(n);
            }
            Value::Int(t) | Value::Float(t) => self.out.push_str(t),
            Value::String(s) => self.string(s),
            Value::Boolean(b) => self.out.push_str(if *b { "true" } else { "false" }),
            Value::Null => self.out.push_str("null"),
            Value::Enum(e) => self.out.push_str(e),
            Value::List(items) => {
                self.out.push('[');
                for (i, it) in items.iter().enumerate() {
                    if i > 0 {
                        self.out.push_str(", ");
                    }
                    self.value(it);
                }
                self.out.push(']');
            }
            Value::Object(fields) => {
                self.out.push('{');
                for (i, (n, v)) in fields.iter().enumerate() {
                    if i > 0 {
                        self.out.push_str(", ");
                    }
                    self.out.push_str(n);
                    self.out.push_str(": ");
                    self.value(v);
                }
                self.out.push('}');
            }
        }
    }
    fn arguments(&mut self, args: &[Argument]) {
        if args.is_empty() {
            return;
        }
        self.out.push('(');
        for (i, a) in args.iter().enumerate() {
            if i > 0 {
                self.out.push_str(", ");
            }
            self.out.push_str(&a.name);
            self.out.push_str(": ");
            self.value(&a.value);
        }
        self.out.push(')');
    }
    fn directives(&mut self, ds: &[Directive]) {
        for d in ds {
            self.out.push_str(" @");
            self.out.push_str(&d.name);
            self.arguments(&d.arguments);
        }
    }
    fn selection_set(&mut self, s: &SelectionSet) {
        self.out.push('{');
        self.indent += 1;
        for sel in &s.items {
            self.nl();
            match sel {
                Selection::Field(f) => {
                    if let Some(a) = &f.alias {
                        self.out.push_str(a);
                        self.out.push_str(": ");
                    }
                    self.out.push_str(&f.name);
                    self.arguments(&f.arguments);
                    self.directives(&f.directives);
                    if let Some(s) = &f.selection_set {
                        self.out.push(' ');
                        self.selection_set(s);
                    }
                }
                Selection::FragmentSpread(f) => {
                    self.out.push_str("...");
                    self.out.push_str(&f.name);
                    self.directives(&f.directives);
                }
                Selection::InlineFragment(f) => {
                    self.out.push_str("...");
                    if let Some(t) = &f.type_condition {
                        self.out.push_str(" on ");
                        self.out.push_str(t);
                    }
                    self.directives(&f.directives);
                    self.out.push(' ');
                    self.selection_set(&f.selection_set);
                }
            }
        }
        self.indent -= 1;
        self.nl();
        self.out.push('}');
    }

    fn definition(&mut self, d: &Definition) {
        match d {
            Definition::Operation(op) => {
                if op.shorthand {
                    self.selection_set(&op.selection_set);
                    return;
                }
                self.out.push_str(op.kind.as_str());
                if let Some(n) = &op.name {
                    self.out.push(' ');
                    self.out.push_str(n);
                }
                if !op.variable_definitions.is_empty() {
                    self.out.push('(');
                    for (i, v) in op.variable_definitions.iter().enumerate() {
                        if i > 0 {
                            self.out.push_str(", ");
                        }
                        self.out.push('$');
                        self.out.push_str(&v.name);
                        self.out.push_str(": ");
                        self.out.push_str(&v.ty.to_string());
                        if let Some(d) = &v.default_value {
                            self.out.push_str(" = ");
                            self.value(d);
                        }
                        self.directives(&v.directives);
                    }
                    self.out.push(')');
                }
                self.directives(&op.directives);
                self.out.push(' ');
                self.selection_set(&op.selection_set);
            }
            Definition::Fragment(f) => {
                self.out.push_str("fragment ");
                self.out.push_str(&f.name);
                self.out.push_str(" on ");
                self.out.push_str(&f.type_condition);
                self.directives(&f.directives);
                self.out.push(' ');
                self.selection_set(&f.selection_set);
            }
            Definition::TypeSystem(t) => match t {
                TypeSystemDefinition::Schema(s) => self.schema(s, false),
                TypeSystemDefinition::Scalar(s) => self.scalar(s, false),
                TypeSystemDefinition::Object(s) => self.object(s, false),
                TypeSystemDefinition::Interface(s) => self.interface(s, false),
                TypeSystemDefinition::Union(s) => self.union(s, false),
                TypeSystemDefinition::Enum(s) => self.enum_(s, false),
                TypeSystemDefinition::InputObject(s) => self.input(s, false),
                TypeSystemDefinition::Directive(d) => {
                    self.description(&d.description);
                    self.out.push_str("directive @");
                    self.out.push_str(&d.name);
                    self.arguments_definition(&d.arguments);
                    if d.repeatable {
                        self.out.push_str(" repeatable");
                    }
                    self.out.push_str(" on ");
                    self.out.push_str(&d.locations.join(" | "));
                }
            },
            Definition::Extension(t) => match t {
                TypeSystemExtension::Schema(s) => self.schema(s, true),
                TypeSystemExtension::Scalar(s) => self.scalar(s, true),
                TypeSystemExtension::Object(s) => self.object(s, true),
                TypeSystemExtension::Interface(s) => self.interface(s, true),
                TypeSystemExtension::Union(s) => self.union(s, true),
                TypeSystemExtension::Enum(s) => self.enum_(s, true),
                TypeSystemExtension::InputObject(s) => self.input(s, true),
            },
        }
    }

    fn head(&mut self, ext: bool, description: &Option<StringValue>, kw: &str, name: &str) {
        if ext {
            self.out.push_str("extend ");
        } else {
            self.description(description);
        }
        self.out.push_str(kw);
        if !name.is_empty() {
            self.out.push(' ');
            self.out.push_str(name);
        }
    }
    fn schema(&mut self, s: &SchemaDefinition, ext: bool) {
        self.head(ext, &s.description, "schema", "");
        self.directives(&s.directives);
        if !s.operation_types.is_empty() {
            self.out.push_str(" {");
            self.indent += 1;
            for (k, n) in &s.operation_types {
                self.nl();
                self.out.push_str(k.as_str());
                self.out.push_str(": ");
                self.out.push_str(n);
            }
            self.indent -= 1;
            self.nl();
            self.out.push('}');
        }
    }
    fn scalar(&mut self, s: &ScalarTypeDefinition, ext: bool) {
        self.head(ext, &s.description, "scalar", &s.name);
        self.directives(&s.directives);
    }
    fn implements(&mut self, interfaces: &[String]) {
        if !interfaces.is_empty() {
            self.out.push_str(" implements ");
            self.out.push_str(&interfaces.join(" & "));
        }
    }
    fn object(&mut self, s: &ObjectTypeDefinition, ext: bool) {
        self.head(ext, &s.description, "type", &s.name);
        self.implements(&s.interfaces);
        self.directives(&s.directives);
        self.fields(&s.fields);
    }
    fn interface(&mut self, s: &InterfaceTypeDefinition, ext: bool) {
        self.head(ext, &s.description, "interface", &s.name);
        self.implements(&s.interfaces);
        self.directives(&s.directives);
        self.fields(&s.fields);
    }
    fn union(&mut self, s: &UnionTypeDefinition, ext: bool) {
        self.head(ext, &s.description, "union", &s.name);
        self.directives(&s.directives);
        if !s.members.is_empty() {
            self.out.push_str(" = ");
            self.out.push_str(&s.members.join(" | "));
        }
    }
    fn enum_(&mut self, s: &EnumTypeDefinition, ext: bool) {
        self.head(ext, &s.description, "enum", &s.name);
        self.directives(&s.directives);
        if !s.values.is_empty() {
            self.out.push_str(" {");
            self.indent += 1;
            for v in &s.values {
                self.nl();
                self.description(&v.description);
                self.out.push_str(&v.name);
                self.directives(&v.directives);
            }
            self.indent -= 1;
            self.nl();
            self.out.push('}');
        }
    }
    fn input(&mut self, s: &InputObjectTypeDefinition, ext: bool) {
        self.head(ext, &s.description, "input", &s.name);
        self.directives(&s.directives);
        if !s.fields.is_empty() {
            self.out.push_str(" {");
            self.indent += 1;
            for f in &s.fields {
                self.nl();
                self.input_value(f, true);
            }
            self.indent -= 1;
            self.nl();
            self.out.push('}');
        }
    }
    fn fields(&mut self, fields: &[FieldDefinition]) {
        if fields.is_empty() {
            return;
        }
        self.out.push_str(" {");
        self.indent += 1;
        for f in fields {
            self.nl();
            self.description(&f.description);
            self.out.push_str(&f.name);
            self.arguments_definition(&f.arguments);
            self.out.push_str(": ");
            self.out.push_str(&f.ty.to_string());
            self.directives(&f.directives);
        }
        self.indent -= 1;
        self.nl();
        self.out.push('}');
    }
    fn arguments_definition(&mut self, args: &[InputValueDefinition]) {
        if args.is_empty() {
            return;
        }
        self.out.push('(');
        self.indent += 1;
        for (i, a) in args.iter().enumerate() {
            if a.description.is_some() {
                self.nl();
            } else if i > 0 {
                self.out.push_str(", ");
            }
            self.input_value(a, a.description.is_some());
        }
        self.indent -= 1;
        self.out.push(')');
    }
    fn input_value(&mut self, a: &InputValueDefinition, with_description_line: bool) {
        if with_description_line {
            self.description(&a.description);
        }
        self.out.push_str(&a.name);
        self.out.push_str(": ");
        self.out.push_str(&a.ty.to_string());
        if let Some(d) = &a.default_value {
            self.out.push_str(" = ");
            self.value(d);
        }
        self.directives(&a.directives);
    }
}
