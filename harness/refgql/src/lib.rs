// refgql
