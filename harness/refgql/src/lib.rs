//! `refgql` — an independent reference GraphQL front end, hand-written from the June 2018
//! specification (no code shared with, or derived from, relay's `graphql-syntax` or isograph's
//! `graphql_schema_parser`). It is the oracle of several checks (C09, C29, C30).
//!
//! # Parsing
//! ```
//! let doc = refgql::parse_executable("query Q($a: Int = 1) { f(x: $a, s: \"a\\u0041\") }").unwrap();
//! let sdl = refgql::parse_schema("type Query { f(x: Int, s: String): Int }").unwrap();
//! assert!(refgql::parse_executable("{ f(x: 01) }").is_err());
//! # let _ = (doc, sdl);
//! ```
//! * [`parse_document`] (any definitions), [`parse_executable`], [`parse_schema`];
//!   [`parse_with`] takes [`ParseOptions`] (`post_2018`, lexer options) and also returns
//!   [`SourceFacts`]. Errors are [`SyntaxError`]`{kind, message, pos}`.
//! * The tree is [`ast::Document`]. All nodes compare **modulo spans**. Numbers are kept as written
//!   (`Value::Int("-0")`), strings by value (`Value::String(StringValue{value, block})`).
//! * [`print_document`] is the canonical printer (`parse(print(d)) == d` up to block flags).
//!
//! # Validation
//! ```
//! let sdl = refgql::parse_schema("type Query { f(x: Int!): Int }").unwrap();
//! let schema = refgql::Schema::build(&[&sdl]).unwrap();
//! let doc = refgql::parse_executable("{ f }").unwrap();
//! let errors = refgql::validate(&schema, &doc);
//! assert_eq!(errors[0].rule, refgql::Rule::RequiredArguments);
//! ```
//! [`Schema::build`] merges any number of SDL documents (definitions and `extend …`), adds the
//! built-in scalars, `@skip`/`@include`/`@deprecated` and the introspection types.
//! [`validate`] implements section 5 of the specification; every error names its [`Rule`].
//! Directives that are not defined in the schema are reported under [`Rule::KnownDirectives`]
//! so that callers can treat them separately (see [`ValidationError::is_unknown_directive`]).

pub mod ast;
pub mod lexer;
pub mod parser;
pub mod printer;
pub mod schema;
pub mod validate;
pub mod visit;

pub use ast::*;
pub use lexer::{block_string_value, lex, LexOptions, SyntaxError, SyntaxErrorKind, Token, TokenKind};
pub use parser::{
    parse_document, parse_executable, parse_schema, parse_type, parse_value, parse_with, DocumentKind, Leniency,
    ParseOptions, SourceFacts,
};
pub use printer::{normalize_block_flags, print_document, print_quoted_string, print_value};
pub use schema::{Schema, SchemaError};
pub use validate::{validate, Rule, ValidationError};
