//! Plain AST of the June 2018 GraphQL grammar (Appendix B).
//!
//! Every node carries a [`Span`] (byte offsets into the source). `Span` compares equal to every
//! other `Span`, so the derived `PartialEq` of all AST types is "equal modulo spans"; this is what
//! round-trip and differential checks want.
//!
//! Values keep both forms: numbers keep the text *as written* (`Value::Int("-0")`,
//! `Value::Float("1.50e+3")`), strings and block strings are kept *by value* (escapes resolved,
//! `BlockStringValue()` applied) together with a `block` flag.

use std::fmt;

/// Byte range `[start, end)` in the source text. **All spans compare equal** (see module doc).
#[derive(Clone, Copy, Default, Eq)]
pub struct Span {
    pub start: u32,
    pub end: u32,
}

impl Span {
    pub fn new(start: usize, end: usize) -> Span {
        Span { start: start as u32, end: end as u32 }
    }
    pub fn to(self, other: Span) -> Span {
        Span { start: self.start, end: other.end }
    }
}
impl PartialEq for Span {
    fn eq(&self, _: &Span) -> bool {
        true
    }
}
impl std::hash::Hash for Span {
    fn hash<H: std::hash::Hasher>(&self, _: &mut H) {}
}
impl fmt::Debug for Span {
    fn fmt(&self, f: &mut fmt::Formatter<'_>) -> fmt::Result {
        write!(f, "_")
    }
}

#[derive(Clone, Debug, PartialEq, Eq, Hash)]
pub struct Document {
    pub definitions: Vec<Definition>,
}

#[derive(Clone, Debug, PartialEq, Eq, Hash)]
pub enum Definition {
    Operation(OperationDefinition),
    Fragment(FragmentDefinition),
    TypeSystem(TypeSystemDefinition),
    Extension(TypeSystemExtension),
}

impl Definition {
    pub fn is_executable(&self) -> bool {
        matches!(self, Definition::Operation(_) | Definition::Fragment(_))
    }
}

#[derive(Clone, Copy, Debug, PartialEq, Eq, Hash, PartialOrd, Ord)]
pub enum OperationKind {
    Query,
    Mutation,
    Subscription,
}

impl OperationKind {
    pub fn as_str(self) -> &'static str {
        match self {
            OperationKind::Query => "query",
            OperationKind::Mutation => "mutation",
            OperationKind::Subscription => "subscription",
        }
    }
}

#[derive(Clone, Debug, PartialEq, Eq, Hash)]
pub struct OperationDefinition {
    pub kind: OperationKind,
    /// `true` for the query shorthand `{ ... }` (then name, variables, directives are empty).
    pub shorthand: bool,
    pub name: Option<String>,
    pub variable_definitions: Vec<VariableDefinition>,
    pub directives: Vec<Directive>,
    pub selection_set: SelectionSet,
    pub span: Span,
}

#[derive(Clone, Debug, PartialEq, Eq, Hash)]
pub struct VariableDefinition {
    pub name: String,
    pub ty: Type,
    pub default_value: Option<Value>,
    /// Always empty under June 2018 (directives on variable definitions are a later addition;
    /// only parsed with [`crate::ParseOptions::post_2018`]).
    pub directives: Vec<Directive>,
    pub span: Span,
}

#[derive(Clone, Debug, PartialEq, Eq, Hash)]
pub struct SelectionSet {
    pub items: Vec<Selection>,
    pub span: Span,
}

#[derive(Clone, Debug, PartialEq, Eq, Hash)]
pub enum Selection {
    Field(Field),
    FragmentSpread(FragmentSpread),
    InlineFragment(InlineFragment),
}

#[derive(Clone, Debug, PartialEq, Eq, Hash)]
pub struct Field {
    pub alias: Option<String>,
    pub name: String,
    pub arguments: Vec<Argument>,
    pub directives: Vec<Directive>,
    pub selection_set: Option<SelectionSet>,
    pub span: Span,
}

impl Field {
    pub fn response_key(&self) -> &str {
        self.alias.as_deref().unwrap_or(&self.name)
    }
}

#[derive(Clone, Debug, PartialEq, Eq, Hash)]
pub struct Argument {
    pub name: String,
    pub value: Value,
    pub span: Span,
}

#[derive(Clone, Debug, PartialEq, Eq, Hash)]
pub struct FragmentSpread {
    pub name: String,
    pub directives: Vec<Directive>,
    pub span: Span,
}

#[derive(Clone, Debug, PartialEq, Eq, Hash)]
pub struct InlineFragment {
    pub type_condition: Option<String>,
    pub directives: Vec<Directive>,
    pub selection_set: SelectionSet,
    pub span: Span,
}

#[derive(Clone, Debug, PartialEq, Eq, Hash)]
pub struct FragmentDefinition {
    pub name: String,
    pub type_condition: String,
    pub directives: Vec<Directive>,
    pub selection_set: SelectionSet,
    pub span: Span,
}

#[derive(Clone, Debug, PartialEq, Eq, Hash)]
pub struct Directive {
    pub name: String,
    pub arguments: Vec<Argument>,
    pub span: Span,
}

#[derive(Clone, Debug, PartialEq, Eq, Hash)]
pub enum Type {
    Named(String),
    List(Box<Type>),
    NonNull(Box<Type>),
}

impl Type {
    pub fn named(n: impl Into<String>) -> Type {
        Type::Named(n.into())
    }
    pub fn list(t: Type) -> Type {
        Type::List(Box::new(t))
    }
    pub fn non_null(t: Type) -> Type {
        Type::NonNull(Box::new(t))
    }
    /// Innermost named type.
    pub fn inner_name(&self) -> &str {
        match self {
            Type::Named(n) => n,
            Type::List(t) | Type::NonNull(t) => t.inner_name(),
        }
    }
    pub fn is_non_null(&self) -> bool {
        matches!(self, Type::NonNull(_))
    }
    /// The type with one outer `!` removed (identity for nullable types).
    pub fn nullable(&self) -> &Type {
        match self {
            Type::NonNull(t) => t,
            t => t,
        }
    }
}

impl fmt::Display for Type {
    fn fmt(&self, f: &mut fmt::Formatter<'_>) -> fmt::Result {
        match self {
            Type::Named(n) => write!(f, "{n}"),
            Type::List(t) => write!(f, "[{t}]"),
            Type::NonNull(t) => write!(f, "{t}!"),
        }
    }
}

/// A string literal by value.
#[derive(Clone, Debug, PartialEq, Eq, Hash)]
pub struct StringValue {
    /// The semantic value: escapes resolved; for block strings the result of `BlockStringValue()`.
    pub value: String,
    /// Written as `"""…"""`.
    pub block: bool,
}

#[derive(Clone, Debug, PartialEq, Eq, Hash)]
pub enum Value {
    /// `$name`
    Variable(String),
    /// Text as written, e.g. `-0`, `123`.
    Int(String),
    /// Text as written, e.g. `1.0`, `-1e10`, `6.02E+23`.
    Float(String),
    String(StringValue),
    Boolean(bool),
    Null,
    Enum(String),
    List(Vec<Value>),
    /// Fields in source order (duplicates are a validation matter, not a syntax matter).
    Object(Vec<(String, Value)>),
}

impl Value {
    pub fn string(v: impl Into<String>) -> Value {
        Value::String(StringValue { value: v.into(), block: false })
    }
    pub fn contains_variable(&self) -> bool {
        match self {
            Value::Variable(_) => true,
            Value::List(l) => l.iter().any(|v| v.contains_variable()),
            Value::Object(o) => o.iter().any(|(_, v)| v.contains_variable()),
            _ => false,
        }
    }
}

// ---------------------------------------------------------------------------------------------
// Type system
// ---------------------------------------------------------------------------------------------

#[derive(Clone, Debug, PartialEq, Eq, Hash)]
pub enum TypeSystemDefinition {
    Schema(SchemaDefinition),
    Scalar(ScalarTypeDefinition),
    Object(ObjectTypeDefinition),
    Interface(InterfaceTypeDefinition),
    Union(UnionTypeDefinition),
    Enum(EnumTypeDefinition),
    InputObject(InputObjectTypeDefinition),
    Directive(DirectiveDefinition),
}

/// `extend …`. The payload structs are shared with the definitions; `description` is always
/// `None` (extensions cannot carry descriptions).
#[derive(Clone, Debug, PartialEq, Eq, Hash)]
pub enum TypeSystemExtension {
    Schema(SchemaDefinition),
    Scalar(ScalarTypeDefinition),
    Object(ObjectTypeDefinition),
    Interface(InterfaceTypeDefinition),
    Union(UnionTypeDefinition),
    Enum(EnumTypeDefinition),
    InputObject(InputObjectTypeDefinition),
}

#[derive(Clone, Debug, PartialEq, Eq, Hash)]
pub struct SchemaDefinition {
    /// Always `None` under June 2018 (only parsed with `post_2018`).
    pub description: Option<StringValue>,
    pub directives: Vec<Directive>,
    pub operation_types: Vec<(OperationKind, String)>,
    pub span: Span,
}

#[derive(Clone, Debug, PartialEq, Eq, Hash)]
pub struct ScalarTypeDefinition {
    pub description: Option<StringValue>,
    pub name: String,
    pub directives: Vec<Directive>,
    pub span: Span,
}

#[derive(Clone, Debug, PartialEq, Eq, Hash)]
pub struct ObjectTypeDefinition {
    pub description: Option<StringValue>,
    pub name: String,
    pub interfaces: Vec<String>,
    pub directives: Vec<Directive>,
    pub fields: Vec<FieldDefinition>,
    pub span: Span,
}

#[derive(Clone, Debug, PartialEq, Eq, Hash)]
pub struct FieldDefinition {
    pub description: Option<StringValue>,
    pub name: String,
    pub arguments: Vec<InputValueDefinition>,
    pub ty: Type,
    pub directives: Vec<Directive>,
    pub span: Span,
}

#[derive(Clone, Debug, PartialEq, Eq, Hash)]
pub struct InputValueDefinition {
    pub description: Option<StringValue>,
    pub name: String,
    pub ty: Type,
    pub default_value: Option<Value>,
    pub directives: Vec<Directive>,
    pub span: Span,
}

#[derive(Clone, Debug, PartialEq, Eq, Hash)]
pub struct InterfaceTypeDefinition {
    pub description: Option<StringValue>,
    pub name: String,
    /// Always empty under June 2018 (interfaces implementing interfaces: `post_2018` only).
    pub interfaces: Vec<String>,
    pub directives: Vec<Directive>,
    pub fields: Vec<FieldDefinition>,
    pub span: Span,
}

#[derive(Clone, Debug, PartialEq, Eq, Hash)]
pub struct UnionTypeDefinition {
    pub description: Option<StringValue>,
    pub name: String,
    pub directives: Vec<Directive>,
    pub members: Vec<String>,
    pub span: Span,
}

#[derive(Clone, Debug, PartialEq, Eq, Hash)]
pub struct EnumTypeDefinition {
    pub description: Option<StringValue>,
    pub name: String,
    pub directives: Vec<Directive>,
    pub values: Vec<EnumValueDefinition>,
    pub span: Span,
}

#[derive(Clone, Debug, PartialEq, Eq, Hash)]
pub struct EnumValueDefinition {
    pub description: Option<StringValue>,
    pub name: String,
    pub directives: Vec<Directive>,
    pub span: Span,
}

#[derive(Clone, Debug, PartialEq, Eq, Hash)]
pub struct InputObjectTypeDefinition {
    pub description: Option<StringValue>,
    pub name: String,
    pub directives: Vec<Directive>,
    pub fields: Vec<InputValueDefinition>,
    pub span: Span,
}

#[derive(Clone, Debug, PartialEq, Eq, Hash)]
pub struct DirectiveDefinition {
    pub description: Option<StringValue>,
    pub name: String,
    pub arguments: Vec<InputValueDefinition>,
    /// Always `false` under June 2018 (`repeatable`: `post_2018` only).
    pub repeatable: bool,
    /// Directive location names in source order.
    pub locations: Vec<String>,
    pub span: Span,
}

/// `ExecutableDirectiveLocation` of June 2018.
pub const EXECUTABLE_DIRECTIVE_LOCATIONS: &[&str] = &[
    "QUERY",
    "MUTATION",
    "SUBSCRIPTION",
    "FIELD",
    "FRAGMENT_DEFINITION",
    "FRAGMENT_SPREAD",
    "INLINE_FRAGMENT",
];

/// `TypeSystemDirectiveLocation` of June 2018.
pub const TYPE_SYSTEM_DIRECTIVE_LOCATIONS: &[&str] = &[
    "SCHEMA",
    "SCALAR",
    "OBJECT",
    "FIELD_DEFINITION",
    "ARGUMENT_DEFINITION",
    "INTERFACE",
    "UNION",
    "ENUM",
    "ENUM_VALUE",
    "INPUT_OBJECT",
    "INPUT_FIELD_DEFINITION",
];

/// Added after June 2018 (accepted only with `post_2018`).
pub const POST_2018_DIRECTIVE_LOCATIONS: &[&str] = &["VARIABLE_DEFINITION"];
