//! Lexer: a transcription of section 2.1 ("Source Text") of the June 2018 specification.
//!
//! ```text
//! SourceCharacter :: /[\u0009\u000A\u000D -￿]/
//! Ignored         :: UnicodeBOM | WhiteSpace | LineTerminator | Comment | Comma
//! Token           :: Punctuator | Name | IntValue | FloatValue | StringValue
//! Punctuator      :: one of  ! $ & ( ) ... : = @ [ ] { | }
//! ```
//!
//! Two places where editions of the specification differ are options of [`LexOptions`]:
//! * `number_lookahead`: a number must not be followed directly by a digit, `.` or a NameStart
//!   character (explicit `[lookahead != …]` since the October 2021 edition; the June 2018 reference
//!   implementation already behaved so; the June 2018 *text* alone would lex `0xF1` as `0` `xF1`).
//!   Default: on. Checks that want to stay strictly inside June 2018 should treat inputs whose
//!   acceptance depends on this option as edition-ambiguous.
//! * `allow_astral`: characters above U+FFFF in strings and comments (June 2018 restricts
//!   SourceCharacter to the BMP, which in a UTF-16 implementation admits surrogate pairs).
//!   Default: on; [`Lexed::saw_astral`] tells whether one occurred.

use crate::ast::Span;

#[derive(Clone, Copy, Debug, PartialEq, Eq, Hash)]
pub enum TokenKind {
    Bang,
    Dollar,
    Amp,
    LParen,
    RParen,
    Spread,
    Colon,
    Equals,
    At,
    LBracket,
    RBracket,
    LBrace,
    RBrace,
    Pipe,
    Name,
    Int,
    Float,
    /// `"…"`
    String,
    /// `"""…"""`
    BlockString,
    Eof,
}

impl TokenKind {
    pub fn describe(self) -> &'static str {
        match self {
            TokenKind::Bang => "'!'",
            TokenKind::Dollar => "'$'",
            TokenKind::Amp => "'&'",
            TokenKind::LParen => "'('",
            TokenKind::RParen => "')'",
            TokenKind::Spread => "'...'",
            TokenKind::Colon => "':'",
            TokenKind::Equals => "'='",
            TokenKind::At => "'@'",
            TokenKind::LBracket => "'['",
            TokenKind::RBracket => "']'",
            TokenKind::LBrace => "'{'",
            TokenKind::RBrace => "'}'",
            TokenKind::Pipe => "'|'",
            TokenKind::Name => "Name",
            TokenKind::Int => "IntValue",
            TokenKind::Float => "FloatValue",
            TokenKind::String => "StringValue",
            TokenKind::BlockString => "BlockStringValue",
            TokenKind::Eof => "<EOF>",
        }
    }
}

#[derive(Clone, Debug, PartialEq, Eq)]
pub struct Token {
    pub kind: TokenKind,
    pub span: Span,
    /// For `String` / `BlockString`: the semantic value. `None` otherwise (slice the source).
    pub value: Option<String>,
}

#[derive(Clone, Copy, Debug, PartialEq, Eq, Hash)]
pub enum SyntaxErrorKind {
    /// A character outside SourceCharacter, or one that starts no token.
    InvalidCharacter,
    InvalidNumber,
    UnterminatedString,
    InvalidEscape,
    /// A lone surrogate `\uD800`–`\uDFFF` escape that has no representation as a Rust `String`.
    LoneSurrogate,
    /// Parser level.
    UnexpectedToken,
    /// Parser level: a construct that only later editions of the spec allow.
    Post2018Syntax,
    /// `parse_executable` met a type-system definition or vice versa.
    WrongDefinitionKind,
    /// Nesting deeper than [`crate::ParseOptions::max_depth`].
    TooDeep,
}

#[derive(Clone, Debug, PartialEq, Eq)]
pub struct SyntaxError {
    pub kind: SyntaxErrorKind,
    pub message: String,
    /// Byte offset.
    pub pos: usize,
}

impl std::fmt::Display for SyntaxError {
    fn fmt(&self, f: &mut std::fmt::Formatter<'_>) -> std::fmt::Result {
        write!(f, "syntax error at byte {}: {} ({:?})", self.pos, self.message, self.kind)
    }
}
impl std::error::Error for SyntaxError {}

#[derive(Clone, Copy, Debug, PartialEq, Eq)]
pub struct LexOptions {
    pub number_lookahead: bool,
    pub allow_astral: bool,
}

impl Default for LexOptions {
    fn default() -> Self {
        LexOptions { number_lookahead: true, allow_astral: true }
    }
}

#[derive(Clone, Debug)]
pub struct Lexed {
    /// All tokens, terminated by one `Eof` token.
    pub tokens: Vec<Token>,
    pub saw_astral: bool,
    /// A `\uD800`-`\uDBFF` escape directly followed by a `\uDC00`-`\uDFFF` escape was combined into
    /// one astral character.
    pub saw_surrogate_pair_escape: bool,
}

pub fn is_name_start(c: char) -> bool {
    c == '_' || c.is_ascii_alphabetic()
}
pub fn is_name_continue(c: char) -> bool {
    c == '_' || c.is_ascii_alphanumeric()
}
/// `WhiteSpace :: U+0009 | U+0020`
pub fn is_white_space(c: char) -> bool {
    c == '\t' || c == ' '
}

fn is_source_character(c: char, allow_astral: bool) -> bool {
    match c {
        '\t' | '\n' | '\r' => true,
        '\u{20}'..='\u{FFFF}' => true,
        _ => allow_astral && c > '\u{FFFF}',
    }
}

struct Lexer<'a> {
    src: &'a str,
    pos: usize,
    opts: LexOptions,
    saw_astral: bool,
    saw_pair: bool,
}

pub fn lex(src: &str, opts: LexOptions) -> Result<Lexed, SyntaxError> {
    let mut lx = Lexer { src, pos: 0, opts, saw_astral: false, saw_pair: false };
    let mut tokens = vec![];
    loop {
        let t = lx.next_token()?;
        let eof = t.kind == TokenKind::Eof;
        tokens.push(t);
        if eof {
            break;
        }
    }
    Ok(Lexed { tokens, saw_astral: lx.saw_astral, saw_surrogate_pair_escape: lx.saw_pair })
}

impl<'a> Lexer<'a> {
    fn peek(&self) -> Option<char> {
        self.src[self.pos..].chars().next()
    }
    fn peek_at(&self, n: usize) -> Option<char> {
        self.src[self.pos..].chars().nth(n)
    }
    fn bump(&mut self) -> Option<char> {
        let c = self.peek()?;
        self.pos += c.len_utf8();
        Some(c)
    }
    fn err<T>(&self, kind: SyntaxErrorKind, pos: usize, msg: impl Into<String>) -> Result<T, SyntaxError> {
        Err(SyntaxError { kind, message: msg.into(), pos })
    }
    fn check_source_char(&mut self, c: char, pos: usize) -> Result<(), SyntaxError> {
        if !is_source_character(c, self.opts.allow_astral) {
            return self.err(
                SyntaxErrorKind::InvalidCharacter,
                pos,
                format!("U+{:04X} is not a SourceCharacter", c as u32),
            );
        }
        if c > '\u{FFFF}' {
            self.saw_astral = true;
        }
        Ok(())
    }

    fn skip_ignored(&mut self) -> Result<(), SyntaxError> {
        while let Some(c) = self.peek() {
            match c {
                // UnicodeBOM, WhiteSpace, LineTerminator, Comma
                '\u{FEFF}' | '\t' | ' ' | '\n' | '\r' | ',' => {
                    self.pos += c.len_utf8();
                }
                '#' => {
                    self.pos += 1;
                    // CommentChar :: SourceCharacter but not LineTerminator
                    while let Some(c) = self.peek() {
                        if c == '\n' || c == '\r' {
                            break;
                        }
                        let p = self.pos;
                        self.check_source_char(c, p)?;
                        self.pos += c.len_utf8();
                    }
                }
                _ => break,
            }
        }
        Ok(())
    }

    fn simple(&mut self, kind: TokenKind, len: usize) -> Result<Token, SyntaxError> {
        let start = self.pos;
        self.pos += len;
        Ok(Token { kind, span: Span::new(start, self.pos), value: None })
    }

    fn next_token(&mut self) -> Result<Token, SyntaxError> {
        self.skip_ignored()?;
        let start = self.pos;
        let Some(c) = self.peek() else {
            return Ok(Token { kind: TokenKind::Eof, span: Span::new(start, start), value: None });
        };
        match c {
            '!' => self.simple(TokenKind::Bang, 1),
            '$' => self.simple(TokenKind::Dollar, 1),
            '&' => self.simple(TokenKind::Amp, 1),
            '(' => self.simple(TokenKind::LParen, 1),
            ')' => self.simple(TokenKind::RParen, 1),
            ':' => self.simple(TokenKind::Colon, 1),
            '=' => self.simple(TokenKind::Equals, 1),
            '@' => self.simple(TokenKind::At, 1),
            '[' => self.simple(TokenKind::LBracket, 1),
            ']' => self.simple(TokenKind::RBracket, 1),
            '{' => self.simple(TokenKind::LBrace, 1),
            '}' => self.simple(TokenKind::RBrace, 1),
            '|' => self.simple(TokenKind::Pipe, 1),
            '.' => {
                if self.src[self.pos..].starts_with("...") {
                    self.simple(TokenKind::Spread, 3)
                } else {
                    self.err(SyntaxErrorKind::InvalidCharacter, start, "'.' is not a token (expected '...')")
                }
            }
            '"' => {
                if self.src[self.pos..].starts_with("\"\"\"") {
                    self.block_string()
                } else {
                    self.string()
                }
            }
            '-' | '0'..='9' => self.number(),
            c if is_name_start(c) => {
                while let Some(c) = self.peek() {
                    if is_name_continue(c) {
                        self.pos += 1;
                    } else {
                        break;
                    }
                }
                Ok(Token { kind: TokenKind::Name, span: Span::new(start, self.pos), value: None })
            }
            c => {
                if !is_source_character(c, self.opts.allow_astral) {
                    self.err(
                        SyntaxErrorKind::InvalidCharacter,
                        start,
                        format!("U+{:04X} is not a SourceCharacter", c as u32),
                    )
                } else {
                    self.err(SyntaxErrorKind::InvalidCharacter, start, format!("unexpected character {c:?}"))
                }
            }
        }
    }

    /// ```text
    /// IntValue       :: IntegerPart
    /// IntegerPart    :: NegativeSign? 0 | NegativeSign? NonZeroDigit Digit*
    /// FloatValue     :: IntegerPart FractionalPart | IntegerPart ExponentPart
    ///                 | IntegerPart FractionalPart ExponentPart
    /// FractionalPart :: . Digit+
    /// ExponentPart   :: ExponentIndicator Sign? Digit+
    /// ```
    fn number(&mut self) -> Result<Token, SyntaxError> {
        let start = self.pos;
        let strict = self.opts.number_lookahead;
        if self.peek() == Some('-') {
            self.pos += 1;
        }
        match self.peek() {
            Some('0') => {
                self.pos += 1;
            }
            Some('1'..='9') => {
                while matches!(self.peek(), Some('0'..='9')) {
                    self.pos += 1;
                }
            }
            _ => return self.err(SyntaxErrorKind::InvalidNumber, self.pos, "expected a digit after '-'"),
        }
        let mut kind = TokenKind::Int;
        // FractionalPart
        if self.peek() == Some('.') {
            if matches!(self.peek_at(1), Some('0'..='9')) {
                kind = TokenKind::Float;
                self.pos += 1;
                while matches!(self.peek(), Some('0'..='9')) {
                    self.pos += 1;
                }
            } else if strict {
                return self.err(SyntaxErrorKind::InvalidNumber, self.pos, "expected a digit after '.'");
            }
            // non-strict: the number ends here; the '.' is lexed (and rejected, unless it is '...') next
        }
        // ExponentPart
        if matches!(self.peek(), Some('e' | 'E')) {
            let mut n = 1;
            if matches!(self.peek_at(n), Some('+' | '-')) {
                n += 1;
            }
            if matches!(self.peek_at(n), Some('0'..='9')) {
                kind = TokenKind::Float;
                self.pos += n;
                while matches!(self.peek(), Some('0'..='9')) {
                    self.pos += 1;
                }
            } else if strict {
                return self.err(SyntaxErrorKind::InvalidNumber, self.pos, "expected a digit in the exponent");
            }
        }
        if strict {
            if let Some(c) = self.peek() {
                if c.is_ascii_digit() || c == '.' || is_name_start(c) {
                    return self.err(
                        SyntaxErrorKind::InvalidNumber,
                        self.pos,
                        format!("a number must not be followed by {c:?}"),
                    );
                }
            }
        }
        Ok(Token { kind, span: Span::new(start, self.pos), value: None })
    }

    fn hex4(&mut self) -> Result<u32, SyntaxError> {
        let mut v = 0u32;
        for _ in 0..4 {
            match self.peek() {
                Some(c) if c.is_ascii_hexdigit() => {
                    v = v * 16 + c.to_digit(16).unwrap();
                    self.pos += 1;
                }
                _ => {
                    return self.err(SyntaxErrorKind::InvalidEscape, self.pos, "\\u must be followed by 4 hex digits")
                }
            }
        }
        Ok(v)
    }

    /// ```text
    /// StringValue      :: " StringCharacter* "
    /// StringCharacter  :: SourceCharacter but not " or \ or LineTerminator
    ///                   | \u EscapedUnicode | \ EscapedCharacter
    /// EscapedUnicode   :: /[0-9A-Fa-f]{4}/
    /// EscapedCharacter :: one of " \ / b f n r t
    /// ```
    fn string(&mut self) -> Result<Token, SyntaxError> {
        let start = self.pos;
        self.pos += 1;
        let mut value = String::new();
        loop {
            let p = self.pos;
            let Some(c) = self.bump() else {
                return self.err(SyntaxErrorKind::UnterminatedString, start, "unterminated string");
            };
            match c {
                '"' => break,
                '\n' | '\r' => {
                    return self.err(SyntaxErrorKind::UnterminatedString, start, "line terminator in string");
                }
                '\\' => {
                    let Some(e) = self.bump() else {
                        return self.err(SyntaxErrorKind::UnterminatedString, start, "unterminated string");
                    };
                    match e {
                        '"' => value.push('"'),
                        '\\' => value.push('\\'),
                        '/' => value.push('/'),
                        'b' => value.push('\u{8}'),
                        'f' => value.push('\u{c}'),
                        'n' => value.push('\n'),
                        'r' => value.push('\r'),
                        't' => value.push('\t'),
                        'u' => {
                            let u = self.hex4()?;
                            if (0xD800..0xDC00).contains(&u) {
                                // a UTF-16 implementation stores the code unit; as a Rust String only a
                                // well-formed pair has a value
                                if self.src[self.pos..].starts_with("\\u") {
                                    let save = self.pos;
                                    self.pos += 2;
                                    let lo = self.hex4()?;
                                    if (0xDC00..0xE000).contains(&lo) {
                                        let cp = 0x10000 + ((u - 0xD800) << 10) + (lo - 0xDC00);
                                        value.push(char::from_u32(cp).unwrap());
                                        self.saw_pair = true;
                                        continue;
                                    }
                                    self.pos = save;
                                }
                                return self.err(SyntaxErrorKind::LoneSurrogate, p, "lone surrogate escape");
                            } else if (0xDC00..0xE000).contains(&u) {
                                return self.err(SyntaxErrorKind::LoneSurrogate, p, "lone surrogate escape");
                            } else {
                                value.push(char::from_u32(u).unwrap());
                            }
                        }
                        other => {
                            return self.err(
                                SyntaxErrorKind::InvalidEscape,
                                p,
                                format!("invalid escape sequence \\{other}"),
                            );
                        }
                    }
                }
                c => {
                    self.check_source_char(c, p)?;
                    value.push(c);
                }
            }
        }
        Ok(Token { kind: TokenKind::String, span: Span::new(start, self.pos), value: Some(value) })
    }

    /// ```text
    /// StringValue          :: """ BlockStringCharacter* """
    /// BlockStringCharacter :: SourceCharacter but not """ or \""" | \"""
    /// ```
    fn block_string(&mut self) -> Result<Token, SyntaxError> {
        let start = self.pos;
        self.pos += 3;
        let mut raw = String::new();
        loop {
            let rest = &self.src[self.pos..];
            if rest.starts_with("\"\"\"") {
                self.pos += 3;
                break;
            }
            if rest.starts_with("\\\"\"\"") {
                self.pos += 4;
                raw.push_str("\"\"\"");
                continue;
            }
            let p = self.pos;
            let Some(c) = self.bump() else {
                return self.err(SyntaxErrorKind::UnterminatedString, start, "unterminated block string");
            };
            self.check_source_char(c, p)?;
            raw.push(c);
        }
        Ok(Token {
            kind: TokenKind::BlockString,
            span: Span::new(start, self.pos),
            value: Some(block_string_value(&raw)),
        })
    }
}

/// Split at `LineTerminator :: U+000A | U+000D [lookahead != U+000A] | U+000D U+000A`.
pub fn split_lines(raw: &str) -> Vec<&str> {
    let b = raw.as_bytes();
    let mut lines = vec![];
    let mut start = 0;
    let mut i = 0;
    while i < b.len() {
        match b[i] {
            b'\n' => {
                lines.push(&raw[start..i]);
                i += 1;
                start = i;
            }
            b'\r' => {
                lines.push(&raw[start..i]);
                i += 1;
                if i < b.len() && b[i] == b'\n' {
                    i += 1;
                }
                start = i;
            }
            _ => i += 1,
        }
    }
    lines.push(&raw[start..]);
    lines
}

/// The static algorithm `BlockStringValue(rawValue)` of section 2.9.4, transcribed step by step.
pub fn block_string_value(raw: &str) -> String {
    // 1. Let lines be the result of splitting rawValue by LineTerminator.
    let mut lines: Vec<&str> = split_lines(raw);
    // 2. Let commonIndent be null.
    let mut common_indent: Option<usize> = None;
    // 3. For each line in lines:
    for (i, line) in lines.iter().enumerate() {
        // a. If line is the first item in lines, continue to the next line.
        if i == 0 {
            continue;
        }
        // b. Let length be the number of characters in line.
        let length = line.chars().count();
        // c. Let indent be the number of leading consecutive WhiteSpace characters in line.
        let indent = line.chars().take_while(|c| is_white_space(*c)).count();
        // d. If indent is less than length: if commonIndent is null or indent is less than
        //    commonIndent, let commonIndent be indent.
        if indent < length && common_indent.is_none_or(|ci| indent < ci) {
            common_indent = Some(indent);
        }
    }
    // 4. If commonIndent is not null: for each line in lines (except the first) remove
    //    commonIndent characters from the beginning of the line.
    if let Some(ci) = common_indent {
        for line in lines.iter_mut().skip(1) {
            let mut it = line.char_indices();
            let cut = it.nth(ci).map(|(i, _)| i).unwrap_or(line.len());
            *line = &line[cut..];
        }
    }
    let only_ws = |l: &str| l.chars().all(is_white_space);
    // 5. While the first item line in lines contains only WhiteSpace: remove it.
    let mut first = 0;
    while first < lines.len() && only_ws(lines[first]) {
        first += 1;
    }
    // 6. While the last item line in lines contains only WhiteSpace: remove it.
    let mut last = lines.len();
    while last > first && only_ws(lines[last - 1]) {
        last -= 1;
    }
    // 7.-8. Join with U+000A.
    lines[first..last].join("\n")
}
