//! Recursive-descent parser: one function per production of Appendix B (June 2018).
//!
//! Constructs that only later editions of the specification allow are rejected with
//! [`SyntaxErrorKind::Post2018Syntax`] unless [`ParseOptions::post_2018`] is set:
//! directives on variable definitions, `repeatable` directive definitions, the
//! `VARIABLE_DEFINITION` directive location, interfaces implementing interfaces, descriptions on
//! `schema` definitions.

use crate::ast::*;
use crate::lexer::{lex, LexOptions, Lexed, SyntaxError, SyntaxErrorKind, Token, TokenKind};

#[derive(Clone, Copy, Debug, PartialEq, Eq)]
pub struct ParseOptions {
    pub lex: LexOptions,
    /// Accept the post-June-2018 additions listed in the module documentation.
    pub post_2018: bool,
    /// Maximum nesting depth of selection sets / values / types (guards the native stack).
    pub max_depth: usize,
    /// Deviations from the grammar that some production parsers are known to tolerate. All off by
    /// default; they exist so that a differential check can *classify* a disagreement (which
    /// leniency explains it), never to decide what is valid.
    pub lenient: Leniency,
}

impl Default for ParseOptions {
    fn default() -> Self {
        ParseOptions { lex: LexOptions::default(), post_2018: false, max_depth: 200, lenient: Leniency::default() }
    }
}

/// Non-grammatical inputs a lenient parse tolerates. Each use is recorded by name in
/// [`SourceFacts::used_leniencies`].
#[derive(Clone, Copy, Debug, Default, PartialEq, Eq)]
pub struct Leniency {
    /// `"empty-document"`: a document without definitions (`Document : Definition+`).
    pub empty_document: bool,
    /// `"empty-extension"`: `extend scalar S`, `extend type T`, `extend union U`, … without
    /// anything to add.
    pub empty_extension: bool,
    /// `"reserved-enum-value"`: `true`, `false`, `null` as enum value *definitions*.
    pub reserved_enum_value: bool,
    /// `"fragment-named-on"`: `fragment on on T { … }`.
    pub fragment_named_on: bool,
    /// `"description-on-extension"`: a description string before `extend`.
    pub description_on_extension: bool,
    /// `"second-description-string"`: two consecutive strings where one description is allowed
    /// (before type system definitions and field definitions; relay's `hack_source`).
    pub second_description_string: bool,
    /// `"directive-without-at"`: `directive name on …`.
    pub directive_without_at: bool,
}

impl Leniency {
    pub fn all() -> Leniency {
        Leniency {
            empty_document: true,
            empty_extension: true,
            reserved_enum_value: true,
            fragment_named_on: true,
            description_on_extension: true,
            second_description_string: true,
            directive_without_at: true,
        }
    }
}

/// Which definitions a document may contain.
#[derive(Clone, Copy, Debug, PartialEq, Eq)]
pub enum DocumentKind {
    /// `Document : Definition+` (anything).
    Any,
    /// `ExecutableDefinition+` only.
    Executable,
    /// `TypeSystemDefinition | TypeSystemExtension` only.
    TypeSystem,
}

/// Facts about the source that checks use to stay inside a domain.
#[derive(Clone, Debug, Default, PartialEq, Eq)]
pub struct SourceFacts {
    pub saw_astral: bool,
    pub saw_surrogate_pair_escape: bool,
    pub used_post_2018: bool,
    /// Names of the [`Leniency`] items that were needed to accept the input (sorted, unique).
    pub used_leniencies: Vec<&'static str>,
}

pub fn parse_document(src: &str) -> Result<Document, SyntaxError> {
    parse_with(src, DocumentKind::Any, ParseOptions::default()).map(|r| r.0)
}
pub fn parse_executable(src: &str) -> Result<Document, SyntaxError> {
    parse_with(src, DocumentKind::Executable, ParseOptions::default()).map(|r| r.0)
}
pub fn parse_schema(src: &str) -> Result<Document, SyntaxError> {
    parse_with(src, DocumentKind::TypeSystem, ParseOptions::default()).map(|r| r.0)
}

pub fn parse_with(src: &str, kind: DocumentKind, opts: ParseOptions) -> Result<(Document, SourceFacts), SyntaxError> {
    let Lexed { tokens, saw_astral, saw_surrogate_pair_escape } = lex(src, opts.lex)?;
    let mut p = Parser { src, tokens, i: 0, opts, kind, depth: 0, used_post_2018: false, used: vec![] };
    let doc = p.document()?;
    p.used.sort();
    p.used.dedup();
    Ok((
        doc,
        SourceFacts { saw_astral, saw_surrogate_pair_escape, used_post_2018: p.used_post_2018, used_leniencies: p.used },
    ))
}

/// Parse a single `Value` (variables allowed), e.g. for tests.
pub fn parse_value(src: &str) -> Result<Value, SyntaxError> {
    let Lexed { tokens, .. } = lex(src, LexOptions::default())?;
    let mut p =
        Parser { src, tokens, i: 0, opts: ParseOptions::default(), kind: DocumentKind::Any, depth: 0, used_post_2018: false, used: vec![] };
    let v = p.value(false)?;
    p.expect(TokenKind::Eof)?;
    Ok(v)
}

/// Parse a single `Type`.
pub fn parse_type(src: &str) -> Result<Type, SyntaxError> {
    let Lexed { tokens, .. } = lex(src, LexOptions::default())?;
    let mut p =
        Parser { src, tokens, i: 0, opts: ParseOptions::default(), kind: DocumentKind::Any, depth: 0, used_post_2018: false, used: vec![] };
    let v = p.ty()?;
    p.expect(TokenKind::Eof)?;
    Ok(v)
}

struct Parser<'a> {
    src: &'a str,
    tokens: Vec<Token>,
    i: usize,
    opts: ParseOptions,
    kind: DocumentKind,
    depth: usize,
    used_post_2018: bool,
    used: Vec<&'static str>,
}

type PResult<T> = Result<T, SyntaxError>;

impl<'a> Parser<'a> {
    fn tok(&self) -> &Token {
        &self.tokens[self.i]
    }
    fn kind(&self) -> TokenKind {
        self.tok().kind
    }
    fn text(&self, t: &Token) -> &'a str {
        &self.src[t.span.start as usize..t.span.end as usize]
    }
    fn cur_text(&self) -> &'a str {
        let t = self.tok();
        &self.src[t.span.start as usize..t.span.end as usize]
    }
    fn advance(&mut self) -> Token {
        let t = self.tokens[self.i].clone();
        if self.i + 1 < self.tokens.len() {
            self.i += 1;
        }
        t
    }
    fn prev_end(&self) -> Span {
        if self.i == 0 {
            Span::new(0, 0)
        } else {
            self.tokens[self.i - 1].span
        }
    }
    fn unexpected<T>(&self, expected: &str) -> PResult<T> {
        let t = self.tok();
        Err(SyntaxError {
            kind: SyntaxErrorKind::UnexpectedToken,
            message: format!("expected {expected}, found {} {:?}", t.kind.describe(), self.text(t)),
            pos: t.span.start as usize,
        })
    }
    fn post2018<T>(&self, what: &str) -> PResult<T> {
        Err(SyntaxError {
            kind: SyntaxErrorKind::Post2018Syntax,
            message: format!("{what} is not part of the June 2018 grammar"),
            pos: self.tok().span.start as usize,
        })
    }
    fn expect(&mut self, k: TokenKind) -> PResult<Token> {
        if self.kind() == k {
            Ok(self.advance())
        } else {
            self.unexpected(k.describe())
        }
    }
    fn eat(&mut self, k: TokenKind) -> bool {
        if self.kind() == k {
            self.advance();
            true
        } else {
            false
        }
    }
    fn at_keyword(&self, kw: &str) -> bool {
        self.kind() == TokenKind::Name && self.cur_text() == kw
    }
    fn eat_keyword(&mut self, kw: &str) -> bool {
        if self.at_keyword(kw) {
            self.advance();
            true
        } else {
            false
        }
    }
    fn expect_keyword(&mut self, kw: &str) -> PResult<()> {
        if self.eat_keyword(kw) {
            Ok(())
        } else {
            self.unexpected(&format!("'{kw}'"))
        }
    }
    fn name(&mut self) -> PResult<String> {
        if self.kind() == TokenKind::Name {
            let t = self.advance();
            Ok(self.text(&t).to_string())
        } else {
            self.unexpected("Name")
        }
    }
    fn enter(&mut self) -> PResult<()> {
        self.depth += 1;
        if self.depth > self.opts.max_depth {
            return Err(SyntaxError {
                kind: SyntaxErrorKind::TooDeep,
                message: "nesting too deep".into(),
                pos: self.tok().span.start as usize,
            });
        }
        Ok(())
    }
    fn leave(&mut self) {
        self.depth -= 1;
    }

    // Document : Definition+
    fn document(&mut self) -> PResult<Document> {
        let mut definitions = vec![];
        if self.kind() == TokenKind::Eof && self.opts.lenient.empty_document {
            self.used.push("empty-document");
            return Ok(Document { definitions });
        }
        loop {
            definitions.push(self.definition()?);
            if self.kind() == TokenKind::Eof {
                break;
            }
        }
        Ok(Document { definitions })
    }

    // Definition : ExecutableDefinition | TypeSystemDefinition | TypeSystemExtension
    fn definition(&mut self) -> PResult<Definition> {
        let start = self.tok().span.start as usize;
        let def = match self.kind() {
            TokenKind::LBrace => Definition::Operation(self.operation_definition()?),
            TokenKind::String | TokenKind::BlockString => {
                if self.opts.lenient.description_on_extension {
                    // look past one or two strings for `extend`
                    let mut n = 1;
                    if self.opts.lenient.second_description_string
                        && matches!(self.tokens[(self.i + 1).min(self.tokens.len() - 1)].kind, TokenKind::String | TokenKind::BlockString)
                    {
                        n = 2;
                    }
                    let t = &self.tokens[(self.i + n).min(self.tokens.len() - 1)];
                    if t.kind == TokenKind::Name && self.text(t) == "extend" {
                        self.used.push("description-on-extension");
                        if n == 2 {
                            self.used.push("second-description-string");
                        }
                        self.i += n;
                        let def = Definition::Extension(self.type_system_extension()?);
                        return self.check_kind(def, start);
                    }
                }
                Definition::TypeSystem(self.type_system_definition()?)
            }
            TokenKind::Name => match self.cur_text() {
                "query" | "mutation" | "subscription" => Definition::Operation(self.operation_definition()?),
                "fragment" => Definition::Fragment(self.fragment_definition()?),
                "schema" | "scalar" | "type" | "interface" | "union" | "enum" | "input" | "directive" => {
                    Definition::TypeSystem(self.type_system_definition()?)
                }
                "extend" => Definition::Extension(self.type_system_extension()?),
                _ => return self.unexpected("a definition"),
            },
            _ => return self.unexpected("a definition"),
        };
        self.check_kind(def, start)
    }

    fn check_kind(&mut self, def: Definition, start: usize) -> PResult<Definition> {
        let ok = match self.kind {
            DocumentKind::Any => true,
            DocumentKind::Executable => def.is_executable(),
            DocumentKind::TypeSystem => !def.is_executable(),
        };
        if !ok {
            return Err(SyntaxError {
                kind: SyntaxErrorKind::WrongDefinitionKind,
                message: format!("definition not allowed in a {:?} document", self.kind),
                pos: start,
            });
        }
        Ok(def)
    }

    // OperationDefinition : OperationType Name? VariableDefinitions? Directives? SelectionSet | SelectionSet
    fn operation_definition(&mut self) -> PResult<OperationDefinition> {
        let start = self.tok().span;
        if self.kind() == TokenKind::LBrace {
            let selection_set = self.selection_set()?;
            return Ok(OperationDefinition {
                kind: OperationKind::Query,
                shorthand: true,
                name: None,
                variable_definitions: vec![],
                directives: vec![],
                selection_set,
                span: start.to(self.prev_end()),
            });
        }
        let kind = self.operation_type()?;
        let name = if self.kind() == TokenKind::Name { Some(self.name()?) } else { None };
        let variable_definitions =
            if self.kind() == TokenKind::LParen { self.variable_definitions()? } else { vec![] };
        let directives = self.directives(false)?;
        let selection_set = self.selection_set()?;
        Ok(OperationDefinition {
            kind,
            shorthand: false,
            name,
            variable_definitions,
            directives,
            selection_set,
            span: start.to(self.prev_end()),
        })
    }

    // OperationType : one of query mutation subscription
    fn operation_type(&mut self) -> PResult<OperationKind> {
        let k = if self.at_keyword("query") {
            OperationKind::Query
        } else if self.at_keyword("mutation") {
            OperationKind::Mutation
        } else if self.at_keyword("subscription") {
            OperationKind::Subscription
        } else {
            return self.unexpected("query, mutation or subscription");
        };
        self.advance();
        Ok(k)
    }

    // VariableDefinitions : ( VariableDefinition+ )
    fn variable_definitions(&mut self) -> PResult<Vec<VariableDefinition>> {
        self.expect(TokenKind::LParen)?;
        let mut out = vec![];
        loop {
            out.push(self.variable_definition()?);
            if self.eat(TokenKind::RParen) {
                break;
            }
        }
        Ok(out)
    }

    // VariableDefinition : Variable : Type DefaultValue?
    fn variable_definition(&mut self) -> PResult<VariableDefinition> {
        let start = self.tok().span;
        self.expect(TokenKind::Dollar)?;
        let name = self.name()?;
        self.expect(TokenKind::Colon)?;
        let ty = self.ty()?;
        let default_value = if self.eat(TokenKind::Equals) { Some(self.value(true)?) } else { None };
        let directives = if self.kind() == TokenKind::At {
            if !self.opts.post_2018 {
                return self.post2018("a directive on a variable definition");
            }
            self.used_post_2018 = true;
            self.directives(true)?
        } else {
            vec![]
        };
        Ok(VariableDefinition { name, ty, default_value, directives, span: start.to(self.prev_end()) })
    }

    // SelectionSet : { Selection+ }
    fn selection_set(&mut self) -> PResult<SelectionSet> {
        self.enter()?;
        let start = self.expect(TokenKind::LBrace)?.span;
        let mut items = vec![];
        loop {
            items.push(self.selection()?);
            if self.eat(TokenKind::RBrace) {
                break;
            }
        }
        self.leave();
        Ok(SelectionSet { items, span: start.to(self.prev_end()) })
    }

    // Selection : Field | FragmentSpread | InlineFragment
    fn selection(&mut self) -> PResult<Selection> {
        if self.kind() == TokenKind::Spread {
            self.fragment()
        } else {
            Ok(Selection::Field(self.field()?))
        }
    }

    // Field : Alias? Name Arguments? Directives? SelectionSet?
    fn field(&mut self) -> PResult<Field> {
        let start = self.tok().span;
        let first = self.name()?;
        let (alias, name) = if self.eat(TokenKind::Colon) { (Some(first), self.name()?) } else { (None, first) };
        let arguments = if self.kind() == TokenKind::LParen { self.arguments(false)? } else { vec![] };
        let directives = self.directives(false)?;
        let selection_set = if self.kind() == TokenKind::LBrace { Some(self.selection_set()?) } else { None };
        Ok(Field { alias, name, arguments, directives, selection_set, span: start.to(self.prev_end()) })
    }

    // Arguments[Const] : ( Argument[?Const]+ )
    fn arguments(&mut self, is_const: bool) -> PResult<Vec<Argument>> {
        self.expect(TokenKind::LParen)?;
        let mut out = vec![];
        loop {
            let start = self.tok().span;
            let name = self.name()?;
            self.expect(TokenKind::Colon)?;
            let value = self.value(is_const)?;
            out.push(Argument { name, value, span: start.to(self.prev_end()) });
            if self.eat(TokenKind::RParen) {
                break;
            }
        }
        Ok(out)
    }

    // FragmentSpread : ... FragmentName Directives?
    // InlineFragment : ... TypeCondition? Directives? SelectionSet
    // FragmentName   : Name but not `on`
    fn fragment(&mut self) -> PResult<Selection> {
        let start = self.expect(TokenKind::Spread)?.span;
        if self.kind() == TokenKind::Name && self.cur_text() != "on" {
            let name = self.name()?;
            let directives = self.directives(false)?;
            return Ok(Selection::FragmentSpread(FragmentSpread { name, directives, span: start.to(self.prev_end()) }));
        }
        let type_condition = if self.eat_keyword("on") { Some(self.name()?) } else { None };
        let directives = self.directives(false)?;
        let selection_set = self.selection_set()?;
        Ok(Selection::InlineFragment(InlineFragment {
            type_condition,
            directives,
            selection_set,
            span: start.to(self.prev_end()),
        }))
    }

    // FragmentDefinition : fragment FragmentName TypeCondition Directives? SelectionSet
    fn fragment_definition(&mut self) -> PResult<FragmentDefinition> {
        let start = self.tok().span;
        self.expect_keyword("fragment")?;
        if self.at_keyword("on") {
            if !self.opts.lenient.fragment_named_on {
                return self.unexpected("a fragment name (not 'on')");
            }
            self.used.push("fragment-named-on");
        }
        let name = self.name()?;
        self.expect_keyword("on")?;
        let type_condition = self.name()?;
        let directives = self.directives(false)?;
        let selection_set = self.selection_set()?;
        Ok(FragmentDefinition { name, type_condition, directives, selection_set, span: start.to(self.prev_end()) })
    }

    // Value[Const] : [~Const] Variable | IntValue | FloatValue | StringValue | BooleanValue | NullValue
    //              | EnumValue | ListValue[?Const] | ObjectValue[?Const]
    fn value(&mut self, is_const: bool) -> PResult<Value> {
        self.enter()?;
        let v = match self.kind() {
            TokenKind::Dollar => {
                if is_const {
                    return self.unexpected("a constant value (variables are not allowed here)");
                }
                self.advance();
                Value::Variable(self.name()?)
            }
            TokenKind::Int => {
                let t = self.advance();
                Value::Int(self.text(&t).to_string())
            }
            TokenKind::Float => {
                let t = self.advance();
                Value::Float(self.text(&t).to_string())
            }
            TokenKind::String | TokenKind::BlockString => Value::String(self.string_value()?),
            TokenKind::Name => {
                let t = self.advance();
                match self.text(&t) {
                    "true" => Value::Boolean(true),
                    "false" => Value::Boolean(false),
                    "null" => Value::Null,
                    // EnumValue : Name but not true, false or null
                    other => Value::Enum(other.to_string()),
                }
            }
            // ListValue[Const] : [ ] | [ Value[?Const]+ ]
            TokenKind::LBracket => {
                self.advance();
                let mut items = vec![];
                while !self.eat(TokenKind::RBracket) {
                    items.push(self.value(is_const)?);
                }
                Value::List(items)
            }
            // ObjectValue[Const] : { } | { ObjectField[?Const]+ }
            TokenKind::LBrace => {
                self.advance();
                let mut fields = vec![];
                while !self.eat(TokenKind::RBrace) {
                    let name = self.name()?;
                    self.expect(TokenKind::Colon)?;
                    fields.push((name, self.value(is_const)?));
                }
                Value::Object(fields)
            }
            _ => return self.unexpected("a value"),
        };
        self.leave();
        Ok(v)
    }

    fn string_value(&mut self) -> PResult<StringValue> {
        match self.kind() {
            TokenKind::String => {
                let t = self.advance();
                Ok(StringValue { value: t.value.unwrap_or_default(), block: false })
            }
            TokenKind::BlockString => {
                let t = self.advance();
                Ok(StringValue { value: t.value.unwrap_or_default(), block: true })
            }
            _ => self.unexpected("StringValue"),
        }
    }

    // Directives[Const] : Directive[?Const]+
    // Directive[Const]  : @ Name Arguments[?Const]?
    fn directives(&mut self, is_const: bool) -> PResult<Vec<Directive>> {
        let mut out = vec![];
        while self.kind() == TokenKind::At {
            let start = self.advance().span;
            let name = self.name()?;
            let arguments = if self.kind() == TokenKind::LParen { self.arguments(is_const)? } else { vec![] };
            out.push(Directive { name, arguments, span: start.to(self.prev_end()) });
        }
        Ok(out)
    }

    // Type : NamedType | ListType | NonNullType
    fn ty(&mut self) -> PResult<Type> {
        self.enter()?;
        let inner = if self.eat(TokenKind::LBracket) {
            let t = self.ty()?;
            self.expect(TokenKind::RBracket)?;
            Type::List(Box::new(t))
        } else {
            Type::Named(self.name()?)
        };
        self.leave();
        if self.eat(TokenKind::Bang) { Ok(Type::NonNull(Box::new(inner))) } else { Ok(inner) }
    }

    // ---------------------------------------------------------------------------------------
    // Type system
    // ---------------------------------------------------------------------------------------

    fn second_string(&mut self, had_description: bool) {
        if had_description
            && self.opts.lenient.second_description_string
            && matches!(self.kind(), TokenKind::String | TokenKind::BlockString)
        {
            self.used.push("second-description-string");
            self.advance();
        }
    }

    // Description : StringValue
    fn description(&mut self) -> PResult<Option<StringValue>> {
        if matches!(self.kind(), TokenKind::String | TokenKind::BlockString) {
            Ok(Some(self.string_value()?))
        } else {
            Ok(None)
        }
    }

    // TypeSystemDefinition : SchemaDefinition | TypeDefinition | DirectiveDefinition
    fn type_system_definition(&mut self) -> PResult<TypeSystemDefinition> {
        let start = self.tok().span;
        let description = self.description()?;
        self.second_string(description.is_some());
        if self.kind() != TokenKind::Name {
            return self.unexpected("a type system definition");
        }
        match self.cur_text() {
            "schema" => {
                if description.is_some() {
                    if !self.opts.post_2018 {
                        return self.post2018("a description on a schema definition");
                    }
                    self.used_post_2018 = true;
                }
                // SchemaDefinition : schema Directives[Const]? { OperationTypeDefinition+ }
                self.advance();
                let directives = self.directives(true)?;
                let operation_types = self.operation_type_definitions()?;
                Ok(TypeSystemDefinition::Schema(SchemaDefinition {
                    description,
                    directives,
                    operation_types,
                    span: start.to(self.prev_end()),
                }))
            }
            // ScalarTypeDefinition : Description? scalar Name Directives[Const]?
            "scalar" => {
                self.advance();
                let name = self.name()?;
                let directives = self.directives(true)?;
                Ok(TypeSystemDefinition::Scalar(ScalarTypeDefinition {
                    description,
                    name,
                    directives,
                    span: start.to(self.prev_end()),
                }))
            }
            // ObjectTypeDefinition : Description? type Name ImplementsInterfaces? Directives[Const]? FieldsDefinition?
            "type" => {
                self.advance();
                let name = self.name()?;
                let interfaces = self.implements_interfaces()?;
                let directives = self.directives(true)?;
                let fields = if self.kind() == TokenKind::LBrace { self.fields_definition()? } else { vec![] };
                Ok(TypeSystemDefinition::Object(ObjectTypeDefinition {
                    description,
                    name,
                    interfaces,
                    directives,
                    fields,
                    span: start.to(self.prev_end()),
                }))
            }
            // InterfaceTypeDefinition : Description? interface Name Directives[Const]? FieldsDefinition?
            "interface" => {
                self.advance();
                let name = self.name()?;
                let interfaces = self.interface_implements()?;
                let directives = self.directives(true)?;
                let fields = if self.kind() == TokenKind::LBrace { self.fields_definition()? } else { vec![] };
                Ok(TypeSystemDefinition::Interface(InterfaceTypeDefinition {
                    description,
                    name,
                    interfaces,
                    directives,
                    fields,
                    span: start.to(self.prev_end()),
                }))
            }
            // UnionTypeDefinition : Description? union Name Directives[Const]? UnionMemberTypes?
            "union" => {
                self.advance();
                let name = self.name()?;
                let directives = self.directives(true)?;
                let members = if self.kind() == TokenKind::Equals { self.union_member_types()? } else { vec![] };
                Ok(TypeSystemDefinition::Union(UnionTypeDefinition {
                    description,
                    name,
                    directives,
                    members,
                    span: start.to(self.prev_end()),
                }))
            }
            // EnumTypeDefinition : Description? enum Name Directives[Const]? EnumValuesDefinition?
            "enum" => {
                self.advance();
                let name = self.name()?;
                let directives = self.directives(true)?;
                let values = if self.kind() == TokenKind::LBrace { self.enum_values_definition()? } else { vec![] };
                Ok(TypeSystemDefinition::Enum(EnumTypeDefinition {
                    description,
                    name,
                    directives,
                    values,
                    span: start.to(self.prev_end()),
                }))
            }
            // InputObjectTypeDefinition : Description? input Name Directives[Const]? InputFieldsDefinition?
            "input" => {
                self.advance();
                let name = self.name()?;
                let directives = self.directives(true)?;
                let fields = if self.kind() == TokenKind::LBrace { self.input_fields_definition()? } else { vec![] };
                Ok(TypeSystemDefinition::InputObject(InputObjectTypeDefinition {
                    description,
                    name,
                    directives,
                    fields,
                    span: start.to(self.prev_end()),
                }))
            }
            // DirectiveDefinition : Description? directive @ Name ArgumentsDefinition? on DirectiveLocations
            "directive" => {
                self.advance();
                if self.kind() != TokenKind::At && self.opts.lenient.directive_without_at {
                    self.used.push("directive-without-at");
                } else {
                    self.expect(TokenKind::At)?;
                }
                let name = self.name()?;
                let arguments = if self.kind() == TokenKind::LParen { self.arguments_definition()? } else { vec![] };
                let mut repeatable = false;
                if self.at_keyword("repeatable") {
                    if !self.opts.post_2018 {
                        return self.post2018("'repeatable'");
                    }
                    self.used_post_2018 = true;
                    self.advance();
                    repeatable = true;
                }
                self.expect_keyword("on")?;
                let locations = self.directive_locations()?;
                Ok(TypeSystemDefinition::Directive(DirectiveDefinition {
                    description,
                    name,
                    arguments,
                    repeatable,
                    locations,
                    span: start.to(self.prev_end()),
                }))
            }
            _ => self.unexpected("a type system definition"),
        }
    }

    // { OperationTypeDefinition+ } ;  OperationTypeDefinition : OperationType : NamedType
    fn operation_type_definitions(&mut self) -> PResult<Vec<(OperationKind, String)>> {
        self.expect(TokenKind::LBrace)?;
        let mut out = vec![];
        loop {
            let k = self.operation_type()?;
            self.expect(TokenKind::Colon)?;
            out.push((k, self.name()?));
            if self.eat(TokenKind::RBrace) {
                break;
            }
        }
        Ok(out)
    }

    // ImplementsInterfaces : implements &? NamedType | ImplementsInterfaces & NamedType
    fn implements_interfaces(&mut self) -> PResult<Vec<String>> {
        let mut out = vec![];
        if self.eat_keyword("implements") {
            self.eat(TokenKind::Amp);
            out.push(self.name()?);
            while self.eat(TokenKind::Amp) {
                out.push(self.name()?);
            }
        }
        Ok(out)
    }

    fn interface_implements(&mut self) -> PResult<Vec<String>> {
        if self.at_keyword("implements") {
            if !self.opts.post_2018 {
                return self.post2018("an interface implementing interfaces");
            }
            self.used_post_2018 = true;
            return self.implements_interfaces();
        }
        Ok(vec![])
    }

    // FieldsDefinition : { FieldDefinition+ }
    fn fields_definition(&mut self) -> PResult<Vec<FieldDefinition>> {
        self.expect(TokenKind::LBrace)?;
        let mut out = vec![];
        loop {
            out.push(self.field_definition()?);
            if self.eat(TokenKind::RBrace) {
                break;
            }
        }
        Ok(out)
    }

    // FieldDefinition : Description? Name ArgumentsDefinition? : Type Directives[Const]?
    fn field_definition(&mut self) -> PResult<FieldDefinition> {
        let start = self.tok().span;
        let description = self.description()?;
        self.second_string(description.is_some());
        let name = self.name()?;
        let arguments = if self.kind() == TokenKind::LParen { self.arguments_definition()? } else { vec![] };
        self.expect(TokenKind::Colon)?;
        let ty = self.ty()?;
        let directives = self.directives(true)?;
        Ok(FieldDefinition { description, name, arguments, ty, directives, span: start.to(self.prev_end()) })
    }

    // ArgumentsDefinition : ( InputValueDefinition+ )
    fn arguments_definition(&mut self) -> PResult<Vec<InputValueDefinition>> {
        self.expect(TokenKind::LParen)?;
        let mut out = vec![];
        loop {
            out.push(self.input_value_definition()?);
            if self.eat(TokenKind::RParen) {
                break;
            }
        }
        Ok(out)
    }

    // InputValueDefinition : Description? Name : Type DefaultValue? Directives[Const]?
    fn input_value_definition(&mut self) -> PResult<InputValueDefinition> {
        let start = self.tok().span;
        let description = self.description()?;
        let name = self.name()?;
        self.expect(TokenKind::Colon)?;
        let ty = self.ty()?;
        let default_value = if self.eat(TokenKind::Equals) { Some(self.value(true)?) } else { None };
        let directives = self.directives(true)?;
        Ok(InputValueDefinition { description, name, ty, default_value, directives, span: start.to(self.prev_end()) })
    }

    // UnionMemberTypes : = |? NamedType | UnionMemberTypes | NamedType
    fn union_member_types(&mut self) -> PResult<Vec<String>> {
        self.expect(TokenKind::Equals)?;
        self.eat(TokenKind::Pipe);
        let mut out = vec![self.name()?];
        while self.eat(TokenKind::Pipe) {
            out.push(self.name()?);
        }
        Ok(out)
    }

    // EnumValuesDefinition : { EnumValueDefinition+ }
    // EnumValueDefinition  : Description? EnumValue Directives[Const]?
    fn enum_values_definition(&mut self) -> PResult<Vec<EnumValueDefinition>> {
        self.expect(TokenKind::LBrace)?;
        let mut out = vec![];
        loop {
            let start = self.tok().span;
            let description = self.description()?;
            if self.kind() == TokenKind::Name && matches!(self.cur_text(), "true" | "false" | "null") {
                if !self.opts.lenient.reserved_enum_value {
                    return self.unexpected("an enum value (not true, false or null)");
                }
                self.used.push("reserved-enum-value");
            }
            let name = self.name()?;
            let directives = self.directives(true)?;
            out.push(EnumValueDefinition { description, name, directives, span: start.to(self.prev_end()) });
            if self.eat(TokenKind::RBrace) {
                break;
            }
        }
        Ok(out)
    }

    // InputFieldsDefinition : { InputValueDefinition+ }
    fn input_fields_definition(&mut self) -> PResult<Vec<InputValueDefinition>> {
        self.expect(TokenKind::LBrace)?;
        let mut out = vec![];
        loop {
            out.push(self.input_value_definition()?);
            if self.eat(TokenKind::RBrace) {
                break;
            }
        }
        Ok(out)
    }

    // DirectiveLocations : |? DirectiveLocation | DirectiveLocations | DirectiveLocation
    fn directive_locations(&mut self) -> PResult<Vec<String>> {
        self.eat(TokenKind::Pipe);
        let mut out = vec![self.directive_location()?];
        while self.eat(TokenKind::Pipe) {
            out.push(self.directive_location()?);
        }
        Ok(out)
    }

    // DirectiveLocation : ExecutableDirectiveLocation | TypeSystemDirectiveLocation
    fn directive_location(&mut self) -> PResult<String> {
        if self.kind() == TokenKind::Name {
            let t = self.cur_text();
            if EXECUTABLE_DIRECTIVE_LOCATIONS.contains(&t) || TYPE_SYSTEM_DIRECTIVE_LOCATIONS.contains(&t) {
                return self.name();
            }
            if POST_2018_DIRECTIVE_LOCATIONS.contains(&t) {
                if !self.opts.post_2018 {
                    return self.post2018("the directive location VARIABLE_DEFINITION");
                }
                self.used_post_2018 = true;
                return self.name();
            }
        }
        self.unexpected("a directive location")
    }

    // TypeSystemExtension : SchemaExtension | TypeExtension
    fn type_system_extension(&mut self) -> PResult<TypeSystemExtension> {
        let start = self.tok().span;
        self.expect_keyword("extend")?;
        if self.kind() != TokenKind::Name {
            return self.unexpected("schema, scalar, type, interface, union, enum or input");
        }
        match self.tok_text_owned().as_str() {
            // SchemaExtension : extend schema Directives[Const]? { OperationTypeDefinition+ }
            //                 | extend schema Directives[Const]
            "schema" => {
                self.advance();
                let directives = self.directives(true)?;
                let operation_types =
                    if self.kind() == TokenKind::LBrace { self.operation_type_definitions()? } else { vec![] };
                if directives.is_empty() && operation_types.is_empty() {
                    if !self.opts.lenient.empty_extension {
                        return self.unexpected("directives or operation types in a schema extension");
                    }
                    self.used.push("empty-extension");
                }
                Ok(TypeSystemExtension::Schema(SchemaDefinition {
                    description: None,
                    directives,
                    operation_types,
                    span: start.to(self.prev_end()),
                }))
            }
            // ScalarTypeExtension : extend scalar Name Directives[Const]
            "scalar" => {
                self.advance();
                let name = self.name()?;
                let directives = self.directives(true)?;
                if directives.is_empty() {
                    if !self.opts.lenient.empty_extension {
                        return self.unexpected("directives in a scalar extension");
                    }
                    self.used.push("empty-extension");
                }
                Ok(TypeSystemExtension::Scalar(ScalarTypeDefinition {
                    description: None,
                    name,
                    directives,
                    span: start.to(self.prev_end()),
                }))
            }
            // ObjectTypeExtension : extend type Name ImplementsInterfaces? Directives[Const]? FieldsDefinition
            //                     | extend type Name ImplementsInterfaces? Directives[Const]
            //                     | extend type Name ImplementsInterfaces
            "type" => {
                self.advance();
                let name = self.name()?;
                let interfaces = self.implements_interfaces()?;
                let directives = self.directives(true)?;
                let fields = if self.kind() == TokenKind::LBrace { self.fields_definition()? } else { vec![] };
                if interfaces.is_empty() && directives.is_empty() && fields.is_empty() {
                    if !self.opts.lenient.empty_extension {
                        return self.unexpected("interfaces, directives or fields in a type extension");
                    }
                    self.used.push("empty-extension");
                }
                Ok(TypeSystemExtension::Object(ObjectTypeDefinition {
                    description: None,
                    name,
                    interfaces,
                    directives,
                    fields,
                    span: start.to(self.prev_end()),
                }))
            }
            // InterfaceTypeExtension : extend interface Name Directives[Const]? FieldsDefinition
            //                        | extend interface Name Directives[Const]
            "interface" => {
                self.advance();
                let name = self.name()?;
                let interfaces = self.interface_implements()?;
                let directives = self.directives(true)?;
                let fields = if self.kind() == TokenKind::LBrace { self.fields_definition()? } else { vec![] };
                if interfaces.is_empty() && directives.is_empty() && fields.is_empty() {
                    if !self.opts.lenient.empty_extension {
                        return self.unexpected("directives or fields in an interface extension");
                    }
                    self.used.push("empty-extension");
                }
                Ok(TypeSystemExtension::Interface(InterfaceTypeDefinition {
                    description: None,
                    name,
                    interfaces,
                    directives,
                    fields,
                    span: start.to(self.prev_end()),
                }))
            }
            // UnionTypeExtension : extend union Name Directives[Const]? UnionMemberTypes
            //                    | extend union Name Directives[Const]
            "union" => {
                self.advance();
                let name = self.name()?;
                let directives = self.directives(true)?;
                let members = if self.kind() == TokenKind::Equals { self.union_member_types()? } else { vec![] };
                if directives.is_empty() && members.is_empty() {
                    if !self.opts.lenient.empty_extension {
                        return self.unexpected("directives or member types in a union extension");
                    }
                    self.used.push("empty-extension");
                }
                Ok(TypeSystemExtension::Union(UnionTypeDefinition {
                    description: None,
                    name,
                    directives,
                    members,
                    span: start.to(self.prev_end()),
                }))
            }
            // EnumTypeExtension : extend enum Name Directives[Const]? EnumValuesDefinition
            //                   | extend enum Name Directives[Const]
            "enum" => {
                self.advance();
                let name = self.name()?;
                let directives = self.directives(true)?;
                let values = if self.kind() == TokenKind::LBrace { self.enum_values_definition()? } else { vec![] };
                if directives.is_empty() && values.is_empty() {
                    if !self.opts.lenient.empty_extension {
                        return self.unexpected("directives or values in an enum extension");
                    }
                    self.used.push("empty-extension");
                }
                Ok(TypeSystemExtension::Enum(EnumTypeDefinition {
                    description: None,
                    name,
                    directives,
                    values,
                    span: start.to(self.prev_end()),
                }))
            }
            // InputObjectTypeExtension : extend input Name Directives[Const]? InputFieldsDefinition
            //                          | extend input Name Directives[Const]
            "input" => {
                self.advance();
                let name = self.name()?;
                let directives = self.directives(true)?;
                let fields = if self.kind() == TokenKind::LBrace { self.input_fields_definition()? } else { vec![] };
                if directives.is_empty() && fields.is_empty() {
                    if !self.opts.lenient.empty_extension {
                        return self.unexpected("directives or fields in an input extension");
                    }
                    self.used.push("empty-extension");
                }
                Ok(TypeSystemExtension::InputObject(InputObjectTypeDefinition {
                    description: None,
                    name,
                    directives,
                    fields,
                    span: start.to(self.prev_end()),
                }))
            }
            _ => self.unexpected("schema, scalar, type, interface, union, enum or input"),
        }
    }

    fn tok_text_owned(&self) -> String {
        self.cur_text().to_string()
    }
}
