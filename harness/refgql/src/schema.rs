//! Schema model built from SDL documents (section 3 of the specification, as far as the
//! validation of executable documents needs it).

use crate::ast::*;
use std::collections::{BTreeMap, BTreeSet};

#[derive(Clone, Copy, Debug, PartialEq, Eq, Hash)]
pub enum TypeKind {
    Scalar,
    Object,
    Interface,
    Union,
    Enum,
    InputObject,
}

#[derive(Clone, Debug, PartialEq, Eq)]
pub struct InputValueDef {
    pub name: String,
    pub ty: Type,
    pub default_value: Option<Value>,
    pub description: Option<String>,
    pub directives: Vec<Directive>,
}

#[derive(Clone, Debug, PartialEq, Eq)]
pub struct FieldDef {
    pub name: String,
    pub args: Vec<InputValueDef>,
    pub ty: Type,
    pub description: Option<String>,
    pub directives: Vec<Directive>,
}

impl FieldDef {
    pub fn arg(&self, name: &str) -> Option<&InputValueDef> {
        self.args.iter().find(|a| a.name == name)
    }
}

#[derive(Clone, Debug, PartialEq, Eq)]
pub struct TypeDef {
    pub name: String,
    pub kind: TypeKind,
    pub description: Option<String>,
    pub directives: Vec<Directive>,
    /// Object and interface types.
    pub fields: Vec<FieldDef>,
    /// Object types (and interfaces with `post_2018`).
    pub interfaces: Vec<String>,
    /// Union types.
    pub members: Vec<String>,
    /// Enum types.
    pub enum_values: Vec<String>,
    /// Input object types.
    pub input_fields: Vec<InputValueDef>,
    /// Built-in scalar or introspection type.
    pub builtin: bool,
}

impl TypeDef {
    fn new(name: &str, kind: TypeKind) -> TypeDef {
        TypeDef {
            name: name.to_string(),
            kind,
            description: None,
            directives: vec![],
            fields: vec![],
            interfaces: vec![],
            members: vec![],
            enum_values: vec![],
            input_fields: vec![],
            builtin: false,
        }
    }
    pub fn field(&self, name: &str) -> Option<&FieldDef> {
        self.fields.iter().find(|f| f.name == name)
    }
    pub fn input_field(&self, name: &str) -> Option<&InputValueDef> {
        self.input_fields.iter().find(|f| f.name == name)
    }
}

#[derive(Clone, Debug, PartialEq, Eq)]
pub struct DirectiveDef {
    pub name: String,
    pub args: Vec<InputValueDef>,
    pub locations: Vec<String>,
    pub repeatable: bool,
    pub builtin: bool,
}

#[derive(Clone, Debug, PartialEq, Eq)]
pub struct SchemaError {
    pub message: String,
}

impl std::fmt::Display for SchemaError {
    fn fmt(&self, f: &mut std::fmt::Formatter<'_>) -> std::fmt::Result {
        write!(f, "schema error: {}", self.message)
    }
}

#[derive(Clone, Debug)]
pub struct Schema {
    pub types: BTreeMap<String, TypeDef>,
    pub directives: BTreeMap<String, DirectiveDef>,
    pub query_type: Option<String>,
    pub mutation_type: Option<String>,
    pub subscription_type: Option<String>,
    typename_field: FieldDef,
    schema_field: FieldDef,
    type_field: FieldDef,
}

const BUILTIN_SDL: &str = r#"
scalar Int
scalar Float
scalar String
scalar Boolean
scalar ID
directive @skip(if: Boolean!) on FIELD | FRAGMENT_SPREAD | INLINE_FRAGMENT
directive @include(if: Boolean!) on FIELD | FRAGMENT_SPREAD | INLINE_FRAGMENT
directive @deprecated(reason: String = "No longer supported") on FIELD_DEFINITION | ENUM_VALUE
type __Schema {
  types: [__Type!]!
  queryType: __Type!
  mutationType: __Type
  subscriptionType: __Type
  directives: [__Directive!]!
}
type __Type {
  kind: __TypeKind!
  name: String
  description: String
  fields(includeDeprecated: Boolean = false): [__Field!]
  interfaces: [__Type!]
  possibleTypes: [__Type!]
  enumValues(includeDeprecated: Boolean = false): [__EnumValue!]
  inputFields: [__InputValue!]
  ofType: __Type
}
type __Field {
  name: String!
  description: String
  args: [__InputValue!]!
  type: __Type!
  isDeprecated: Boolean!
  deprecationReason: String
}
type __InputValue {
  name: String!
  description: String
  type: __Type!
  defaultValue: String
}
type __EnumValue {
  name: String!
  description: String
  isDeprecated: Boolean!
  deprecationReason: String
}
enum __TypeKind { SCALAR OBJECT INTERFACE UNION ENUM INPUT_OBJECT LIST NON_NULL }
type __Directive {
  name: String!
  description: String
  locations: [__DirectiveLocation!]!
  args: [__InputValue!]!
}
enum __DirectiveLocation {
  QUERY MUTATION SUBSCRIPTION FIELD FRAGMENT_DEFINITION FRAGMENT_SPREAD INLINE_FRAGMENT
  SCHEMA SCALAR OBJECT FIELD_DEFINITION ARGUMENT_DEFINITION INTERFACE UNION ENUM ENUM_VALUE
  INPUT_OBJECT INPUT_FIELD_DEFINITION
}
"#;

fn input_value(v: &InputValueDefinition) -> InputValueDef {
    InputValueDef {
        name: v.name.clone(),
        ty: v.ty.clone(),
        default_value: v.default_value.clone(),
        description: v.description.as_ref().map(|d| d.value.clone()),
        directives: v.directives.clone(),
    }
}

fn field_def(f: &FieldDefinition) -> FieldDef {
    FieldDef {
        name: f.name.clone(),
        args: f.arguments.iter().map(input_value).collect(),
        ty: f.ty.clone(),
        description: f.description.as_ref().map(|d| d.value.clone()),
        directives: f.directives.clone(),
    }
}

struct Builder {
    types: BTreeMap<String, TypeDef>,
    directives: BTreeMap<String, DirectiveDef>,
    roots: Vec<(OperationKind, String)>,
    schema_defined: bool,
    errors: Vec<SchemaError>,
    builtin: bool,
}

impl Builder {
    fn err(&mut self, m: String) {
        self.errors.push(SchemaError { message: m });
    }

    fn define(&mut self, mut t: TypeDef) {
        t.builtin = self.builtin;
        if let Some(old) = self.types.get(&t.name) {
            if !old.builtin {
                self.err(format!("type {} is defined more than once", t.name));
                return;
            }
            if old.name.starts_with("__") {
                self.err(format!("type {} redefines an introspection type", t.name));
                return;
            }
            // re-declaring a built-in scalar (`scalar String`) is tolerated
        }
        let dups = duplicates(t.fields.iter().map(|f| f.name.as_str()))
            .into_iter()
            .chain(duplicates(t.input_fields.iter().map(|f| f.name.as_str())))
            .chain(duplicates(t.enum_values.iter().map(|f| f.as_str())))
            .chain(duplicates(t.members.iter().map(|f| f.as_str())))
            .chain(duplicates(t.interfaces.iter().map(|f| f.as_str())))
            .collect::<Vec<_>>();
        for d in dups {
            self.err(format!("{} is listed more than once in {}", d, t.name));
        }
        self.types.insert(t.name.clone(), t);
    }

    fn extend(&mut self, name: &str, kind: TypeKind, f: impl FnOnce(&mut TypeDef) -> Vec<String>) {
        let Some(t) = self.types.get_mut(name) else {
            self.err(format!("cannot extend type {name}: it is not defined"));
            return;
        };
        if t.kind != kind {
            let k = t.kind;
            self.err(format!("cannot extend {name} as {kind:?}: it is defined as {k:?}"));
            return;
        }
        let errs = f(t);
        for e in errs {
            self.err(e);
        }
    }

    fn roots(&mut self, ops: &[(OperationKind, String)]) {
        for (k, n) in ops {
            if self.roots.iter().any(|(k2, _)| k2 == k) {
                self.err(format!("root operation type {} is defined more than once", k.as_str()));
            } else {
                self.roots.push((*k, n.clone()));
            }
        }
    }

    fn add_document(&mut self, doc: &Document, extensions_pass: bool) {
        for d in &doc.definitions {
            match d {
                Definition::TypeSystem(t) if !extensions_pass => self.add_definition(t),
                Definition::Extension(e) if extensions_pass => self.add_extension(e),
                _ => {}
            }
        }
    }

    fn add_definition(&mut self, t: &TypeSystemDefinition) {
        match t {
            TypeSystemDefinition::Schema(s) => {
                if self.schema_defined {
                    self.err("more than one schema definition".into());
                }
                self.schema_defined = true;
                self.roots(&s.operation_types);
            }
            TypeSystemDefinition::Scalar(s) => {
                let mut t = TypeDef::new(&s.name, TypeKind::Scalar);
                t.description = s.description.as_ref().map(|d| d.value.clone());
                t.directives = s.directives.clone();
                self.define(t);
            }
            TypeSystemDefinition::Object(s) => {
                let mut t = TypeDef::new(&s.name, TypeKind::Object);
                t.description = s.description.as_ref().map(|d| d.value.clone());
                t.directives = s.directives.clone();
                t.interfaces = s.interfaces.clone();
                t.fields = s.fields.iter().map(field_def).collect();
                self.define(t);
            }
            TypeSystemDefinition::Interface(s) => {
                let mut t = TypeDef::new(&s.name, TypeKind::Interface);
                t.description = s.description.as_ref().map(|d| d.value.clone());
                t.directives = s.directives.clone();
                t.interfaces = s.interfaces.clone();
                t.fields = s.fields.iter().map(field_def).collect();
                self.define(t);
            }
            TypeSystemDefinition::Union(s) => {
                let mut t = TypeDef::new(&s.name, TypeKind::Union);
                t.description = s.description.as_ref().map(|d| d.value.clone());
                t.directives = s.directives.clone();
                t.members = s.members.clone();
                self.define(t);
            }
            TypeSystemDefinition::Enum(s) => {
                let mut t = TypeDef::new(&s.name, TypeKind::Enum);
                t.description = s.description.as_ref().map(|d| d.value.clone());
                t.directives = s.directives.clone();
                t.enum_values = s.values.iter().map(|v| v.name.clone()).collect();
                self.define(t);
            }
            TypeSystemDefinition::InputObject(s) => {
                let mut t = TypeDef::new(&s.name, TypeKind::InputObject);
                t.description = s.description.as_ref().map(|d| d.value.clone());
                t.directives = s.directives.clone();
                t.input_fields = s.fields.iter().map(input_value).collect();
                self.define(t);
            }
            TypeSystemDefinition::Directive(d) => {
                if let Some(old) = self.directives.get(&d.name) {
                    if !old.builtin {
                        self.err(format!("directive @{} is defined more than once", d.name));
                        return;
                    }
                }
                self.directives.insert(
                    d.name.clone(),
                    DirectiveDef {
                        name: d.name.clone(),
                        args: d.arguments.iter().map(input_value).collect(),
                        locations: d.locations.clone(),
                        repeatable: d.repeatable,
                        builtin: self.builtin,
                    },
                );
            }
        }
    }

    fn add_extension(&mut self, e: &TypeSystemExtension) {
        match e {
            TypeSystemExtension::Schema(s) => self.roots(&s.operation_types),
            TypeSystemExtension::Scalar(s) => self.extend(&s.name, TypeKind::Scalar, |t| {
                t.directives.extend(s.directives.iter().cloned());
                vec![]
            }),
            TypeSystemExtension::Object(s) => self.extend(&s.name, TypeKind::Object, |t| {
                let mut errs = vec![];
                t.directives.extend(s.directives.iter().cloned());
                for i in &s.interfaces {
                    if t.interfaces.contains(i) {
                        errs.push(format!("type {} already implements {}", t.name, i));
                    } else {
                        t.interfaces.push(i.clone());
                    }
                }
                for f in &s.fields {
                    if t.field(&f.name).is_some() {
                        errs.push(format!("field {}.{} is defined more than once", t.name, f.name));
                    } else {
                        t.fields.push(field_def(f));
                    }
                }
                errs
            }),
            TypeSystemExtension::Interface(s) => self.extend(&s.name, TypeKind::Interface, |t| {
                let mut errs = vec![];
                t.directives.extend(s.directives.iter().cloned());
                for i in &s.interfaces {
                    if !t.interfaces.contains(i) {
                        t.interfaces.push(i.clone());
                    }
                }
                for f in &s.fields {
                    if t.field(&f.name).is_some() {
                        errs.push(format!("field {}.{} is defined more than once", t.name, f.name));
                    } else {
                        t.fields.push(field_def(f));
                    }
                }
                errs
            }),
            TypeSystemExtension::Union(s) => self.extend(&s.name, TypeKind::Union, |t| {
                let mut errs = vec![];
                t.directives.extend(s.directives.iter().cloned());
                for m in &s.members {
                    if t.members.contains(m) {
                        errs.push(format!("union {} already includes {}", t.name, m));
                    } else {
                        t.members.push(m.clone());
                    }
                }
                errs
            }),
            TypeSystemExtension::Enum(s) => self.extend(&s.name, TypeKind::Enum, |t| {
                let mut errs = vec![];
                t.directives.extend(s.directives.iter().cloned());
                for v in &s.values {
                    if t.enum_values.contains(&v.name) {
                        errs.push(format!("enum value {}.{} is defined more than once", t.name, v.name));
                    } else {
                        t.enum_values.push(v.name.clone());
                    }
                }
                errs
            }),
            TypeSystemExtension::InputObject(s) => self.extend(&s.name, TypeKind::InputObject, |t| {
                let mut errs = vec![];
                t.directives.extend(s.directives.iter().cloned());
                for f in &s.fields {
                    if t.input_field(&f.name).is_some() {
                        errs.push(format!("input field {}.{} is defined more than once", t.name, f.name));
                    } else {
                        t.input_fields.push(input_value(f));
                    }
                }
                errs
            }),
        }
    }
}

fn duplicates<'a>(names: impl Iterator<Item = &'a str>) -> Vec<String> {
    let mut seen = BTreeSet::new();
    let mut out = vec![];
    for n in names {
        if !seen.insert(n) {
            out.push(n.to_string());
        }
    }
    out
}

impl Schema {
    /// Build a schema from SDL documents (all definitions of all documents first, then all
    /// extensions in document order). Executable definitions in the documents are ignored.
    /// Returns the errors if there are any; see [`Schema::build_lenient`].
    pub fn build(docs: &[&Document]) -> Result<Schema, Vec<SchemaError>> {
        let (s, errs) = Schema::build_lenient(docs);
        if errs.is_empty() { Ok(s) } else { Err(errs) }
    }

    /// Like [`Schema::build`] but always returns the schema that could be assembled.
    pub fn build_lenient(docs: &[&Document]) -> (Schema, Vec<SchemaError>) {
        let mut b = Builder {
            types: BTreeMap::new(),
            directives: BTreeMap::new(),
            roots: vec![],
            schema_defined: false,
            errors: vec![],
            builtin: true,
        };
        let builtin = crate::parser::parse_schema(BUILTIN_SDL).expect("built-in SDL parses");
        b.add_document(&builtin, false);
        b.builtin = false;
        for d in docs {
            b.add_document(d, false);
        }
        for d in docs {
            b.add_document(d, true);
        }
        let mut query_type = None;
        let mut mutation_type = None;
        let mut subscription_type = None;
        if b.schema_defined || !b.roots.is_empty() {
            for (k, n) in b.roots.clone() {
                match b.types.get(&n).map(|t| t.kind) {
                    Some(TypeKind::Object) => {}
                    Some(_) => b.err(format!("root operation type {n} is not an object type")),
                    None => b.err(format!("root operation type {n} is not defined")),
                }
                match k {
                    OperationKind::Query => query_type = Some(n),
                    OperationKind::Mutation => mutation_type = Some(n),
                    OperationKind::Subscription => subscription_type = Some(n),
                }
            }
        }
        if !b.schema_defined {
            // default root operation type names
            let is_obj = |n: &str| b.types.get(n).is_some_and(|t| t.kind == TypeKind::Object);
            if query_type.is_none() && is_obj("Query") {
                query_type = Some("Query".to_string());
            }
            if mutation_type.is_none() && is_obj("Mutation") {
                mutation_type = Some("Mutation".to_string());
            }
            if subscription_type.is_none() && is_obj("Subscription") {
                subscription_type = Some("Subscription".to_string());
            }
        }
        // referenced types exist and are of the right category
        let mut errs = vec![];
        for t in b.types.values() {
            for f in &t.fields {
                match b.types.get(f.ty.inner_name()) {
                    None => errs.push(format!("{}.{}: unknown type {}", t.name, f.name, f.ty.inner_name())),
                    Some(x) if x.kind == TypeKind::InputObject => {
                        errs.push(format!("{}.{}: {} is not an output type", t.name, f.name, x.name))
                    }
                    _ => {}
                }
                for a in &f.args {
                    match b.types.get(a.ty.inner_name()) {
                        None => {
                            errs.push(format!("{}.{}({}:): unknown type {}", t.name, f.name, a.name, a.ty.inner_name()))
                        }
                        Some(x) if !matches!(x.kind, TypeKind::Scalar | TypeKind::Enum | TypeKind::InputObject) => {
                            errs.push(format!("{}.{}({}:): {} is not an input type", t.name, f.name, a.name, x.name))
                        }
                        _ => {}
                    }
                }
            }
            for f in &t.input_fields {
                match b.types.get(f.ty.inner_name()) {
                    None => errs.push(format!("{}.{}: unknown type {}", t.name, f.name, f.ty.inner_name())),
                    Some(x) if !matches!(x.kind, TypeKind::Scalar | TypeKind::Enum | TypeKind::InputObject) => {
                        errs.push(format!("{}.{}: {} is not an input type", t.name, f.name, x.name))
                    }
                    _ => {}
                }
            }
            for i in &t.interfaces {
                if b.types.get(i).map(|x| x.kind) != Some(TypeKind::Interface) {
                    errs.push(format!("{} implements {}, which is not an interface type", t.name, i));
                }
            }
            for m in &t.members {
                if b.types.get(m).map(|x| x.kind) != Some(TypeKind::Object) {
                    errs.push(format!("union {} includes {}, which is not an object type", t.name, m));
                }
            }
        }
        for d in b.directives.values() {
            for a in &d.args {
                if !b.types.contains_key(a.ty.inner_name()) {
                    errs.push(format!("@{}({}:): unknown type {}", d.name, a.name, a.ty.inner_name()));
                }
            }
        }
        for e in errs {
            b.err(e);
        }
        let typename_field = FieldDef {
            name: "__typename".into(),
            args: vec![],
            ty: Type::non_null(Type::named("String")),
            description: None,
            directives: vec![],
        };
        let schema_field = FieldDef {
            name: "__schema".into(),
            args: vec![],
            ty: Type::non_null(Type::named("__Schema")),
            description: None,
            directives: vec![],
        };
        let type_field = FieldDef {
            name: "__type".into(),
            args: vec![InputValueDef {
                name: "name".into(),
                ty: Type::non_null(Type::named("String")),
                default_value: None,
                description: None,
                directives: vec![],
            }],
            ty: Type::named("__Type"),
            description: None,
            directives: vec![],
        };
        (
            Schema {
                types: b.types,
                directives: b.directives,
                query_type,
                mutation_type,
                subscription_type,
                typename_field,
                schema_field,
                type_field,
            },
            b.errors,
        )
    }

    pub fn get_type(&self, name: &str) -> Option<&TypeDef> {
        self.types.get(name)
    }
    pub fn kind_of(&self, name: &str) -> Option<TypeKind> {
        self.types.get(name).map(|t| t.kind)
    }
    pub fn root_type(&self, kind: OperationKind) -> Option<&str> {
        match kind {
            OperationKind::Query => self.query_type.as_deref(),
            OperationKind::Mutation => self.mutation_type.as_deref(),
            OperationKind::Subscription => self.subscription_type.as_deref(),
        }
    }
    /// Object, interface or union.
    pub fn is_composite(&self, name: &str) -> bool {
        matches!(self.kind_of(name), Some(TypeKind::Object | TypeKind::Interface | TypeKind::Union))
    }
    /// Scalar or enum.
    pub fn is_leaf(&self, name: &str) -> bool {
        matches!(self.kind_of(name), Some(TypeKind::Scalar | TypeKind::Enum))
    }
    /// `IsInputType` on the innermost named type.
    pub fn is_input_type(&self, ty: &Type) -> bool {
        matches!(self.kind_of(ty.inner_name()), Some(TypeKind::Scalar | TypeKind::Enum | TypeKind::InputObject))
    }
    /// `IsOutputType` on the innermost named type.
    pub fn is_output_type(&self, ty: &Type) -> bool {
        matches!(
            self.kind_of(ty.inner_name()),
            Some(TypeKind::Scalar | TypeKind::Enum | TypeKind::Object | TypeKind::Interface | TypeKind::Union)
        )
    }

    /// The field `name` selectable on composite type `parent`, including the meta fields
    /// `__typename` (every composite type) and `__schema` / `__type` (query root type).
    pub fn field(&self, parent: &str, name: &str) -> Option<&FieldDef> {
        let t = self.types.get(parent)?;
        if name == "__typename" && self.is_composite(parent) {
            return Some(&self.typename_field);
        }
        if self.query_type.as_deref() == Some(parent) {
            if name == "__schema" {
                return Some(&self.schema_field);
            }
            if name == "__type" {
                return Some(&self.type_field);
            }
        }
        t.field(name)
    }

    /// `GetPossibleTypes(type)`: the set of object types an object / interface / union can be.
    pub fn possible_types(&self, name: &str) -> BTreeSet<String> {
        let mut out = BTreeSet::new();
        match self.types.get(name) {
            Some(t) if t.kind == TypeKind::Object => {
                out.insert(t.name.clone());
            }
            Some(t) if t.kind == TypeKind::Union => {
                out.extend(t.members.iter().cloned());
            }
            Some(t) if t.kind == TypeKind::Interface => {
                // objects implementing it directly or through another interface
                let mut ifaces = BTreeSet::new();
                ifaces.insert(t.name.clone());
                loop {
                    let before = ifaces.len();
                    for x in self.types.values() {
                        if x.kind == TypeKind::Interface && x.interfaces.iter().any(|i| ifaces.contains(i)) {
                            ifaces.insert(x.name.clone());
                        }
                    }
                    if ifaces.len() == before {
                        break;
                    }
                }
                for x in self.types.values() {
                    if x.kind == TypeKind::Object && x.interfaces.iter().any(|i| ifaces.contains(i)) {
                        out.insert(x.name.clone());
                    }
                }
            }
            _ => {}
        }
        out
    }
}
