//! Validation of executable documents: section 5 of the June 2018 specification.
//!
//! Every rule of the section is implemented; the [`Rule`] of an error names the subsection.
//! The validator never panics on any parsed document and any schema built by [`Schema`].

use crate::ast::*;
use crate::schema::{FieldDef, InputValueDef, Schema, TypeKind};
use std::collections::{BTreeMap, BTreeSet, HashSet};

#[derive(Clone, Copy, Debug, PartialEq, Eq, Hash, PartialOrd, Ord)]
pub enum Rule {
    /// 5.1.1 Executable Definitions
    ExecutableDefinitions,
    /// 5.2.1.1 Operation Name Uniqueness
    UniqueOperationNames,
    /// 5.2.2.1 Lone Anonymous Operation
    LoneAnonymousOperation,
    /// 5.2.3.1 Single root field (subscriptions)
    SingleFieldSubscriptions,
    /// The schema has no root type for the operation kind.
    OperationTypeDefined,
    /// 5.3.1 Field Selections on Objects, Interfaces, and Unions Types
    FieldsOnCorrectType,
    /// 5.3.2 Field Selection Merging
    OverlappingFieldsCanBeMerged,
    /// 5.3.3 Leaf Field Selections
    ScalarLeafs,
    /// 5.4.1 Argument Names
    KnownArgumentNames,
    /// 5.4.2 Argument Uniqueness
    UniqueArgumentNames,
    /// 5.4.2.1 Required Arguments
    RequiredArguments,
    /// 5.5.1.1 Fragment Name Uniqueness
    UniqueFragmentNames,
    /// 5.5.1.2 Fragment Spread Type Existence (and unknown variable types)
    KnownTypeNames,
    /// 5.5.1.3 Fragments On Composite Types
    FragmentsOnCompositeTypes,
    /// 5.5.1.4 Fragments Must Be Used
    NoUnusedFragments,
    /// 5.5.2.1 Fragment spread target defined
    KnownFragmentNames,
    /// 5.5.2.2 Fragment spreads must not form cycles
    NoFragmentCycles,
    /// 5.5.2.3 Fragment spread is possible
    PossibleFragmentSpreads,
    /// 5.6.1 Values of Correct Type, 5.6.2 Input Object Field Names, 5.6.4 Input Object Required Fields
    ValuesOfCorrectType,
    /// 5.6.3 Input Object Field Uniqueness
    UniqueInputFieldNames,
    /// 5.7.1 Directives Are Defined
    KnownDirectives,
    /// 5.7.2 Directives Are In Valid Locations
    DirectiveLocations,
    /// 5.7.3 Directives Are Unique Per Location
    UniqueDirectivesPerLocation,
    /// 5.8.1 Variable Uniqueness
    UniqueVariableNames,
    /// 5.8.2 Variables Are Input Types
    VariablesAreInputTypes,
    /// 5.8.3 All Variable Uses Defined
    NoUndefinedVariables,
    /// 5.8.4 All Variables Used
    NoUnusedVariables,
    /// 5.8.5 All Variable Usages are Allowed
    VariablesInAllowedPosition,
}

#[derive(Clone, Debug, PartialEq, Eq)]
pub struct ValidationError {
    pub rule: Rule,
    pub message: String,
}

impl ValidationError {
    /// `true` for "directive @x is not defined" (custom client directives are often stripped
    /// before a document reaches a server; callers may want to list these separately).
    pub fn is_unknown_directive(&self) -> bool {
        self.rule == Rule::KnownDirectives
    }
}

impl std::fmt::Display for ValidationError {
    fn fmt(&self, f: &mut std::fmt::Formatter<'_>) -> std::fmt::Result {
        write!(f, "{:?}: {}", self.rule, self.message)
    }
}

/// Validate `doc` against `schema`. Returns all errors found (empty = valid).
pub fn validate(schema: &Schema, doc: &Document) -> Vec<ValidationError> {
    let mut cx = Cx { schema, errors: vec![], fragments: BTreeMap::new(), seen_errors: HashSet::new() };
    cx.run(doc);
    cx.errors
}

struct VarUsage<'a> {
    name: &'a str,
    /// Expected type at the location; `None` when unknown (undefined field/argument).
    location_type: Option<Type>,
    location_has_default: bool,
    context: String,
}

struct Cx<'a> {
    schema: &'a Schema,
    errors: Vec<ValidationError>,
    fragments: BTreeMap<&'a str, &'a FragmentDefinition>,
    seen_errors: HashSet<(Rule, String)>,
}

/// One field occurrence for the merging rule.
#[derive(Clone)]
struct Entry<'a> {
    parent: Option<&'a str>,
    field: &'a Field,
    def: Option<&'a FieldDef>,
}

impl<'a> Cx<'a> {
    fn err(&mut self, rule: Rule, message: String) {
        if self.seen_errors.insert((rule, message.clone())) {
            self.errors.push(ValidationError { rule, message });
        }
    }

    fn run(&mut self, doc: &'a Document) {
        // 5.1.1
        for d in &doc.definitions {
            if !d.is_executable() {
                self.err(Rule::ExecutableDefinitions, "type system definition in an executable document".into());
            }
        }
        let operations: Vec<&OperationDefinition> = doc
            .definitions
            .iter()
            .filter_map(|d| if let Definition::Operation(o) = d { Some(o) } else { None })
            .collect();
        let fragment_defs: Vec<&FragmentDefinition> = doc
            .definitions
            .iter()
            .filter_map(|d| if let Definition::Fragment(o) = d { Some(o) } else { None })
            .collect();
        // 5.2.1.1 / 5.2.2.1
        let mut names = BTreeSet::new();
        for op in &operations {
            match &op.name {
                Some(n) => {
                    if !names.insert(n.as_str()) {
                        self.err(Rule::UniqueOperationNames, format!("operation name {n} is used more than once"));
                    }
                }
                None => {
                    if operations.len() > 1 {
                        self.err(
                            Rule::LoneAnonymousOperation,
                            "an anonymous operation must be the only operation of the document".into(),
                        );
                    }
                }
            }
        }
        // 5.5.1.1
        for f in &fragment_defs {
            if self.fragments.insert(f.name.as_str(), f).is_some() {
                self.err(Rule::UniqueFragmentNames, format!("fragment name {} is used more than once", f.name));
            }
        }
        // fragments: type condition, directives, selections
        for f in &fragment_defs {
            self.directives(&f.directives, "FRAGMENT_DEFINITION", &mut vec![]);
            let parent = self.type_condition(&f.type_condition, &format!("fragment {}", f.name));
            let mut usages = vec![];
            self.selection_set(&f.selection_set, parent, &mut usages);
            // variables inside fragments are checked per operation below
            if let Some(p) = parent {
                let entries = self.collect_entries(&f.selection_set, Some(p));
                let mut memo = HashSet::new();
                self.fields_in_set_can_merge(&entries, &mut memo);
            }
        }
        // 5.5.2.2
        self.fragment_cycles(&fragment_defs);
        // operations
        let mut used_fragments: BTreeSet<&str> = BTreeSet::new();
        for op in &operations {
            self.operation(op, &mut used_fragments);
        }
        // 5.5.1.4
        for f in &fragment_defs {
            if !used_fragments.contains(f.name.as_str()) {
                self.err(Rule::NoUnusedFragments, format!("fragment {} is never used", f.name));
            }
        }
    }

    fn type_condition(&mut self, name: &'a str, what: &str) -> Option<&'a str> {
        match self.schema.kind_of(name) {
            None => {
                self.err(Rule::KnownTypeNames, format!("{what}: unknown type {name}"));
                None
            }
            Some(TypeKind::Object | TypeKind::Interface | TypeKind::Union) => Some(name),
            Some(_) => {
                self.err(
                    Rule::FragmentsOnCompositeTypes,
                    format!("{what}: type condition {name} is not an object, interface or union type"),
                );
                None
            }
        }
    }

    fn operation(&mut self, op: &'a OperationDefinition, used_fragments: &mut BTreeSet<&'a str>) {
        let op_name = op.name.clone().unwrap_or_else(|| "<anonymous>".into());
        let mut usages: Vec<VarUsage<'a>> = vec![];
        // 5.8.1, 5.8.2 and default values
        let mut defs: BTreeMap<&str, &VariableDefinition> = BTreeMap::new();
        for v in &op.variable_definitions {
            if defs.insert(v.name.as_str(), v).is_some() {
                self.err(
                    Rule::UniqueVariableNames,
                    format!("operation {op_name}: variable ${} is defined more than once", v.name),
                );
            }
            match self.schema.kind_of(v.ty.inner_name()) {
                None => self.err(
                    Rule::KnownTypeNames,
                    format!("operation {op_name}: variable ${}: unknown type {}", v.name, v.ty.inner_name()),
                ),
                Some(TypeKind::Scalar | TypeKind::Enum | TypeKind::InputObject) => {
                    if let Some(d) = &v.default_value {
                        let mut none = vec![];
                        self.value(d, &v.ty, false, &format!("default value of ${}", v.name), &mut none);
                    }
                }
                Some(_) => self.err(
                    Rule::VariablesAreInputTypes,
                    format!("operation {op_name}: variable ${} has the non-input type {}", v.name, v.ty),
                ),
            }
            self.directives(&v.directives, "VARIABLE_DEFINITION", &mut usages);
        }
        let loc = match op.kind {
            OperationKind::Query => "QUERY",
            OperationKind::Mutation => "MUTATION",
            OperationKind::Subscription => "SUBSCRIPTION",
        };
        self.directives(&op.directives, loc, &mut usages);
        let root = self.schema.root_type(op.kind);
        if root.is_none() {
            self.err(
                Rule::OperationTypeDefined,
                format!("operation {op_name}: the schema defines no {} root type", op.kind.as_str()),
            );
        }
        self.selection_set(&op.selection_set, root, &mut usages);
        // usages inside (transitively) spread fragments
        let mut visited: BTreeSet<&str> = BTreeSet::new();
        let mut stack: Vec<&'a SelectionSet> = vec![&op.selection_set];
        while let Some(s) = stack.pop() {
            for name in spreads_in(s) {
                if visited.insert(name) {
                    used_fragments.insert(name);
                    if let Some(f) = self.fragments.get(name).copied() {
                        let parent = match self.schema.kind_of(&f.type_condition) {
                            Some(TypeKind::Object | TypeKind::Interface | TypeKind::Union) => {
                                Some(f.type_condition.as_str())
                            }
                            _ => None,
                        };
                        let mut quiet = Cx {
                            schema: self.schema,
                            errors: vec![],
                            fragments: self.fragments.clone(),
                            seen_errors: HashSet::new(),
                        };
                        quiet.directives(&f.directives, "FRAGMENT_DEFINITION", &mut usages);
                        quiet.selection_set(&f.selection_set, parent, &mut usages);
                        stack.push(&f.selection_set);
                    }
                }
            }
        }
        // 5.8.3, 5.8.5
        let mut used: BTreeSet<&str> = BTreeSet::new();
        for u in &usages {
            used.insert(u.name);
            let Some(def) = defs.get(u.name) else {
                self.err(
                    Rule::NoUndefinedVariables,
                    format!("operation {op_name}: variable ${} ({}) is not defined", u.name, u.context),
                );
                continue;
            };
            if let Some(lt) = &u.location_type {
                if !self.schema.is_input_type(&def.ty) {
                    continue;
                }
                if !variable_usage_allowed(def, lt, u.location_has_default) {
                    self.err(
                        Rule::VariablesInAllowedPosition,
                        format!(
                            "operation {op_name}: variable ${} of type {} used in position expecting {} ({})",
                            u.name, def.ty, lt, u.context
                        ),
                    );
                }
            }
        }
        // 5.8.4
        for v in &op.variable_definitions {
            if !used.contains(v.name.as_str()) {
                self.err(Rule::NoUnusedVariables, format!("operation {op_name}: variable ${} is never used", v.name));
            }
        }
        // 5.3.2
        if root.is_some() {
            let entries = self.collect_entries(&op.selection_set, root);
            let mut memo = HashSet::new();
            self.fields_in_set_can_merge(&entries, &mut memo);
            // 5.2.3.1
            if op.kind == OperationKind::Subscription {
                let keys: BTreeSet<&str> = entries.iter().map(|e| e.field.response_key()).collect();
                if keys.len() != 1 {
                    self.err(
                        Rule::SingleFieldSubscriptions,
                        format!("subscription {op_name} must select exactly one root field"),
                    );
                }
            }
        }
    }

    fn selection_set(&mut self, set: &'a SelectionSet, parent: Option<&'a str>, usages: &mut Vec<VarUsage<'a>>) {
        for sel in &set.items {
            match sel {
                Selection::Field(f) => self.field(f, parent, usages),
                Selection::FragmentSpread(s) => {
                    self.directives(&s.directives, "FRAGMENT_SPREAD", usages);
                    match self.fragments.get(s.name.as_str()).copied() {
                        None => self.err(Rule::KnownFragmentNames, format!("fragment {} is not defined", s.name)),
                        Some(f) => {
                            if let Some(p) = parent {
                                if self.schema.is_composite(&f.type_condition) {
                                    self.spread_possible(p, &f.type_condition, &format!("...{}", s.name));
                                }
                            }
                        }
                    }
                }
                Selection::InlineFragment(i) => {
                    self.directives(&i.directives, "INLINE_FRAGMENT", usages);
                    let inner = match &i.type_condition {
                        None => parent,
                        Some(tc) => {
                            let t = self.type_condition(tc, "inline fragment");
                            if let (Some(p), Some(t)) = (parent, t) {
                                self.spread_possible(p, t, &format!("... on {t}"));
                            }
                            t
                        }
                    };
                    self.selection_set(&i.selection_set, inner, usages);
                }
            }
        }
    }

    /// 5.5.2.3
    fn spread_possible(&mut self, parent: &str, fragment_type: &str, what: &str) {
        let a = self.schema.possible_types(parent);
        let b = self.schema.possible_types(fragment_type);
        if a.intersection(&b).next().is_none() {
            self.err(
                Rule::PossibleFragmentSpreads,
                format!("{what} can never apply inside type {parent} (no common possible type)"),
            );
        }
    }

    fn field(&mut self, f: &'a Field, parent: Option<&'a str>, usages: &mut Vec<VarUsage<'a>>) {
        self.directives(&f.directives, "FIELD", usages);
        let def: Option<&'a FieldDef> = match parent {
            None => None,
            Some(p) => {
                let d = self.schema.field(p, &f.name);
                if d.is_none() {
                    // 5.3.1 (on a union only __typename can be selected, which `Schema::field` covers)
                    self.err(Rule::FieldsOnCorrectType, format!("field {} does not exist on type {}", f.name, p));
                }
                d
            }
        };
        let ctx = format!("{}.{}", parent.unwrap_or("?"), f.name);
        self.arguments(&f.arguments, def.map(|d| d.args.as_slice()), &ctx, usages);
        let child: Option<&'a str> = def.map(|d| d.ty.inner_name());
        if let Some(d) = def {
            // 5.3.3
            let inner = d.ty.inner_name();
            if self.schema.is_leaf(inner) {
                if f.selection_set.is_some() {
                    self.err(Rule::ScalarLeafs, format!("field {ctx} of leaf type {} must not have a selection set", d.ty));
                }
            } else if self.schema.is_composite(inner) && f.selection_set.is_none() {
                self.err(Rule::ScalarLeafs, format!("field {ctx} of type {} must have a selection set", d.ty));
            }
        }
        if let Some(s) = &f.selection_set {
            let child = child.filter(|c| self.schema.is_composite(c));
            self.selection_set(s, child, usages);
        }
    }

    /// `defs == None`: the field or directive is unknown (only uniqueness and variable uses are
    /// recorded).
    fn arguments(
        &mut self,
        args: &'a [Argument],
        defs: Option<&'a [InputValueDef]>,
        ctx: &str,
        usages: &mut Vec<VarUsage<'a>>,
    ) {
        let mut seen = BTreeSet::new();
        for a in args {
            // 5.4.2
            if !seen.insert(a.name.as_str()) {
                self.err(Rule::UniqueArgumentNames, format!("{ctx}: argument {} is given more than once", a.name));
            }
            match defs {
                None => self.untyped_value(&a.value, &format!("{ctx}({}:)", a.name), usages),
                Some(defs) => match defs.iter().find(|d| d.name == a.name) {
                    // 5.4.1
                    None => {
                        self.err(Rule::KnownArgumentNames, format!("{ctx}: unknown argument {}", a.name));
                        self.untyped_value(&a.value, &format!("{ctx}({}:)", a.name), usages);
                    }
                    Some(d) => {
                        let c = format!("{ctx}({}:)", a.name);
                        self.value_at(&a.value, &d.ty, d.default_value.is_some(), &c, usages);
                    }
                },
            }
        }
        // 5.4.2.1
        if let Some(defs) = defs {
            for d in defs {
                if d.ty.is_non_null() && d.default_value.is_none() && !args.iter().any(|a| a.name == d.name) {
                    self.err(Rule::RequiredArguments, format!("{ctx}: required argument {} is missing", d.name));
                }
            }
        }
    }

    fn directives(&mut self, ds: &'a [Directive], location: &str, usages: &mut Vec<VarUsage<'a>>) {
        let mut seen = BTreeSet::new();
        for d in ds {
            let def = self.schema.directives.get(&d.name);
            match def {
                None => {
                    self.err(Rule::KnownDirectives, format!("directive @{} is not defined", d.name));
                    self.arguments(&d.arguments, None, &format!("@{}", d.name), usages);
                }
                Some(def) => {
                    if !def.locations.iter().any(|l| l == location) {
                        self.err(
                            Rule::DirectiveLocations,
                            format!("directive @{} is not allowed at location {location}", d.name),
                        );
                    }
                    if !seen.insert(d.name.as_str()) && !def.repeatable {
                        self.err(
                            Rule::UniqueDirectivesPerLocation,
                            format!("directive @{} is used more than once at one location", d.name),
                        );
                    }
                    self.arguments(&d.arguments, Some(def.args.as_slice()), &format!("@{}", d.name), usages);
                }
            }
        }
    }

    /// Record variable uses in a value whose expected type is unknown.
    fn untyped_value(&mut self, v: &'a Value, ctx: &str, usages: &mut Vec<VarUsage<'a>>) {
        match v {
            Value::Variable(n) => usages.push(VarUsage {
                name: n,
                location_type: None,
                location_has_default: false,
                context: ctx.to_string(),
            }),
            Value::List(l) => l.iter().for_each(|x| self.untyped_value(x, ctx, usages)),
            Value::Object(o) => {
                let mut seen = BTreeSet::new();
                for (n, x) in o {
                    if !seen.insert(n.as_str()) {
                        self.err(Rule::UniqueInputFieldNames, format!("{ctx}: input field {n} is given more than once"));
                    }
                    self.untyped_value(x, ctx, usages);
                }
            }
            _ => {}
        }
    }

    fn value_at(&mut self, v: &'a Value, ty: &Type, has_default: bool, ctx: &str, usages: &mut Vec<VarUsage<'a>>) {
        self.value(v, ty, has_default, ctx, usages)
    }

    /// 5.6.1 Values of Correct Type: literal coercion of `v` to `ty` (section 3 input coercion
    /// rules for literals). Variables are recorded as usages and checked by 5.8.5.
    fn value(&mut self, v: &'a Value, ty: &Type, has_default: bool, ctx: &str, usages: &mut Vec<VarUsage<'a>>) {
        if let Value::Variable(n) = v {
            usages.push(VarUsage {
                name: n,
                location_type: Some(ty.clone()),
                location_has_default: has_default,
                context: ctx.to_string(),
            });
            return;
        }
        match ty {
            Type::NonNull(inner) => {
                if *v == Value::Null {
                    self.err(Rule::ValuesOfCorrectType, format!("{ctx}: null given for non-null type {ty}"));
                } else {
                    self.value(v, inner, false, ctx, usages);
                }
            }
            _ if *v == Value::Null => {}
            Type::List(inner) => match v {
                Value::List(items) => {
                    for it in items {
                        self.value(it, inner, false, ctx, usages);
                    }
                }
                // a single item is coerced to a list of one item
                other => self.value(other, inner, false, ctx, usages),
            },
            Type::Named(name) => self.named_value(v, name, ctx, usages),
        }
    }

    fn named_value(&mut self, v: &'a Value, name: &str, ctx: &str, usages: &mut Vec<VarUsage<'a>>) {
        let Some(t) = self.schema.get_type(name) else {
            self.untyped_value(v, ctx, usages);
            return;
        };
        let bad = |cx: &mut Cx<'a>, what: &str| {
            cx.err(Rule::ValuesOfCorrectType, format!("{ctx}: {} is not a valid {what}", crate::printer::print_value(v)));
        };
        match t.kind {
            TypeKind::Scalar => match name {
                "Int" => match v {
                    Value::Int(text) => {
                        let ok = text.parse::<i64>().is_ok_and(|n| (-(1i64 << 31)..(1i64 << 31)).contains(&n));
                        if !ok {
                            bad(self, "Int (32-bit)");
                        }
                    }
                    _ => bad(self, "Int"),
                },
                "Float" => {
                    if !matches!(v, Value::Int(_) | Value::Float(_)) {
                        bad(self, "Float");
                    }
                }
                "String" => {
                    if !matches!(v, Value::String(_)) {
                        bad(self, "String");
                    }
                }
                "Boolean" => {
                    if !matches!(v, Value::Boolean(_)) {
                        bad(self, "Boolean");
                    }
                }
                "ID" => {
                    if !matches!(v, Value::String(_) | Value::Int(_)) {
                        bad(self, "ID");
                    }
                }
                // custom scalar: any literal may be acceptable
                _ => self.untyped_value(v, ctx, usages),
            },
            TypeKind::Enum => match v {
                Value::Enum(e) if t.enum_values.iter().any(|x| x == e) => {}
                _ => bad(self, &format!("value of enum {name}")),
            },
            TypeKind::InputObject => match v {
                Value::Object(fields) => {
                    let mut seen = BTreeSet::new();
                    for (n, fv) in fields {
                        if !seen.insert(n.as_str()) {
                            self.err(
                                Rule::UniqueInputFieldNames,
                                format!("{ctx}: input field {n} is given more than once"),
                            );
                        }
                        match t.input_field(n) {
                            None => {
                                self.err(
                                    Rule::ValuesOfCorrectType,
                                    format!("{ctx}: input type {name} has no field {n}"),
                                );
                                self.untyped_value(fv, ctx, usages);
                            }
                            Some(fd) => {
                                let c = format!("{ctx}.{n}");
                                let ty = fd.ty.clone();
                                let has_default = fd.default_value.is_some();
                                self.value(fv, &ty, has_default, &c, usages);
                            }
                        }
                    }
                    for fd in &t.input_fields {
                        if fd.ty.is_non_null() && fd.default_value.is_none() && !fields.iter().any(|(n, _)| *n == fd.name)
                        {
                            self.err(
                                Rule::ValuesOfCorrectType,
                                format!("{ctx}: required input field {name}.{} is missing", fd.name),
                            );
                        }
                    }
                }
                _ => bad(self, &format!("value of input type {name}")),
            },
            // output types in input positions are a schema error; nothing to check here
            _ => self.untyped_value(v, ctx, usages),
        }
    }

    // -----------------------------------------------------------------------------------------
    // 5.5.2.2 fragment cycles
    // -----------------------------------------------------------------------------------------
    fn fragment_cycles(&mut self, defs: &[&'a FragmentDefinition]) {
        // colour: 0 = unvisited, 1 = on the stack, 2 = done
        let mut colour: BTreeMap<&str, u8> = BTreeMap::new();
        for f in defs {
            if colour.get(f.name.as_str()).copied().unwrap_or(0) == 0 {
                // iterative DFS
                let mut stack: Vec<(&'a str, Vec<&'a str>, usize)> =
                    vec![(f.name.as_str(), spreads_in(&f.selection_set), 0)];
                colour.insert(f.name.as_str(), 1);
                while let Some((name, children, idx)) = stack.last_mut() {
                    if *idx >= children.len() {
                        colour.insert(*name, 2);
                        stack.pop();
                        continue;
                    }
                    let child = children[*idx];
                    *idx += 1;
                    match colour.get(child).copied().unwrap_or(0) {
                        1 => {
                            let n = name.to_string();
                            self.err(
                                Rule::NoFragmentCycles,
                                format!("fragment {child} is spread within itself (via {n})"),
                            );
                        }
                        0 => {
                            if let Some(cf) = self.fragments.get(child).copied() {
                                colour.insert(child, 1);
                                stack.push((cf.name.as_str(), spreads_in(&cf.selection_set), 0));
                            }
                        }
                        _ => {}
                    }
                }
            }
        }
    }

    // -----------------------------------------------------------------------------------------
    // 5.3.2 Field Selection Merging
    // -----------------------------------------------------------------------------------------

    /// All fields of a selection set "including visiting fragments and inline fragments".
    fn collect_entries(&self, set: &'a SelectionSet, parent: Option<&'a str>) -> Vec<Entry<'a>> {
        let mut out = vec![];
        let mut visited = BTreeSet::new();
        self.collect_into(set, parent, &mut out, &mut visited);
        out
    }

    fn collect_into(
        &self,
        set: &'a SelectionSet,
        parent: Option<&'a str>,
        out: &mut Vec<Entry<'a>>,
        visited: &mut BTreeSet<&'a str>,
    ) {
        for sel in &set.items {
            match sel {
                Selection::Field(f) => {
                    let def = parent.and_then(|p| self.schema.field(p, &f.name));
                    out.push(Entry { parent, field: f, def });
                }
                Selection::FragmentSpread(s) => {
                    if visited.insert(s.name.as_str()) {
                        if let Some(fr) = self.fragments.get(s.name.as_str()).copied() {
                            let p = Some(fr.type_condition.as_str()).filter(|t| self.schema.is_composite(t));
                            self.collect_into(&fr.selection_set, p, out, visited);
                        }
                    }
                }
                Selection::InlineFragment(i) => {
                    let p = match &i.type_condition {
                        None => parent,
                        Some(t) => Some(t.as_str()).filter(|t| self.schema.is_composite(t)),
                    };
                    self.collect_into(&i.selection_set, p, out, visited);
                }
            }
        }
    }

    fn sub_entries(&self, e: &Entry<'a>) -> Vec<Entry<'a>> {
        match &e.field.selection_set {
            None => vec![],
            Some(s) => {
                let parent = e.def.map(|d| d.ty.inner_name()).filter(|t| self.schema.is_composite(t));
                self.collect_entries(s, parent)
            }
        }
    }

    /// `FieldsInSetCanMerge(set)`
    fn fields_in_set_can_merge(&mut self, entries: &[Entry<'a>], memo: &mut HashSet<(usize, usize, bool)>) {
        let mut by_key: BTreeMap<&str, Vec<&Entry<'a>>> = BTreeMap::new();
        for e in entries {
            by_key.entry(e.field.response_key()).or_default().push(e);
        }
        // every selection set of the document is subject to the rule: descend into each field
        for e in entries {
            let p = e.field as *const Field as usize;
            if e.field.selection_set.is_some() && memo.insert((p, p, true)) {
                let sub = self.sub_entries(e);
                self.fields_in_set_can_merge(&sub, memo);
            }
        }
        for (key, group) in by_key {
            for i in 0..group.len() {
                for j in (i + 1)..group.len() {
                    let (a, b) = (group[i], group[j]);
                    if std::ptr::eq(a.field, b.field) {
                        continue;
                    }
                    // "If the parent types of fieldA and fieldB are equal or if either is not an Object Type"
                    let is_object = |p: Option<&str>| p.is_some_and(|p| self.schema.kind_of(p) == Some(TypeKind::Object));
                    let same_parent_or_abstract = a.parent == b.parent || !is_object(a.parent) || !is_object(b.parent);
                    self.pair(key, a, b, same_parent_or_abstract, memo);
                }
            }
        }
    }

    fn pair(&mut self, key: &str, a: &Entry<'a>, b: &Entry<'a>, full: bool, memo: &mut HashSet<(usize, usize, bool)>) {
        let (pa, pb) = (a.field as *const Field as usize, b.field as *const Field as usize);
        let k = if pa <= pb { (pa, pb, full) } else { (pb, pa, full) };
        if !memo.insert(k) {
            return;
        }
        // SameResponseShape(fieldA, fieldB): the type part
        if let (Some(da), Some(db)) = (a.def, b.def) {
            if !self.same_shape_types(&da.ty, &db.ty) {
                self.err(
                    Rule::OverlappingFieldsCanBeMerged,
                    format!("response key {key}: fields {} and {} have conflicting types {} and {}", a.field.name, b.field.name, da.ty, db.ty),
                );
                return;
            }
        }
        if full {
            if a.field.name != b.field.name {
                self.err(
                    Rule::OverlappingFieldsCanBeMerged,
                    format!("response key {key}: {} and {} are different fields", a.field.name, b.field.name),
                );
                return;
            }
            if !same_arguments(&a.field.arguments, &b.field.arguments) {
                self.err(
                    Rule::OverlappingFieldsCanBeMerged,
                    format!("response key {key}: field {} is selected with differing arguments", a.field.name),
                );
                return;
            }
        }
        // merged set of both sub-selections
        let mut merged = self.sub_entries(a);
        merged.extend(self.sub_entries(b));
        if merged.is_empty() {
            return;
        }
        if full {
            self.fields_in_set_can_merge(&merged, memo);
        } else {
            // only SameResponseShape applies to the sub-fields
            let mut by_key: BTreeMap<&str, Vec<&Entry<'a>>> = BTreeMap::new();
            for e in &merged {
                by_key.entry(e.field.response_key()).or_default().push(e);
            }
            for (key, group) in by_key {
                for i in 0..group.len() {
                    for j in (i + 1)..group.len() {
                        if !std::ptr::eq(group[i].field, group[j].field) {
                            self.pair(key, group[i], group[j], false, memo);
                        }
                    }
                }
            }
        }
    }

    /// The type comparison of `SameResponseShape`.
    fn same_shape_types(&self, a: &Type, b: &Type) -> bool {
        match (a, b) {
            (Type::NonNull(x), Type::NonNull(y)) => self.same_shape_types(x, y),
            (Type::NonNull(_), _) | (_, Type::NonNull(_)) => false,
            (Type::List(x), Type::List(y)) => self.same_shape_types(x, y),
            (Type::List(_), _) | (_, Type::List(_)) => false,
            (Type::Named(x), Type::Named(y)) => {
                if self.schema.is_leaf(x) || self.schema.is_leaf(y) {
                    x == y
                } else {
                    // both composite (or unknown: nothing to say)
                    true
                }
            }
        }
    }
}

fn same_arguments(a: &[Argument], b: &[Argument]) -> bool {
    if a.len() != b.len() {
        return false;
    }
    a.iter().all(|x| b.iter().any(|y| x.name == y.name && x.value == y.value))
}

/// Names of the fragments spread (directly, at any depth) in a selection set.
fn spreads_in(set: &SelectionSet) -> Vec<&str> {
    let mut out = vec![];
    let mut stack = vec![set];
    while let Some(s) = stack.pop() {
        for sel in &s.items {
            match sel {
                Selection::Field(f) => {
                    if let Some(s) = &f.selection_set {
                        stack.push(s);
                    }
                }
                Selection::FragmentSpread(sp) => out.push(sp.name.as_str()),
                Selection::InlineFragment(i) => stack.push(&i.selection_set),
            }
        }
    }
    out
}

/// `IsVariableUsageAllowed(variableDefinition, variableUsage)` of 5.8.5.
fn variable_usage_allowed(def: &VariableDefinition, location_type: &Type, location_has_default: bool) -> bool {
    if let (Type::NonNull(loc_inner), false) = (location_type, def.ty.is_non_null()) {
        let has_non_null_default = def.default_value.as_ref().is_some_and(|d| *d != Value::Null);
        if !has_non_null_default && !location_has_default {
            return false;
        }
        return types_compatible(&def.ty, loc_inner);
    }
    types_compatible(&def.ty, location_type)
}

/// `AreTypesCompatible(variableType, locationType)`
fn types_compatible(var: &Type, loc: &Type) -> bool {
    match (var, loc) {
        (Type::NonNull(v), Type::NonNull(l)) => types_compatible(v, l),
        (_, Type::NonNull(_)) => false,
        (Type::NonNull(v), l) => types_compatible(v, l),
        (Type::List(v), Type::List(l)) => types_compatible(v, l),
        (_, Type::List(_)) | (Type::List(_), _) => false,
        (Type::Named(v), Type::Named(l)) => v == l,
    }
}
