//! (validator: next commit)
use crate::ast::Document;
use crate::schema::Schema;
#[derive(Clone, Copy, Debug, PartialEq, Eq, Hash)]
pub enum Rule { RequiredArguments }
#[derive(Clone, Debug, PartialEq, Eq)]
pub struct ValidationError { pub rule: Rule, pub message: String }
impl ValidationError { pub fn is_unknown_directive(&self) -> bool { false } }
pub fn validate(_schema: &Schema, _doc: &Document) -> Vec<ValidationError> { vec![] }
