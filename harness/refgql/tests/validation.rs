//! The examples and counter-examples of section 5 ("Validation") of the June 2018 specification,
//! against the schema the section uses.
use refgql::*;

const SCHEMA: &str = r#"
type Query {
  dog: Dog
  human: Human
  pet: Pet
  catOrDog: CatOrDog
  arguments: Arguments
  findDog(complex: ComplexInput): Dog
  booleanList(booleanListArg: [Boolean!]): Boolean
}
type Mutation { noop: Boolean }
type Subscription { newMessage: Message disallowedSecondRootField: Boolean }
type Message { body: String sender: String }
enum DogCommand { SIT, DOWN, HEEL }
type Dog implements Pet {
  name: String!
  nickname: String
  barkVolume: Int
  doesKnowCommand(dogCommand: DogCommand!): Boolean!
  isHousetrained(atOtherHomes: Boolean): Boolean!
  owner: Human
}
interface Sentient { name: String! }
interface Pet { name: String! }
type Alien implements Sentient { name: String! homePlanet: String }
type Human implements Sentient { name: String! pets: [Pet!] }
enum CatCommand { JUMP }
type Cat implements Pet {
  name: String!
  nickname: String
  doesKnowCommand(catCommand: CatCommand!): Boolean!
  meowVolume: Int
}
union CatOrDog = Cat | Dog
union DogOrHuman = Dog | Human
union HumanOrAlien = Human | Alien
type Arguments {
  multipleReqs(x: Int!, y: Int!): Int!
  booleanArgField(booleanArg: Boolean): Boolean
  floatArgField(floatArg: Float): Float
  intArgField(intArg: Int): Int
  nonNullBooleanArgField(nonNullBooleanArg: Boolean!): Boolean!
  booleanListArgField(booleanListArg: [Boolean]!): [Boolean]
  optionalNonNullBooleanArgField(optionalBooleanArg: Boolean! = false): Boolean!
  stringArgField(s: String): String
  idArgField(id: ID): ID
  enumArgField(e: DogCommand): Boolean
  listOfListArg(l: [[Int]]): Int
  custom(c: Anything): Int
}
scalar Anything
input ComplexInput { name: String owner: String }
input Required { must: Int! opt: Int = 3 nested: Required list: [Int!] }
extend type Query { req(r: Required): Int nn(r: Required!): Int }
"#;

fn schema() -> Schema {
    let sdl = parse_schema(SCHEMA).unwrap();
    Schema::build(&[&sdl]).unwrap()
}

fn rules(doc: &str) -> Vec<Rule> {
    let d = parse_executable(doc).unwrap_or_else(|e| panic!("{doc}: {e}"));
    let mut r: Vec<Rule> = validate(&schema(), &d).into_iter().map(|e| e.rule).collect();
    r.sort();
    r.dedup();
    r
}
fn valid(doc: &str) {
    let d = parse_executable(doc).unwrap_or_else(|e| panic!("{doc}: {e}"));
    let errs = validate(&schema(), &d);
    assert!(errs.is_empty(), "expected valid: {doc}\n{errs:#?}");
}
fn invalid(doc: &str, rule: Rule) {
    let r = rules(doc);
    assert!(r.contains(&rule), "expected {rule:?} for {doc}\n got {r:?}");
}
fn only(doc: &str, rule: Rule) {
    let r = rules(doc);
    assert_eq!(r, vec![rule], "{doc}");
}

#[test]
fn operations() {
    valid("query getDogName { dog { name } } query getOwnerName { dog { owner { name } } }");
    only("query getName { dog { name } } query getName { dog { owner { name } } }", Rule::UniqueOperationNames);
    only("query dogOperation { dog { name } } mutation dogOperation { noop }", Rule::UniqueOperationNames);
    valid("{ dog { name } }");
    only("{ dog { name } } query getName { dog { owner { name } } }", Rule::LoneAnonymousOperation);
    valid("subscription sub { newMessage { body sender } }");
    valid("subscription sub { ...newMessageFields } fragment newMessageFields on Subscription { newMessage { body sender } }");
    only("subscription sub { newMessage { body sender } disallowedSecondRootField }", Rule::SingleFieldSubscriptions);
    only(
        "subscription sub { ...multipleSubscriptions } fragment multipleSubscriptions on Subscription { newMessage { body sender } disallowedSecondRootField }",
        Rule::SingleFieldSubscriptions,
    );
}

#[test]
fn fields() {
    only("{ dog { ...f } } fragment f on Dog { meowVolume }", Rule::FieldsOnCorrectType);
    only("{ dog { ...f } } fragment f on Dog { barkVolume: kawVolume }", Rule::FieldsOnCorrectType);
    valid("{ pet { ...f } } fragment f on Pet { name }");
    only("{ pet { ...f } } fragment f on Pet { nickname }", Rule::FieldsOnCorrectType);
    valid("{ catOrDog { ...f } } fragment f on CatOrDog { __typename ... on Pet { name } ... on Dog { barkVolume } }");
    only("{ catOrDog { ...f } } fragment f on CatOrDog { name barkVolume }", Rule::FieldsOnCorrectType);
    valid("{ __typename dog { __typename } __schema { types { name } } __type(name: \"Dog\") { kind } }");
    only("{ dog { __schema { types { name } } } }", Rule::FieldsOnCorrectType);
    // leaf field selections
    valid("{ dog { barkVolume } }");
    only("{ dog { barkVolume { sinceWhen } } }", Rule::ScalarLeafs);
    only("{ human }", Rule::ScalarLeafs);
    only("{ pet }", Rule::ScalarLeafs);
    only("{ catOrDog }", Rule::ScalarLeafs);
}

#[test]
fn field_merging() {
    let dog = |body: &str| format!("{{ dog {{ ...f }} }} fragment f on Dog {{ {body} }}");
    valid(&dog("name name"));
    valid(&dog("otherName: name otherName: name"));
    only(&dog("name: nickname name"), Rule::OverlappingFieldsCanBeMerged);
    valid(&dog("doesKnowCommand(dogCommand: SIT) doesKnowCommand(dogCommand: SIT)"));
    valid("query ($dogCommand: DogCommand!) { dog { doesKnowCommand(dogCommand: $dogCommand) doesKnowCommand(dogCommand: $dogCommand) } }");
    only(&dog("doesKnowCommand(dogCommand: SIT) doesKnowCommand(dogCommand: HEEL)"), Rule::OverlappingFieldsCanBeMerged);
    only(
        "query ($dogCommand: DogCommand!) { dog { doesKnowCommand(dogCommand: SIT) doesKnowCommand(dogCommand: $dogCommand) } }",
        Rule::OverlappingFieldsCanBeMerged,
    );
    only(
        "query ($varOne: DogCommand!, $varTwo: DogCommand!) { dog { doesKnowCommand(dogCommand: $varOne) doesKnowCommand(dogCommand: $varTwo) } }",
        Rule::OverlappingFieldsCanBeMerged,
    );
    only(&dog("isHousetrained(atOtherHomes: true) isHousetrained"), Rule::OverlappingFieldsCanBeMerged);
    let pet = |body: &str| format!("{{ pet {{ ...f }} }} fragment f on Pet {{ {body} }}");
    // safe: differing fields / arguments on non-overlapping object types
    valid(&pet("... on Dog { volume: barkVolume } ... on Cat { volume: meowVolume }"));
    valid(&pet("... on Dog { doesKnowCommand(dogCommand: SIT) } ... on Cat { doesKnowCommand(catCommand: JUMP) }"));
    // but the response shapes must agree
    only(&pet("... on Dog { someValue: nickname } ... on Cat { someValue: meowVolume }"), Rule::OverlappingFieldsCanBeMerged);
    // nested selection sets are subject to the rule too
    only("{ dog { owner { name: __typename name } } }", Rule::OverlappingFieldsCanBeMerged);
    // deep conflict through merged sub-selections
    only("{ dog { owner { name } } dog { owner { name: __typename } } }", Rule::OverlappingFieldsCanBeMerged);
    valid("{ dog { owner { name } } dog { owner { n2: name } } }");
    // nullability / list differences
    only(&pet("... on Dog { x: name } ... on Cat { x: nickname }"), Rule::OverlappingFieldsCanBeMerged);
    // an interface parent overlaps with everything
    only(&pet("name ... on Dog { name: nickname }"), Rule::OverlappingFieldsCanBeMerged);
}

#[test]
fn arguments() {
    valid("{ dog { doesKnowCommand(dogCommand: SIT) } }");
    valid("{ dog { isHousetrained(atOtherHomes: true) @include(if: true) } }");
    invalid("{ dog { doesKnowCommand(command: CLEAN_UP_HOUSE) } }", Rule::KnownArgumentNames);
    only("{ dog { doesKnowCommand(command: CLEAN_UP_HOUSE, dogCommand: SIT) } }", Rule::KnownArgumentNames);
    invalid("{ dog { isHousetrained(atOtherHomes: true) @include(unless: false) } }", Rule::KnownArgumentNames);
    valid("{ arguments { multipleReqs(x: 1, y: 2) } }");
    valid("{ arguments { multipleReqs(y: 1, x: 2) } }");
    invalid("{ arguments { booleanArgField(booleanArg: true, booleanArg: false) } }", Rule::UniqueArgumentNames);
    valid("{ arguments { booleanArgField(booleanArg: true) } }");
    valid("{ arguments { booleanArgField } }");
    valid("{ arguments { nonNullBooleanArgField(nonNullBooleanArg: true) } }");
    only("{ arguments { nonNullBooleanArgField } }", Rule::RequiredArguments);
    only("{ arguments { nonNullBooleanArgField(nonNullBooleanArg: null) } }", Rule::ValuesOfCorrectType);
    valid("{ arguments { optionalNonNullBooleanArgField } }");
    only("{ dog { name @include } }", Rule::RequiredArguments);
}

#[test]
fn fragments() {
    valid("{ dog { ...fragmentOne ...fragmentTwo } } fragment fragmentOne on Dog { name } fragment fragmentTwo on Dog { owner { name } }");
    only("{ dog { ...fragmentOne } } fragment fragmentOne on Dog { name } fragment fragmentOne on Dog { owner { name } }", Rule::UniqueFragmentNames);
    valid("{ dog { ...a ...b ...c } } fragment a on Dog { name } fragment b on Dog { ... on Dog { name } } fragment c on Dog { ... @include(if: true) { name } }");
    only("{ dog { ...f } } fragment f on NotInSchema { name }", Rule::KnownTypeNames);
    only("{ dog { ... on NotInSchema { name } } }", Rule::KnownTypeNames);
    valid("{ dog { ...a } catOrDog { ...c } pet { ...b } } fragment a on Dog { name } fragment b on Pet { name } fragment c on CatOrDog { ... on Dog { name } }");
    only("{ dog { ...f } } fragment f on Int { something }", Rule::FragmentsOnCompositeTypes);
    only("{ dog { ... on Boolean { somethingElse } } }", Rule::FragmentsOnCompositeTypes);
    only("{ dog { ... on ComplexInput { name } } }", Rule::FragmentsOnCompositeTypes);
    only("fragment nameFragment on Dog { name } { dog { name } }", Rule::NoUnusedFragments);
    only("{ dog { ...undefinedFragment } }", Rule::KnownFragmentNames);
    invalid("{ dog { ...nameFragment } } fragment nameFragment on Dog { name ...barkVolumeFragment } fragment barkVolumeFragment on Dog { barkVolume ...nameFragment }", Rule::NoFragmentCycles);
    invalid("{ dog { ...dogFragment } } fragment dogFragment on Dog { name owner { ...ownerFragment } } fragment ownerFragment on Human { name pets { ...dogFragment } }", Rule::NoFragmentCycles);
    invalid("{ dog { ...a } } fragment a on Dog { ...a }", Rule::NoFragmentCycles);
    // spreads possible
    valid("{ dog { ... on Dog { barkVolume } } }");
    only("{ dog { ... on Cat { meowVolume } } }", Rule::PossibleFragmentSpreads);
    valid("{ dog { ...p ...u } } fragment p on Pet { name } fragment u on CatOrDog { ... on Cat { meowVolume } }");
    valid("{ pet { ... on Dog { barkVolume } } catOrDog { ... on Cat { meowVolume } } }");
    only("{ human { ... on Dog { barkVolume } } }", Rule::PossibleFragmentSpreads);
    only("{ human { ...f } } fragment f on HumanOrAlien { ... on Cat { meowVolume } }", Rule::PossibleFragmentSpreads);
    valid("{ pet { ...u } catOrDog { ...p } } fragment u on CatOrDog { ... on Dog { barkVolume } } fragment p on Pet { name }");
    only("{ pet { ...f } } fragment f on Sentient { name }", Rule::PossibleFragmentSpreads);
    only("{ pet { ... on HumanOrAlien { __typename } } }", Rule::PossibleFragmentSpreads);
}

#[test]
fn values() {
    valid("{ arguments { booleanArgField(booleanArg: true) floatArgField(floatArg: 1.1) intArgField(intArg: 1) } }");
    valid("{ arguments { floatArgField(floatArg: 1) } }");
    valid("{ arguments { intArgField(intArg: 2147483647) } }");
    valid("{ arguments { intArgField(intArg: -2147483648) } }");
    valid("{ arguments { intArgField(intArg: -0) } }");
    only("{ arguments { intArgField(intArg: 2147483648) } }", Rule::ValuesOfCorrectType);
    only("{ arguments { intArgField(intArg: -2147483649) } }", Rule::ValuesOfCorrectType);
    only("{ arguments { intArgField(intArg: 99999999999999999999999) } }", Rule::ValuesOfCorrectType);
    only("{ arguments { intArgField(intArg: \"123\") } }", Rule::ValuesOfCorrectType);
    only("{ arguments { intArgField(intArg: 1.0) } }", Rule::ValuesOfCorrectType);
    only("{ arguments { floatArgField(floatArg: \"1\") } }", Rule::ValuesOfCorrectType);
    only("{ arguments { stringArgField(s: 1) } }", Rule::ValuesOfCorrectType);
    only("{ arguments { stringArgField(s: BAR) } }", Rule::ValuesOfCorrectType);
    valid("{ arguments { stringArgField(s: \"\"\"block\"\"\") } }");
    only("{ arguments { booleanArgField(booleanArg: 1) } }", Rule::ValuesOfCorrectType);
    only("{ arguments { booleanArgField(booleanArg: \"true\") } }", Rule::ValuesOfCorrectType);
    valid("{ arguments { idArgField(id: 1) a: idArgField(id: \"x\") } }");
    only("{ arguments { idArgField(id: 1.5) } }", Rule::ValuesOfCorrectType);
    only("{ arguments { idArgField(id: true) } }", Rule::ValuesOfCorrectType);
    valid("{ arguments { enumArgField(e: SIT) } }");
    only("{ arguments { enumArgField(e: \"SIT\") } }", Rule::ValuesOfCorrectType);
    only("{ arguments { enumArgField(e: JUMP) } }", Rule::ValuesOfCorrectType);
    only("{ arguments { enumArgField(e: true) } }", Rule::ValuesOfCorrectType);
    valid("{ arguments { enumArgField(e: null) } }");
    // list coercion
    valid("{ arguments { booleanListArgField(booleanListArg: [true, null, false]) } }");
    valid("{ arguments { booleanListArgField(booleanListArg: true) } }");
    only("{ arguments { booleanListArgField(booleanListArg: [1]) } }", Rule::ValuesOfCorrectType);
    only("{ arguments { booleanListArgField(booleanListArg: null) } }", Rule::ValuesOfCorrectType);
    only("{ booleanList(booleanListArg: [true, null]) }", Rule::ValuesOfCorrectType);
    valid("{ arguments { listOfListArg(l: [[1], [2, 3]]) a: listOfListArg(l: 1) b: listOfListArg(l: [1]) } }");
    only("{ arguments { listOfListArg(l: [[1], [\"a\"]]) } }", Rule::ValuesOfCorrectType);
    // input objects
    valid("{ findDog(complex: { name: \"Fido\" }) { name } }");
    only("{ findDog(complex: { favoriteCookieFlavor: \"Bacon\" }) { name } }", Rule::ValuesOfCorrectType);
    invalid("{ findDog(complex: { name: \"a\", name: \"b\" }) { name } }", Rule::UniqueInputFieldNames);
    only("{ findDog(complex: \"x\") { name } }", Rule::ValuesOfCorrectType);
    only("{ findDog(complex: [{name: 1}]) { name } }", Rule::ValuesOfCorrectType);
    valid("{ req(r: {must: 1}) a: req(r: null) b: req }");
    only("{ req(r: {}) }", Rule::ValuesOfCorrectType);
    only("{ req(r: {must: null}) }", Rule::ValuesOfCorrectType);
    only("{ req(r: {must: 1, nested: {opt: 2}}) }", Rule::ValuesOfCorrectType);
    only("{ req(r: {must: 1, list: [1, null]}) }", Rule::ValuesOfCorrectType);
    only("{ nn }", Rule::RequiredArguments);
    // custom scalars take any literal
    valid("{ arguments { custom(c: {a: [1, \"x\", E, 1.5, null, true]}) } }");
    // variable defaults are values too
    only("query ($a: Int = \"x\") { arguments { intArgField(intArg: $a) } }", Rule::ValuesOfCorrectType);
    only("query ($a: Int! = null) { arguments { intArgField(intArg: $a) } }", Rule::ValuesOfCorrectType);
    valid("query ($a: ComplexInput = {name: \"x\"}) { findDog(complex: $a) { name } }");
}

#[test]
fn directives() {
    only("{ dog { name @unknown(a: 1) } }", Rule::KnownDirectives);
    assert!(validate(&schema(), &parse_executable("{ dog { name @unknown } }").unwrap())[0].is_unknown_directive());
    only("query @skip(if: true) { dog { name } }", Rule::DirectiveLocations);
    valid("query ($foo: Boolean = true, $bar: Boolean = false) { dog @skip(if: $foo) { name } human @skip(if: $bar) { name } }");
    only("query ($foo: Boolean = true, $bar: Boolean = false) { dog @skip(if: $foo) @skip(if: $bar) { name } }", Rule::UniqueDirectivesPerLocation);
    only("{ dog { name @skip(if: 1) } }", Rule::ValuesOfCorrectType);
    valid("{ dog { ...f @include(if: true) ... @skip(if: false) { name } } } fragment f on Dog { name }");
    only("{ dog { name @deprecated } }", Rule::DirectiveLocations);
}

#[test]
fn variables() {
    only("query houseTrainedQuery($atOtherHomes: Boolean, $atOtherHomes: Boolean) { dog { isHousetrained(atOtherHomes: $atOtherHomes) } }", Rule::UniqueVariableNames);
    valid("query A($atOtherHomes: Boolean) { ...f } query B($atOtherHomes: Boolean) { ...f } fragment f on Query { dog { isHousetrained(atOtherHomes: $atOtherHomes) } }");
    valid("query takesComplexInput($complexInput: ComplexInput) { findDog(complex: $complexInput) { name } }");
    valid("query takesBoolean($atOtherHomes: Boolean) { dog { isHousetrained(atOtherHomes: $atOtherHomes) } } query takesList($booleans: [Boolean!]) { booleanList(booleanListArg: $booleans) }");
    for t in ["Cat", "Dog!", "[[CatOrDog!]]!", "Pet"] {
        invalid(&format!("query takesCat($v: {t}) {{ dog {{ name }} }}"), Rule::VariablesAreInputTypes);
    }
    invalid("query ($v: Nope) { arguments { custom(c: $v) } }", Rule::KnownTypeNames);
    valid("query variableIsDefined($atOtherHomes: Boolean) { dog { isHousetrained(atOtherHomes: $atOtherHomes) } }");
    only("query variableIsNotDefined { dog { isHousetrained(atOtherHomes: $atOtherHomes) } }", Rule::NoUndefinedVariables);
    only("query variableIsNotDefinedUsedInSingleFragment { dog { ...f } } fragment f on Dog { isHousetrained(atOtherHomes: $atOtherHomes) }", Rule::NoUndefinedVariables);
    only("query q { dog { ...outer } } fragment outer on Dog { ...inner } fragment inner on Dog { isHousetrained(atOtherHomes: $atOtherHomes) }", Rule::NoUndefinedVariables);
    only("query housetrainedQueryOne($atOtherHomes: Boolean) { dog { ...f } } query housetrainedQueryTwoNotDefined { dog { ...f } } fragment f on Dog { isHousetrained(atOtherHomes: $atOtherHomes) }", Rule::NoUndefinedVariables);
    // nested in lists / objects / directives / custom scalars
    only("{ findDog(complex: {name: $n}) { name } }", Rule::NoUndefinedVariables);
    only("{ booleanList(booleanListArg: [$b]) }", Rule::NoUndefinedVariables);
    only("{ dog @include(if: $c) { name } }", Rule::NoUndefinedVariables);
    only("{ arguments { custom(c: {a: [$z]}) } }", Rule::NoUndefinedVariables);
    invalid("{ dog { name @unknownDirective(x: $q) } }", Rule::NoUndefinedVariables);
    only("query ($q: Int) { dog { name @unknownDirective(x: $q) } }", Rule::KnownDirectives);
    only("query variableUnused($atOtherHomes: Boolean) { dog { isHousetrained } }", Rule::NoUnusedVariables);
    valid("query variableUsedInFragment($atOtherHomes: Boolean) { dog { ...f } } fragment f on Dog { isHousetrained(atOtherHomes: $atOtherHomes) }");
    only("query variableNotUsedWithinFragment($atOtherHomes: Boolean) { dog { ...f } } fragment f on Dog { isHousetrained }", Rule::NoUnusedVariables);
    only("query queryWithUsedVar($atOtherHomes: Boolean) { dog { ...f } } query queryWithExtraVar($atOtherHomes: Boolean, $extra: Int) { dog { ...f } } fragment f on Dog { isHousetrained(atOtherHomes: $atOtherHomes) }", Rule::NoUnusedVariables);
    // usages allowed
    only("query intCannotGoIntoBoolean($intArg: Int) { arguments { booleanArgField(booleanArg: $intArg) } }", Rule::VariablesInAllowedPosition);
    only("query booleanListCannotGoIntoBoolean($booleanListArg: [Boolean]) { arguments { booleanArgField(booleanArg: $booleanListArg) } }", Rule::VariablesInAllowedPosition);
    only("query booleanArgQuery($booleanArg: Boolean) { arguments { nonNullBooleanArgField(nonNullBooleanArg: $booleanArg) } }", Rule::VariablesInAllowedPosition);
    valid("query nonNullListToList($nonNullBooleanList: [Boolean]!) { arguments { booleanListArgField(booleanListArg: $nonNullBooleanList) } }");
    only("query listToNonNullList($booleanList: [Boolean]) { arguments { booleanListArgField(booleanListArg: $booleanList) } }", Rule::VariablesInAllowedPosition);
    valid("query booleanArgQueryWithDefault($booleanArg: Boolean) { arguments { optionalNonNullBooleanArgField(optionalBooleanArg: $booleanArg) } }");
    valid("query booleanArgQueryWithDefault($booleanArg: Boolean = true) { arguments { nonNullBooleanArgField(nonNullBooleanArg: $booleanArg) } }");
    only("query q($booleanArg: Boolean = null) { arguments { nonNullBooleanArgField(nonNullBooleanArg: $booleanArg) } }", Rule::VariablesInAllowedPosition);
    // item positions: no list coercion for variables
    only("query q($b: Boolean) { arguments { booleanListArgField(booleanListArg: $b) } }", Rule::VariablesInAllowedPosition);
    valid("query q($b: Boolean) { arguments { booleanListArgField(booleanListArg: [$b]) } }");
    only("query q($b: Boolean) { booleanList(booleanListArg: [$b]) }", Rule::VariablesInAllowedPosition);
    valid("query q($b: Boolean!) { booleanList(booleanListArg: [$b]) }");
    // input object fields: the field's default counts as location default
    only("query q($i: Int) { req(r: {must: $i}) }", Rule::VariablesInAllowedPosition);
    valid("query q($i: Int!) { req(r: {must: $i, opt: $i}) }");
    only("query q($s: String) { req(r: {must: 1, opt: $s}) }", Rule::VariablesInAllowedPosition);
    only("query q($e: CatCommand) { arguments { enumArgField(e: $e) } }", Rule::VariablesInAllowedPosition);
}

#[test]
fn schema_building() {
    let bad = |s: &str| {
        let d = parse_schema(s).unwrap();
        assert!(Schema::build(&[&d]).is_err(), "{s}");
    };
    bad("type A { a: Int } type A { b: Int }");
    bad("type A { a: Int a: Int }");
    bad("type A { a: Nope }");
    bad("extend type Nope { a: Int }");
    bad("scalar A extend type A { a: Int }");
    bad("type A { a: Int } extend type A { a: Int }");
    bad("type A implements B { a: Int } type B { a: Int }");
    bad("union U = A scalar A");
    bad("input I { a: T } type T { a: Int }");
    bad("type T { a(x: T): Int }");
    bad("schema { query: Nope }");
    bad("type Q { a: Int } schema { query: Q } schema { query: Q }");
    let a = parse_schema("schema { query: Root } type Root { a: Int }").unwrap();
    let b = parse_schema("extend type Root { b: Other } type Other { x: Int } extend schema { mutation: Other } scalar String").unwrap();
    let s = Schema::build(&[&a, &b]).unwrap();
    assert_eq!(s.query_type.as_deref(), Some("Root"));
    assert_eq!(s.mutation_type.as_deref(), Some("Other"));
    assert!(s.field("Root", "b").is_some());
    assert!(s.field("Root", "__typename").is_some());
    assert!(s.field("Root", "__type").is_some());
    assert!(s.field("Other", "__type").is_none());
    let d = parse_executable("mutation { x } subscription { y }").unwrap();
    let r: Vec<Rule> = validate(&s, &d).into_iter().map(|e| e.rule).collect();
    assert!(r.contains(&Rule::OperationTypeDefined));
    assert!(r.contains(&Rule::LoneAnonymousOperation));
}
