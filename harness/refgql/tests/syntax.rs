//! Hand-written examples from the June 2018 specification text (valid and invalid).
use refgql::*;

fn ok_exec(s: &str) -> Document {
    parse_executable(s).unwrap_or_else(|e| panic!("should parse: {s:?}: {e}"))
}
fn bad_exec(s: &str) {
    assert!(parse_executable(s).is_err(), "should be rejected: {s:?}");
}
fn ok_sdl(s: &str) -> Document {
    parse_schema(s).unwrap_or_else(|e| panic!("should parse: {s:?}: {e}"))
}
fn bad_sdl(s: &str) {
    assert!(parse_schema(s).is_err(), "should be rejected: {s:?}");
}
fn val(s: &str) -> Value {
    parse_value(s).unwrap_or_else(|e| panic!("should parse: {s:?}: {e}"))
}
fn str_val(s: &str) -> String {
    match val(s) {
        Value::String(v) => v.value,
        other => panic!("not a string: {other:?}"),
    }
}
fn round_trip(doc: &Document) {
    let printed = print_document(doc);
    let post = ParseOptions { post_2018: true, ..Default::default() };
    let mut again = parse_with(&printed, DocumentKind::Any, post)
        .unwrap_or_else(|e| panic!("printed form must parse: {e}\n{printed}"))
        .0;
    let mut orig = doc.clone();
    normalize_block_flags(&mut orig);
    normalize_block_flags(&mut again);
    assert_eq!(orig, again, "print/parse round trip\n{printed}");
}

#[test]
fn ignored_tokens() {
    let a = ok_exec("{a b c}");
    let b = ok_exec("\u{FEFF}{ a,,, b\t#comment }{\r\n,c\u{FEFF}\r}");
    assert_eq!(a, b);
    // comment runs to the line terminator, also a lone CR
    assert_eq!(ok_exec("{ a # x\r b }"), ok_exec("{a b}"));
    // commas are ignored everywhere, also between a name and a colon
    assert_eq!(ok_exec("{ a(x,:,1) }"), ok_exec("{ a(x:1) }"));
    // vertical tab / form feed / NBSP are not white space
    bad_exec("{ a\u{b}b }");
    bad_exec("{ a\u{c}b }");
    bad_exec("{ a\u{a0}b }");
    // control characters are not SourceCharacters, also in comments and strings
    bad_exec("{ a } # \u{0}");
    bad_exec("{ a(s: \"\u{1}\") }");
    bad_exec("{ a(s: \"\"\"\u{7}\"\"\") }");
    ok_exec("{ a } # tab\tis fine \u{7f} é 漢");
}

#[test]
fn names_and_punctuators() {
    ok_exec("{ _a_1: __typename }");
    bad_exec("{ 1a }");
    bad_exec("{ a-b }");
    bad_exec("{ a . b }");
    bad_exec("{ ..a }");
    bad_exec("{ a ? }");
    bad_exec("{ é }");
    ok_exec("{ ...a }");
    ok_exec("{ ... a }");
}

#[test]
fn int_values() {
    assert_eq!(val("0"), Value::Int("0".into()));
    assert_eq!(val("-0"), Value::Int("-0".into()));
    assert_eq!(val("123456789012345678901234567890"), Value::Int("123456789012345678901234567890".into()));
    for bad in ["00", "01", "-", "- 1", "+1", "-01", "1_000", "0x1F", "1a", "1.", ".5", "1.e3", "1e", "1e+", "1.5.2", "1.5e3.2", "1ex", "0e", "1.0a", "1_", "12E"] {
        assert!(parse_value(bad).is_err(), "number {bad:?} must be rejected");
    }
    // a number directly followed by a punctuator or an ignored token is fine
    assert_eq!(val("[1,2]"), Value::List(vec![Value::Int("1".into()), Value::Int("2".into())]));
    ok_exec("{ a(x:1)b }");
    ok_exec("{ a(x:-1$b:2) }".replace("$b", " b").as_str());
}

#[test]
fn float_values() {
    for good in ["1.0", "-1.0", "0.0", "1e10", "1E10", "1e+10", "1e-10", "1.5e10", "-0.0e-0", "6.0221413e23", "0e0", "1.000000000000000000000000000000001"] {
        assert_eq!(val(good), Value::Float(good.into()));
    }
}

#[test]
fn number_lookahead_is_an_option() {
    // the June 2018 text has no look-ahead restriction: `0xF1` is the Int `0` followed by the Name `xF1`
    let opts = ParseOptions { lex: LexOptions { number_lookahead: false, ..Default::default() }, ..Default::default() };
    let d = parse_with("{ a(x: [0xF1]) }", DocumentKind::Executable, opts).unwrap().0;
    let d2 = ok_exec("{ a(x: [0 xF1]) }");
    assert_eq!(d, d2);
    bad_exec("{ a(x: [0xF1]) }");
    assert!(parse_with("{ a(x: 1.) }", DocumentKind::Executable, opts).is_err());
    assert!(parse_with("{ a(x: -) }", DocumentKind::Executable, opts).is_err());
}

#[test]
fn string_values() {
    assert_eq!(str_val(r#""""#), "");
    assert_eq!(str_val(r#""simple""#), "simple");
    assert_eq!(str_val(r#"" white space ""#), " white space ");
    assert_eq!(str_val(r#""quote \"""#), "quote \"");
    assert_eq!(str_val(r#""escaped \n\r\b\t\f""#), "escaped \n\r\u{8}\t\u{c}");
    assert_eq!(str_val(r#""slashes \\ \/""#), "slashes \\ /");
    assert_eq!(str_val(r#""unicode ሴ噸邫췯""#), "unicode \u{1234}\u{5678}\u{90AB}\u{CDEF}");
    assert_eq!(str_val(r#""éé""#), "éé");
    assert_eq!(str_val("\"tab\there é 漢 #not a comment, \""), "tab\there é 漢 #not a comment, ");
    assert_eq!(str_val(r#""\u0000""#), "\u{0}");
    assert_eq!(str_val(r#""'""#), "'");
    for bad in [
        r#"""#, r#""abc"#, "\"a\nb\"", "\"a\rb\"", r#""\x""#, r#""\a""#, r#""\'""#, r#""\u12""#, r#""\u12G4""#, r#""\U0041""#,
        r#""\"#, r#""\u""#, r#""a\""#, r#"'a'"#, r#""\ n""#,
    ] {
        assert!(parse_value(bad).is_err(), "string {bad:?} must be rejected");
    }
    // `""` followed by something else is the empty string, `"""` opens a block string
    assert_eq!(val(r#"["" "a"]"#), Value::List(vec![Value::string(""), Value::string("a")]));
}

#[test]
fn block_strings() {
    // the example of section 2.9.4
    let block = "\"\"\"\n    Hello,\n      World!\n\n    Yours,\n      GraphQL.\n  \"\"\"";
    assert_eq!(str_val(block), "Hello,\n  World!\n\nYours,\n  GraphQL.");
    assert_eq!(str_val(r#""Hello,\n  World!\n\nYours,\n  GraphQL.""#), str_val(block));
    assert_eq!(str_val("\"\"\"\"\"\""), "");
    assert_eq!(str_val("\"\"\"simple\"\"\""), "simple");
    assert_eq!(str_val("\"\"\" white space \"\"\""), " white space ");
    assert_eq!(str_val("\"\"\"contains \" quote\"\"\""), "contains \" quote");
    assert_eq!(str_val("\"\"\"contains \\\"\"\" triplequote\"\"\""), "contains \"\"\" triplequote");
    assert_eq!(str_val("\"\"\"multi\nline\"\"\""), "multi\nline");
    assert_eq!(str_val("\"\"\"multi\rline\r\nnormalized\"\"\""), "multi\nline\nnormalized");
    assert_eq!(str_val("\"\"\"unescaped \\n\\r\\b\\t\\f\\u1234\"\"\""), "unescaped \\n\\r\\b\\t\\f\\u1234");
    assert_eq!(str_val("\"\"\"slashes \\\\ \\/\"\"\""), "slashes \\\\ \\/");
    assert_eq!(
        str_val("\"\"\"\n\n        spans\n          multiple\n            lines\n\n        \"\"\""),
        "spans\n  multiple\n    lines"
    );
    // first line is not de-indented and does not take part in the common indent
    assert_eq!(str_val("\"\"\"  a\n    b\n   c\"\"\""), "  a\n b\nc");
    // tabs count as one character of indentation
    assert_eq!(str_val("\"\"\"\n\t\ta\n\t b\"\"\""), "a\nb");
    assert_eq!(str_val("\"\"\"\n\t\ta\n\tb\"\"\""), "\ta\nb");
    // whitespace-only lines do not take part in the common indent, interior ones are kept (cut)
    assert_eq!(str_val("\"\"\"\n    a\n  \n      \n    b\n\"\"\""), "a\n\n  \nb");
    // lone CR, CRLF and LF each are one line terminator
    assert_eq!(str_val("\"\"\"\r  a\r\r  b\r\n  c\"\"\""), "a\n\nb\nc");
    // a quote right before the closing delimiter
    assert_eq!(str_val("\"\"\"a\"\n\"\"\""), "a\"");
    assert_eq!(str_val("\"\"\"\"a\"\"\""), "\"a");
    assert_eq!(str_val("\"\"\"\\\\\"\"\"\"\"\""), "\\\"\"\"");
    assert!(parse_value("\"\"\"a\"\"\"\"").is_err());
    assert!(parse_value("\"\"\"a\"\"").is_err());
    assert!(parse_value("\"\"\"a").is_err());
    assert!(parse_value("\"\"\"\\\"\"\"").is_err());
    // unicode escapes are not escapes in block strings, BOM inside is content
    assert_eq!(str_val("\"\"\"\u{FEFF}x\"\"\""), "\u{FEFF}x");
}

#[test]
fn values() {
    assert_eq!(val("$a"), Value::Variable("a".into()));
    assert_eq!(val("true"), Value::Boolean(true));
    assert_eq!(val("false"), Value::Boolean(false));
    assert_eq!(val("null"), Value::Null);
    assert_eq!(val("RED"), Value::Enum("RED".into()));
    assert_eq!(val("True"), Value::Enum("True".into()));
    assert_eq!(val("[]"), Value::List(vec![]));
    assert_eq!(val("{}"), Value::Object(vec![]));
    assert_eq!(
        val("{a: [1, {b: $c}], a: null}"),
        Value::Object(vec![
            ("a".into(), Value::List(vec![Value::Int("1".into()), Value::Object(vec![("b".into(), Value::Variable("c".into()))])])),
            ("a".into(), Value::Null),
        ])
    );
    for bad in ["[", "{a}", "{a:}", "{: 1}", "{\"a\": 1}", "$", "$1", "[1", "]", "@a", "{a: 1", "()", "a.b"] {
        assert!(parse_value(bad).is_err(), "value {bad:?} must be rejected");
    }
}

#[test]
fn operations() {
    let d = ok_exec("query Q($a: Int = 1, $b: [String!]! = [\"x\"]) @d(x: $a) { f }");
    let Definition::Operation(op) = &d.definitions[0] else { panic!() };
    assert_eq!(op.name.as_deref(), Some("Q"));
    assert!(!op.shorthand);
    assert_eq!(op.variable_definitions[1].ty, Type::non_null(Type::list(Type::non_null(Type::named("String")))));
    assert_eq!(op.variable_definitions[0].default_value, Some(Value::Int("1".into())));
    round_trip(&d);
    ok_exec("mutation { a }");
    ok_exec("subscription S { a }");
    ok_exec("query query { query }");
    ok_exec("query on { on }");
    ok_exec("query ($a: Int) { a }");
    ok_exec("{ a } { b }"); // two anonymous operations: a validation matter
    bad_exec("");
    bad_exec("   # only ignored\n,,");
    bad_exec("query");
    bad_exec("query Q");
    bad_exec("query Q {}");
    bad_exec("{}");
    bad_exec("query Q() { a }");
    bad_exec("query Q($a) { a }");
    bad_exec("query Q($a: ) { a }");
    bad_exec("query Q(a: Int) { a }");
    bad_exec("query Q($a: Int = $b) { a }"); // default values are constant
    bad_exec("query Q($a: Int = [$b]) { a }");
    bad_exec("query Q($a: Int = {x: $b}) { a }");
    bad_exec("Query { a }");
    bad_exec("query Q { a } }");
    bad_exec("{ a ");
    bad_exec("query Q($a: [Int) { a }");
    bad_exec("query Q($a: Int!!) { a }");
    bad_exec("query Q($a: !Int) { a }");
    bad_exec("query Q($a: []) { a }");
    // type system definitions are not executable
    bad_exec("type A { a: Int }");
    bad_exec("{ a } type A { a: Int }");
    assert!(parse_document("{ a } type A { a: Int }").is_ok());
    // June 2018 has no directives on variable definitions
    bad_exec("query Q($a: Int @d) { a }");
    let post = ParseOptions { post_2018: true, ..Default::default() };
    assert!(parse_with("query Q($a: Int = 1 @d) { a }", DocumentKind::Executable, post).is_ok());
}

#[test]
fn fields_fragments_directives() {
    let d = ok_exec(
        "{ alias: field(a: 1, b: \"s\") @skip(if: true) @x { sub ...F ... on T @y { z } ... @inc { w } ... { v } } }
         fragment F on T @dir(a: [1 2]) { q }",
    );
    round_trip(&d);
    let Definition::Operation(op) = &d.definitions[0] else { panic!() };
    let Selection::Field(f) = &op.selection_set.items[0] else { panic!() };
    assert_eq!(f.alias.as_deref(), Some("alias"));
    assert_eq!(f.name, "field");
    assert_eq!(f.directives.len(), 2);
    let items = &f.selection_set.as_ref().unwrap().items;
    assert!(matches!(&items[1], Selection::FragmentSpread(s) if s.name == "F"));
    assert!(matches!(&items[2], Selection::InlineFragment(s) if s.type_condition.as_deref() == Some("T") && s.directives.len() == 1));
    assert!(matches!(&items[3], Selection::InlineFragment(s) if s.type_condition.is_none() && s.directives.len() == 1));
    assert!(matches!(&items[4], Selection::InlineFragment(s) if s.type_condition.is_none() && s.directives.is_empty()));
    bad_exec("fragment on on T { a }");
    ok_exec("fragment onx on on { a }");
    bad_exec("fragment F { a }");
    bad_exec("fragment F on { a }");
    bad_exec("fragment F on T");
    bad_exec("fragment F on T {}");
    bad_exec("{ a() }");
    bad_exec("{ a(x) }");
    bad_exec("{ a(x:) }");
    bad_exec("{ a(x: 1 }");
    bad_exec("{ a: }");
    bad_exec("{ a: b: c }");
    bad_exec("{ :a }");
    bad_exec("{ a @ }");
    bad_exec("{ a @d() }");
    bad_exec("{ ... on }");
    bad_exec("{ ... on T }");
    bad_exec("{ ... }");
    bad_exec("{ ...on }"); // `on` cannot be a fragment name: this is an inline fragment without a type
    ok_exec("{ ...on T { a } }");
    ok_exec("{ ...onx }");
    bad_exec("{ a { } }");
    ok_exec("{ a(x: $v) @d(y: $w) }");
    // keywords are ordinary names in field position
    ok_exec("{ query mutation subscription fragment on true false null type extend }");
}

#[test]
fn type_system_definitions() {
    let d = ok_sdl(
        r#"
        schema @s { query: Q mutation: M subscription: S }
        "scalar desc" scalar Date @d(x: 1)
        """
        Object
          description
        """
        type Q implements & A & B @d { "f desc" f("arg desc" a: Int = 1 @d, b: [T!]! = [{x: ENUM}]): String! @deprecated(reason: "x") g: Int }
        type Empty
        type Impl implements A
        interface A @d { a: Int }
        interface NoFields
        union U @d = | Q | M
        union U2 = Q
        union U3
        enum E @d { "v" A @d B }
        enum E2
        input I @d { "d" a: Int = 1 @d b: [I!] }
        input I2
        directive @d(x: Int) on FIELD | OBJECT
        "dd" directive @e on | QUERY
        "#,
    );
    round_trip(&d);
    let Definition::TypeSystem(TypeSystemDefinition::Object(q)) = &d.definitions[2] else { panic!() };
    assert_eq!(q.description.as_ref().unwrap().value, "Object\n  description");
    assert!(q.description.as_ref().unwrap().block);
    assert_eq!(q.interfaces, vec!["A", "B"]);
    assert_eq!(q.fields[0].arguments[1].default_value, Some(Value::List(vec![Value::Object(vec![("x".into(), Value::Enum("ENUM".into()))])])));
    bad_sdl("type A {}");
    bad_sdl("type A { }");
    bad_sdl("type A { a }");
    bad_sdl("type A { a: }");
    bad_sdl("type A { a(): Int }");
    bad_sdl("type A { a(x): Int }");
    bad_sdl("type A implements { a: Int }");
    bad_sdl("type A implements B C { a: Int }"); // legacy space-separated form is not in June 2018
    bad_sdl("type A implements B & { a: Int }");
    bad_sdl("interface A {}");
    bad_sdl("enum E {}");
    bad_sdl("enum E { true }");
    bad_sdl("enum E { A false }");
    bad_sdl("enum E { null }");
    bad_sdl("input I {}");
    bad_sdl("input I { a: Int = $v }"); // const
    bad_sdl("type A @d(x: $v) { a: Int }"); // Directives[Const]
    bad_sdl("union U =");
    bad_sdl("union U = |");
    bad_sdl("union U = A |");
    bad_sdl("union U = A | | B");
    bad_sdl("union U = || A");
    bad_sdl("schema {}");
    bad_sdl("schema { query Q }");
    bad_sdl("schema { queries: Q }");
    bad_sdl("schema");
    bad_sdl("scalar");
    bad_sdl("directive @d");
    bad_sdl("directive @d on");
    bad_sdl("directive @d on FOO"); // not a DirectiveLocation
    bad_sdl("directive @d on field");
    bad_sdl("directive d on FIELD");
    bad_sdl("directive @d() on FIELD");
    bad_sdl("directive @d on FIELD |");
    bad_sdl("directive @d on || FIELD");
    bad_sdl("\"d\" extend type A { a: Int }"); // extensions carry no description
    bad_sdl("\"d\"");
    bad_sdl("\"d\" \"e\" type A");
    bad_sdl("\"d\" { a }");
    bad_sdl("{ a }"); // executable definition in a type system document
    bad_sdl("type A { a: Int } query { a }");
    // later additions
    bad_sdl("directive @d repeatable on FIELD");
    bad_sdl("directive @d on VARIABLE_DEFINITION");
    bad_sdl("interface A implements B { a: Int }");
    bad_sdl("\"d\" schema { query: Q }");
    let post = ParseOptions { post_2018: true, ..Default::default() };
    for s in ["directive @d repeatable on FIELD", "directive @d on VARIABLE_DEFINITION", "interface A implements B { a: Int }", "\"d\" schema { query: Q }"] {
        let (d, facts) = parse_with(s, DocumentKind::TypeSystem, post).unwrap();
        assert!(facts.used_post_2018);
        round_trip(&d);
    }
}

#[test]
fn comma_in_implements_is_ignored() {
    // "type A implements B, & C" == "type A implements B & C"
    assert_eq!(ok_sdl("type A implements B & C"), parse_schema("type A implements B,&,C").unwrap());
}

#[test]
fn type_system_extensions() {
    let d = ok_sdl(
        r#"
        extend schema @d
        extend schema { mutation: M }
        extend schema @d { subscription: S }
        extend scalar Date @d
        extend type A implements B
        extend type A @d
        extend type A { a: Int }
        extend type A implements B & C @d @e { a(x: Int = 1): Int @d }
        extend interface I @d
        extend interface I { a: Int }
        extend union U @d
        extend union U = A | B
        extend union U @d = | A
        extend enum E @d
        extend enum E { A }
        extend input I @d
        extend input I { a: Int }
        "#,
    );
    assert_eq!(d.definitions.len(), 17);
    round_trip(&d);
    bad_sdl("extend schema");
    bad_sdl("extend scalar Date");
    bad_sdl("extend type A");
    bad_sdl("extend type A {}");
    bad_sdl("extend interface I");
    bad_sdl("extend union U");
    bad_sdl("extend union U =");
    bad_sdl("extend enum E");
    bad_sdl("extend enum E {}");
    bad_sdl("extend input I");
    bad_sdl("extend directive @d on FIELD");
    bad_sdl("extend");
    bad_sdl("extend A { a: Int }");
    bad_sdl("extend type { a: Int }");
    bad_sdl("extend schema {}");
}

#[test]
fn printer_strings() {
    for v in ["", "a", "a\"b", "\\", "\n", "\r\n", "\u{0}\u{1f}\u{7f}", "é漢\u{FEFF}", "\"\"\"", "😀", "\t"] {
        let printed = print_quoted_string(v);
        assert_eq!(str_val(&printed), v, "{printed}");
    }
    // block strings round trip through the printer when they can be written as such
    for v in ["", "a", "a\n  b", "a\n\nb", "\"\"\"", "a\\\"\"\"", "ends with quote\"", "ends with backslash\\", "  lead\nx", "x\n  "] {
        let doc = Document {
            definitions: vec![Definition::TypeSystem(TypeSystemDefinition::Scalar(ScalarTypeDefinition {
                description: Some(StringValue { value: v.to_string(), block: true }),
                name: "S".into(),
                directives: vec![],
                span: Span::default(),
            }))],
        };
        let printed = print_document(&doc);
        let again = parse_schema(&printed).unwrap();
        let Definition::TypeSystem(TypeSystemDefinition::Scalar(s)) = &again.definitions[0] else { panic!() };
        assert_eq!(s.description.as_ref().unwrap().value, v, "{printed}");
    }
}

#[test]
fn deep_nesting_is_an_error_not_a_crash() {
    let s = format!("{{ a(x: {}1{}) }}", "[".repeat(100_000), "]".repeat(100_000));
    assert!(parse_executable(&s).is_err());
    let s = format!("{}a{}", "{ a ".repeat(100_000), "}".repeat(100_000));
    assert!(parse_executable(&s).is_err());
}

#[test]
fn leniencies_are_off_by_default_and_recorded() {
    let lenient = ParseOptions { lenient: Leniency::all(), post_2018: true, ..Default::default() };
    for (src, kind, name) in [
        ("", DocumentKind::Executable, "empty-document"),
        (" # c\n", DocumentKind::TypeSystem, "empty-document"),
        ("extend scalar S", DocumentKind::TypeSystem, "empty-extension"),
        ("extend type T", DocumentKind::TypeSystem, "empty-extension"),
        ("extend interface T", DocumentKind::TypeSystem, "empty-extension"),
        ("extend union T", DocumentKind::TypeSystem, "empty-extension"),
        ("extend enum T", DocumentKind::TypeSystem, "empty-extension"),
        ("extend input T", DocumentKind::TypeSystem, "empty-extension"),
        ("extend schema", DocumentKind::TypeSystem, "empty-extension"),
        ("enum E { A null }", DocumentKind::TypeSystem, "reserved-enum-value"),
        ("fragment on on T { a }", DocumentKind::Executable, "fragment-named-on"),
        ("\"d\" extend type T { a: Int }", DocumentKind::TypeSystem, "description-on-extension"),
        ("\"d\" \"e\" type T { a: Int }", DocumentKind::TypeSystem, "second-description-string"),
        ("type T { \"d\" \"\"\"e\"\"\" a: Int }", DocumentKind::TypeSystem, "second-description-string"),
        ("directive d on FIELD", DocumentKind::TypeSystem, "directive-without-at"),
    ] {
        assert!(parse_with(src, kind, ParseOptions::default()).is_err(), "{src:?} is not grammatical");
        let (_, facts) = parse_with(src, kind, lenient).unwrap_or_else(|e| panic!("{src:?}: {e}"));
        assert!(facts.used_leniencies.contains(&name), "{src:?}: {:?}", facts.used_leniencies);
    }
    // lenient mode does not change the result for grammatical input
    let (d, facts) = parse_with("\"d\" type T { \"e\" a: Int }", DocumentKind::TypeSystem, lenient).unwrap();
    assert!(facts.used_leniencies.is_empty());
    assert_eq!(d, parse_schema("\"d\" type T { \"e\" a: Int }").unwrap());
    // and still rejects what no leniency covers
    assert!(parse_with("type T { \"d\" \"e\" \"f\" a: Int }", DocumentKind::TypeSystem, lenient).is_err());
    assert!(parse_with("input I { \"d\" \"e\" a: Int }", DocumentKind::TypeSystem, lenient).is_err());
}
