//! Tree -> tokens -> text. Every free choice of the written form (escapes, block-string layout,
//! optional punctuation, ignored tokens) is taken from an entropy tape, so a case is a pure
//! function of (tree, tape) and shrinks towards the plainest rendering.
//!
//! The string writers are *inverse constructions* (value -> a source form that denotes it); they do
//! not call the reference lexer.

use refgql::*;

pub struct Tape<'a> {
    data: &'a [u8],
    pos: usize,
}

impl<'a> Tape<'a> {
    pub fn new(data: &'a [u8]) -> Tape<'a> {
        Tape { data, pos: 0 }
    }
    pub fn next(&mut self) -> u8 {
        let b = self.data.get(self.pos).copied().unwrap_or(0);
        self.pos += 1;
        b
    }
    /// 0..n, 0 being the plainest alternative.
    pub fn pick(&mut self, n: usize) -> usize {
        (self.next() as usize) % n.max(1)
    }
    pub fn chance(&mut self, one_in: u8) -> bool {
        let b = self.next();
        b != 0 && b % one_in == 0
    }
}

#[derive(Clone, Copy, Debug, PartialEq, Eq)]
pub enum TokKind {
    Punct,
    Name,
    Int,
    Float,
    Str,
    BlockStr,
    /// Inserted by a mutator (may be anything, also several tokens or none).
    Raw,
}

#[derive(Clone, Debug, PartialEq, Eq)]
pub struct Tok {
    pub kind: TokKind,
    pub text: String,
    /// Mutator: write the next token directly after this one.
    pub glue: bool,
}

impl Tok {
    fn new(kind: TokKind, text: impl Into<String>) -> Tok {
        Tok { kind, text: text.into(), glue: false }
    }
}

/// Does the pair need an ignored token in between to stay two tokens (with the look-ahead
/// restrictions on numbers and the `"""` ambiguity)?
fn needs_separator(a: &Tok, b: &Tok) -> bool {
    use TokKind::*;
    let wordy = |k: TokKind| matches!(k, Name | Int | Float);
    if wordy(a.kind) && wordy(b.kind) {
        return true;
    }
    if matches!(a.kind, Int | Float) && b.text.starts_with('.') {
        return true;
    }
    if matches!(a.kind, Str | BlockStr) && matches!(b.kind, Str | BlockStr) {
        return true;
    }
    false
}

const COMMENTS: &[&str] =
    &["#", "# comment", "#\"", "# é 漢 \u{2028}", "#{ } ( ) \"\"\"", "##", "# \ttab", "#,\u{FEFF}", "# query { a }"];
const LINE_TERMINATORS: &[&str] = &["\n", "\r\n", "\r"];

fn ignored_piece(t: &mut Tape, out: &mut String) {
    match t.pick(10) {
        0 | 1 => out.push(' '),
        2 => out.push('\n'),
        3 => out.push(','),
        4 => out.push('\t'),
        5 => out.push_str("\r\n"),
        6 => out.push('\r'),
        7 => out.push('\u{FEFF}'),
        _ => {
            out.push_str(COMMENTS[t.pick(COMMENTS.len())]);
            out.push_str(LINE_TERMINATORS[t.pick(3)]);
        }
    }
}

fn ignored(t: &mut Tape, required: bool, out: &mut String) {
    let b = t.next();
    if b < 150 {
        if required || b % 2 == 0 {
            out.push(' ');
        }
        return;
    }
    let n = 1 + (b as usize % 3);
    for _ in 0..n {
        ignored_piece(t, out);
    }
}

/// Join tokens with ignored tokens chosen from the tape.
pub fn layout(toks: &[Tok], tape: &mut Tape) -> String {
    let mut out = String::new();
    if tape.chance(7) {
        out.push('\u{FEFF}');
    }
    if tape.chance(5) {
        ignored(tape, false, &mut out);
    }
    for (i, tk) in toks.iter().enumerate() {
        out.push_str(&tk.text);
        if let Some(next) = toks.get(i + 1) {
            if tk.glue {
                continue;
            }
            // mutated tokens are kept apart so that the mutation is the only change
            let required = needs_separator(tk, next) || tk.kind == TokKind::Raw || next.kind == TokKind::Raw;
            ignored(tape, required, &mut out);
        }
    }
    match tape.pick(8) {
        0 | 1 | 2 => out.push('\n'),
        3 => {}
        4 => out.push_str(COMMENTS[tape.pick(COMMENTS.len())]), // comment ended by the end of the text
        _ => ignored(tape, false, &mut out),
    }
    out
}

// -------------------------------------------------------------------------------------------------
// string writers
// -------------------------------------------------------------------------------------------------

/// `"…"`: each character literally (when StringCharacter allows), as its short escape, or as
/// `\uXXXX` with a random hex case.
pub fn write_quoted(value: &str, t: &mut Tape) -> String {
    let mut out = String::from("\"");
    for c in value.chars() {
        let short = match c {
            '"' => Some("\\\""),
            '\\' => Some("\\\\"),
            '/' => Some("\\/"),
            '\u{8}' => Some("\\b"),
            '\u{c}' => Some("\\f"),
            '\n' => Some("\\n"),
            '\r' => Some("\\r"),
            '\t' => Some("\\t"),
            _ => None,
        };
        let literal_ok = !matches!(c, '"' | '\\' | '\n' | '\r') && (c == '\t' || c >= ' ') && (c as u32) <= 0xFFFF;
        let unicode = |t: &mut Tape| {
            let v = c as u32;
            match t.pick(3) {
                0 => format!("\\u{v:04X}"),
                1 => format!("\\u{v:04x}"),
                _ => {
                    // mixed case
                    format!("\\u{v:04X}")
                        .chars()
                        .enumerate()
                        .map(|(i, ch)| if i >= 2 && i % 2 == 0 { ch.to_ascii_lowercase() } else { ch })
                        .collect()
                }
            }
        };
        let choice = t.next();
        if literal_ok && choice < 200 {
            out.push(c);
        } else if let (Some(s), true) = (short, choice % 4 != 3) {
            out.push_str(s);
        } else if (c as u32) <= 0xFFFF {
            out.push_str(&unicode(t));
        } else {
            out.push(c);
        }
    }
    out.push('"');
    out
}

fn white(t: &mut Tape, max: usize) -> String {
    let n = t.pick(max + 1);
    (0..n).map(|_| if t.pick(4) == 3 { '\t' } else { ' ' }).collect()
}

/// `"""…"""` denoting exactly `value` (see `ggen::block_string_value` for the value domain): a
/// base indentation is added to every line after the first, white-space-only lines are added at
/// both ends, line terminators vary, `"""` is written `\"""`.
/// Returns `None` when `value` cannot be denoted by a block string.
pub fn write_block(value: &str, t: &mut Tape) -> Option<String> {
    if value.contains('\r') || value.chars().any(|c| (c < ' ' && c != '\t' && c != '\n') || (c as u32) > 0xFFFF) {
        return None;
    }
    let is_blank = |l: &str| l.chars().all(|c| c == ' ' || c == '\t');
    let indent_of = |l: &str| l.chars().take_while(|c| *c == ' ' || *c == '\t').count();
    let lines: Vec<&str> = value.split('\n').collect();
    // a line terminator to append to `out`; never LF directly after a lone CR (that would be one CRLF)
    let lt = |t: &mut Tape, out: &str| {
        let l = LINE_TERMINATORS[if t.next() < 160 { 0 } else { t.pick(3) }];
        if out.ends_with('\r') && l == "\n" { "\r\n" } else { l }
    };
    if value.is_empty() {
        let mut out = String::from("\"\"\"");
        for _ in 0..t.pick(3) {
            out.push_str(&white(t, 3));
            { let l = lt(t, &out); out.push_str(l); }
        }
        out.push_str(&white(t, 2));
        out.push_str("\"\"\"");
        return Some(out);
    }
    if is_blank(lines[0]) || is_blank(lines[lines.len() - 1]) {
        return None;
    }
    let min_indent = |ls: &[&str]| ls.iter().filter(|l| !is_blank(l)).map(|l| indent_of(l)).min();
    // mode A: the first value line is written on its own line (so it takes part in the common
    // indentation); mode B: it follows the opening quotes directly.
    let mode_a_ok = min_indent(&lines) == Some(0);
    let mode_b_ok = lines.len() == 1 || min_indent(&lines[1..]) == Some(0);
    let mode_a = match (mode_a_ok, mode_b_ok) {
        (true, true) => t.pick(2) == 1,
        (true, false) => true,
        (false, true) => false,
        (false, false) => return None,
    };
    let base = white(t, 4);
    let esc = |l: &str| l.replace("\"\"\"", "\\\"\"\"");
    let mut out = String::from("\"\"\"");
    if mode_a {
        // white-space-only first line(s)
        out.push_str(&white(t, 2));
        { let l = lt(t, &out); out.push_str(l); }
        for _ in 0..t.pick(3) {
            out.push_str(&white(t, 6));
            { let l = lt(t, &out); out.push_str(l); }
        }
    }
    for (i, line) in lines.iter().enumerate() {
        if i == 0 && !mode_a {
            out.push_str(&esc(line));
        } else if line.is_empty() {
            // an empty value line: any white space no longer than the base indentation
            let w = white(t, base.chars().count());
            out.push_str(&w);
        } else {
            out.push_str(&base);
            out.push_str(&esc(line));
        }
        if i + 1 < lines.len() {
            { let l = lt(t, &out); out.push_str(l); }
        }
    }
    let last = lines[lines.len() - 1];
    let must_break = last.ends_with('"') || last.ends_with('\\');
    if must_break || t.pick(2) == 1 {
        for _ in 0..(1 + t.pick(2)) {
            { let l = lt(t, &out); out.push_str(l); }
            out.push_str(&white(t, 6));
        }
    }
    out.push_str("\"\"\"");
    Some(out)
}

// -------------------------------------------------------------------------------------------------
// tree -> tokens
// -------------------------------------------------------------------------------------------------

pub struct Renderer<'a, 'b> {
    pub toks: Vec<Tok>,
    tape: &'b mut Tape<'a>,
}

impl<'a, 'b> Renderer<'a, 'b> {
    pub fn new(tape: &'b mut Tape<'a>) -> Self {
        Renderer { toks: vec![], tape }
    }
    fn p(&mut self, s: &str) {
        self.toks.push(Tok::new(TokKind::Punct, s));
    }
    fn n(&mut self, s: &str) {
        self.toks.push(Tok::new(TokKind::Name, s));
    }
    fn string(&mut self, s: &StringValue) {
        if s.block {
            if let Some(text) = write_block(&s.value, self.tape) {
                self.toks.push(Tok::new(TokKind::BlockStr, text));
                return;
            }
            panic!("generator produced a block string value that no block string denotes: {:?}", s.value);
        }
        let text = write_quoted(&s.value, self.tape);
        self.toks.push(Tok::new(TokKind::Str, text));
    }
    fn value(&mut self, v: &Value) {
        match v {
            Value::Variable(n) => {
                self.p("$");
                self.n(n);
            }
            Value::Int(t) => self.toks.push(Tok::new(TokKind::Int, t.clone())),
            Value::Float(t) => self.toks.push(Tok::new(TokKind::Float, t.clone())),
            Value::String(s) => self.string(s),
            Value::Boolean(b) => self.n(if *b { "true" } else { "false" }),
            Value::Null => self.n("null"),
            Value::Enum(e) => self.n(e),
            Value::List(items) => {
                self.p("[");
                for i in items {
                    self.value(i);
                }
                self.p("]");
            }
            Value::Object(fields) => {
                self.p("{");
                for (n, v) in fields {
                    self.n(n);
                    self.p(":");
                    self.value(v);
                }
                self.p("}");
            }
        }
    }
    fn ty(&mut self, t: &Type) {
        match t {
            Type::Named(n) => self.n(n),
            Type::List(t) => {
                self.p("[");
                self.ty(t);
                self.p("]");
            }
            Type::NonNull(t) => {
                self.ty(t);
                self.p("!");
            }
        }
    }
    fn arguments(&mut self, args: &[Argument]) {
        if args.is_empty() {
            return;
        }
        self.p("(");
        for a in args {
            self.n(&a.name);
            self.p(":");
            self.value(&a.value);
        }
        self.p(")");
    }
    fn directives(&mut self, ds: &[Directive]) {
        for d in ds {
            self.p("@");
            self.n(&d.name);
            self.arguments(&d.arguments);
        }
    }
    fn selection_set(&mut self, s: &SelectionSet) {
        self.p("{");
        for sel in &s.items {
            match sel {
                Selection::Field(f) => {
                    if let Some(a) = &f.alias {
                        self.n(a);
                        self.p(":");
                    }
                    self.n(&f.name);
                    self.arguments(&f.arguments);
                    self.directives(&f.directives);
                    if let Some(s) = &f.selection_set {
                        self.selection_set(s);
                    }
                }
                Selection::FragmentSpread(f) => {
                    self.p("...");
                    self.n(&f.name);
                    self.directives(&f.directives);
                }
                Selection::InlineFragment(f) => {
                    self.p("...");
                    if let Some(t) = &f.type_condition {
                        self.n("on");
                        self.n(t);
                    }
                    self.directives(&f.directives);
                    self.selection_set(&f.selection_set);
                }
            }
        }
        self.p("}");
    }
    fn description(&mut self, d: &Option<StringValue>) {
        if let Some(d) = d {
            self.string(d);
        }
    }
    fn input_values(&mut self, open: &str, close: &str, vs: &[InputValueDefinition]) {
        if vs.is_empty() {
            return;
        }
        self.p(open);
        for v in vs {
            self.description(&v.description);
            self.n(&v.name);
            self.p(":");
            self.ty(&v.ty);
            if let Some(d) = &v.default_value {
                self.p("=");
                self.value(d);
            }
            self.directives(&v.directives);
        }
        self.p(close);
    }
    fn fields(&mut self, fs: &[FieldDefinition]) {
        if fs.is_empty() {
            return;
        }
        self.p("{");
        for f in fs {
            self.description(&f.description);
            self.n(&f.name);
            self.input_values("(", ")", &f.arguments);
            self.p(":");
            self.ty(&f.ty);
            self.directives(&f.directives);
        }
        self.p("}");
    }
    fn implements(&mut self, interfaces: &[String]) {
        if interfaces.is_empty() {
            return;
        }
        self.n("implements");
        if self.tape.chance(3) {
            self.p("&");
        }
        for (i, n) in interfaces.iter().enumerate() {
            if i > 0 {
                self.p("&");
            }
            self.n(n);
        }
    }
    fn piped(&mut self, names: &[String]) {
        if self.tape.chance(3) {
            self.p("|");
        }
        for (i, n) in names.iter().enumerate() {
            if i > 0 {
                self.p("|");
            }
            self.n(n);
        }
    }
    fn operation_types(&mut self, ops: &[(OperationKind, String)]) {
        if ops.is_empty() {
            return;
        }
        self.p("{");
        for (k, n) in ops {
            self.n(k.as_str());
            self.p(":");
            self.n(n);
        }
        self.p("}");
    }

    pub fn document(&mut self, doc: &Document) {
        for d in &doc.definitions {
            match d {
                Definition::Operation(op) => {
                    if !op.shorthand {
                        self.n(op.kind.as_str());
                        if let Some(n) = &op.name {
                            self.n(n);
                        }
                        if !op.variable_definitions.is_empty() {
                            self.p("(");
                            for v in &op.variable_definitions {
                                self.p("$");
                                self.n(&v.name);
                                self.p(":");
                                self.ty(&v.ty);
                                if let Some(d) = &v.default_value {
                                    self.p("=");
                                    self.value(d);
                                }
                                self.directives(&v.directives);
                            }
                            self.p(")");
                        }
                        self.directives(&op.directives);
                    }
                    self.selection_set(&op.selection_set);
                }
                Definition::Fragment(f) => {
                    self.n("fragment");
                    self.n(&f.name);
                    self.n("on");
                    self.n(&f.type_condition);
                    self.directives(&f.directives);
                    self.selection_set(&f.selection_set);
                }
                Definition::TypeSystem(t) => self.type_system(t),
                Definition::Extension(e) => self.extension(e),
            }
        }
    }

    fn type_system(&mut self, t: &TypeSystemDefinition) {
        match t {
            TypeSystemDefinition::Schema(s) => {
                self.description(&s.description);
                self.n("schema");
                self.directives(&s.directives);
                self.operation_types(&s.operation_types);
            }
            TypeSystemDefinition::Scalar(s) => {
                self.description(&s.description);
                self.scalar(s);
            }
            TypeSystemDefinition::Object(s) => {
                self.description(&s.description);
                self.object(s);
            }
            TypeSystemDefinition::Interface(s) => {
                self.description(&s.description);
                self.interface(s);
            }
            TypeSystemDefinition::Union(s) => {
                self.description(&s.description);
                self.union(s);
            }
            TypeSystemDefinition::Enum(s) => {
                self.description(&s.description);
                self.enum_(s);
            }
            TypeSystemDefinition::InputObject(s) => {
                self.description(&s.description);
                self.input(s);
            }
            TypeSystemDefinition::Directive(d) => {
                self.description(&d.description);
                self.n("directive");
                self.p("@");
                self.n(&d.name);
                self.input_values("(", ")", &d.arguments);
                if d.repeatable {
                    self.n("repeatable");
                }
                self.n("on");
                self.piped(&d.locations);
            }
        }
    }
    fn extension(&mut self, e: &TypeSystemExtension) {
        self.n("extend");
        match e {
            TypeSystemExtension::Schema(s) => {
                self.n("schema");
                self.directives(&s.directives);
                self.operation_types(&s.operation_types);
            }
            TypeSystemExtension::Scalar(s) => self.scalar(s),
            TypeSystemExtension::Object(s) => self.object(s),
            TypeSystemExtension::Interface(s) => self.interface(s),
            TypeSystemExtension::Union(s) => self.union(s),
            TypeSystemExtension::Enum(s) => self.enum_(s),
            TypeSystemExtension::InputObject(s) => self.input(s),
        }
    }
    fn scalar(&mut self, s: &ScalarTypeDefinition) {
        self.n("scalar");
        self.n(&s.name);
        self.directives(&s.directives);
    }
    fn object(&mut self, s: &ObjectTypeDefinition) {
        self.n("type");
        self.n(&s.name);
        self.implements(&s.interfaces);
        self.directives(&s.directives);
        self.fields(&s.fields);
    }
    fn interface(&mut self, s: &InterfaceTypeDefinition) {
        self.n("interface");
        self.n(&s.name);
        self.implements(&s.interfaces);
        self.directives(&s.directives);
        self.fields(&s.fields);
    }
    fn union(&mut self, s: &UnionTypeDefinition) {
        self.n("union");
        self.n(&s.name);
        self.directives(&s.directives);
        if !s.members.is_empty() {
            self.p("=");
            self.piped(&s.members);
        }
    }
    fn enum_(&mut self, s: &EnumTypeDefinition) {
        self.n("enum");
        self.n(&s.name);
        self.directives(&s.directives);
        if !s.values.is_empty() {
            self.p("{");
            for v in &s.values {
                self.description(&v.description);
                self.n(&v.name);
                self.directives(&v.directives);
            }
            self.p("}");
        }
    }
    fn input(&mut self, s: &InputObjectTypeDefinition) {
        self.n("input");
        self.n(&s.name);
        self.directives(&s.directives);
        self.input_values("{", "}", &s.fields);
    }
}

/// Tree + tape -> (tokens, text).
pub fn render(doc: &Document, tape_data: &[u8]) -> (Vec<Tok>, String) {
    let mut tape = Tape::new(tape_data);
    let mut r = Renderer::new(&mut tape);
    r.document(doc);
    let toks = r.toks;
    let text = layout(&toks, &mut tape);
    (toks, text)
}

// -------------------------------------------------------------------------------------------------
// token-level mutators
// -------------------------------------------------------------------------------------------------

const POOL: &[&str] = &[
    "!", "$", "&", "(", ")", "...", ":", "=", "@", "[", "]", "{", "}", "|", ".", "..", "{", "}", "(", ")",
    "query", "mutation", "subscription", "fragment", "on", "true", "false", "null", "type", "interface", "union", "enum",
    "input", "scalar", "schema", "directive", "extend", "implements", "repeatable", "a", "T", "FIELD", "SCHEMA",
    "VARIABLE_DEFINITION", "0", "-0", "7", "00", "01", "-", "1.", ".5", "1e", "1e+", "1.0e", "0x1", "1a", "1_0", "-01",
    "9223372036854775808", "1.5", "-1e-3", "1.5.2", "+1", "\"\"", "\"a\"", "\"\\\\\"", "\"\\u00e9\"", "\"\\u00E9\\n\"",
    "\"\"\"a\"\"\"", "\"\"\"\"\"\"", "\"a", "\"\"\"a", "\"\\x\"", "\"\\u12\"", "\"\\uD83D\\uDE00\"", "\"\"\"\\\"\"\"\"\"\"",
    "\"", "\"\"\"", "%", "?", "~", "*", "'a'", "#c\n", "$a", "@d", "a:1", "[1 2]", "{a:1}",
];

const NUMBER_TWEAKS: &[(&str, &str)] = &[
    ("0", ""), ("", "."), ("", "e"), ("", "x"), ("", ".5"), ("-", ""), ("+", ""), ("", "_1"), ("", "0"), ("", "e+"), ("", ".e1"),
    ("", "a"), ("00", ""), ("", "E5"), ("", ".0"),
];

/// Apply token-level mutations. Everything written is made of SourceCharacters.
pub fn mutate(toks: &[Tok], muts: &[(u8, u16, u16)]) -> Vec<Tok> {
    let mut v: Vec<Tok> = toks.to_vec();
    for &(op, at, arg) in muts {
        if v.is_empty() {
            v.push(Tok::new(TokKind::Raw, POOL[arg as usize % POOL.len()]));
            continue;
        }
        let i = vcore::pick_index(at, v.len());
        let raw = || Tok::new(TokKind::Raw, POOL[arg as usize % POOL.len()]);
        match op {
            0 => {
                v.remove(i);
            }
            1 => {
                let t = v[i].clone();
                v.insert(i, t);
            }
            2 => {
                if i + 1 < v.len() {
                    v.swap(i, i + 1);
                }
            }
            3 => v[i] = raw(),
            4 => v.insert(i, raw()),
            5 => v[i].glue = true,
            6 => {
                // number tweak on the nearest number token (else replace)
                if let Some(j) = (i..v.len()).chain(0..i).find(|&j| matches!(v[j].kind, TokKind::Int | TokKind::Float)) {
                    let (pre, post) = NUMBER_TWEAKS[arg as usize % NUMBER_TWEAKS.len()];
                    let text = format!("{pre}{}{post}", v[j].text);
                    v[j] = Tok::new(TokKind::Raw, text);
                } else {
                    v[i] = raw();
                }
            }
            7 => {
                // string tweak on the nearest string token (else replace)
                if let Some(j) = (i..v.len()).chain(0..i).find(|&j| matches!(v[j].kind, TokKind::Str | TokKind::BlockStr)) {
                    let s = v[j].text.clone();
                    let block = v[j].kind == TokKind::BlockStr;
                    let (lo, hi) = if block { (3, s.len() - 3) } else { (1, s.len() - 1) };
                    let target = lo + (arg as usize / 8) % (hi - lo + 1);
                    let mid = (target..=hi).find(|&k| s.is_char_boundary(k)).unwrap_or(hi);
                    let text = match arg % 8 {
                        0 => s[..s.len() - 1].to_string(),                   // drop the last quote
                        1 => format!("{}\\q{}", &s[..mid], &s[mid..]),        // invalid escape (or content, in a block string)
                        2 => format!("{}\n{}", &s[..mid], &s[mid..]),         // line terminator
                        3 => format!("{}\\u12{}", &s[..mid], &s[mid..]),      // short unicode escape
                        4 => format!("{s}\""),                               // one more quote
                        5 => format!("{}\"{}", &s[..mid], &s[mid..]),         // quote inside
                        6 => format!("{}\\{}", &s[..mid], &s[mid..]),         // backslash inside
                        _ => format!("{}\r{}", &s[..mid], &s[mid..]),         // lone carriage return
                    };
                    v[j] = Tok::new(TokKind::Raw, text);
                } else {
                    v[i] = raw();
                }
            }
            8 => v.truncate(i.max(1)),
            9 => {
                // a name becomes a keyword / another name
                if let Some(j) = (i..v.len()).chain(0..i).find(|&j| v[j].kind == TokKind::Name) {
                    let kws = ["on", "true", "false", "null", "extend", "implements", "fragment", "query", "type", "repeatable", "x"];
                    v[j] = Tok::new(TokKind::Name, kws[arg as usize % kws.len()]);
                }
            }
            10 => {
                // remove a matching pair's closing token or duplicate an opening one
                if let Some(j) = (i..v.len()).chain(0..i).find(|&j| matches!(v[j].text.as_str(), "{" | "}" | "(" | ")" | "[" | "]")) {
                    if arg % 2 == 0 {
                        v.remove(j);
                    } else {
                        let t = v[j].clone();
                        v.insert(j, t);
                    }
                }
            }
            _ => {
                // insert a punctuator
                let ps = ["!", "&", "|", "=", ":", "@", "$", "...", ","];
                v.insert(i, Tok::new(TokKind::Raw, ps[arg as usize % ps.len()]));
            }
        }
    }
    v
}
