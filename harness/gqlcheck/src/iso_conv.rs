//! isograph `graphql_lang_types` trees -> `refgql` trees (plain transcription).
//!
//! isograph's tree keeps numbers by value (i64 / f64) and the root operation types of a schema
//! definition in fixed slots, so both sides are normalised with [`normalize_reference`] before they
//! are compared: ints and floats by value, operation types ordered query, mutation, subscription.

use common_lang_types::WithEmbeddedLocation;
use graphql_lang_types as gl;
use refgql::*;

#[derive(Clone, Copy, PartialEq, Eq)]
pub enum Strings {
    AsParsed,
    /// The value the specification assigns to the source text at the node's location.
    SpecValueOfToken,
}

pub struct IsoConv<'a> {
    pub src: &'a str,
    pub strings: Strings,
    /// (raw source text, isograph's value, is block, is description)
    pub string_nodes: Vec<(String, String, bool, bool)>,
}

fn sp() -> Span {
    Span::default()
}

pub fn float_norm(f: f64) -> String {
    format!("{f:?}")
}

impl<'a> IsoConv<'a> {
    pub fn new(src: &'a str, strings: Strings) -> Self {
        IsoConv { src, strings, string_nodes: vec![] }
    }

    fn slice(&self, span: common_lang_types::Span) -> &'a str {
        self.src.get(span.start as usize..span.end as usize).unwrap_or("")
    }

    fn string(&mut self, value: String, span: common_lang_types::Span, description: bool) -> StringValue {
        let raw = self.slice(span).to_string();
        let block = raw.starts_with("\"\"\"");
        self.string_nodes.push((raw.clone(), value.clone(), block, description));
        let value = match self.strings {
            Strings::AsParsed => value,
            Strings::SpecValueOfToken => match refgql::parse_value(&raw) {
                Ok(Value::String(s)) => s.value,
                _ => value,
            },
        };
        StringValue { value, block }
    }

    fn description(&mut self, d: &Option<WithEmbeddedLocation<common_lang_types::DescriptionValue>>) -> Option<StringValue> {
        d.as_ref().map(|d| self.string(d.item.to_string(), d.location.span, true))
    }

    fn value(&mut self, v: &WithEmbeddedLocation<gl::GraphQLConstantValue>) -> Value {
        match &v.item {
            gl::GraphQLConstantValue::Int(i) => Value::Int(i.to_string()),
            gl::GraphQLConstantValue::Float(f) => Value::Float(float_norm(f.as_float())),
            gl::GraphQLConstantValue::String(s) => Value::String(self.string(s.to_string(), v.location.span, false)),
            gl::GraphQLConstantValue::Boolean(b) => Value::Boolean(*b),
            gl::GraphQLConstantValue::Null => Value::Null,
            gl::GraphQLConstantValue::Enum(e) => Value::Enum(e.to_string()),
            gl::GraphQLConstantValue::List(l) => Value::List(l.iter().map(|x| self.value(x)).collect()),
            gl::GraphQLConstantValue::Object(o) => {
                Value::Object(o.iter().map(|p| (p.name.item.to_string(), self.value(&p.value))).collect())
            }
        }
    }

    fn ty(&mut self, t: &gl::GraphQLTypeAnnotation) -> Type {
        match t {
            gl::GraphQLTypeAnnotation::Named(n) => Type::Named(n.0.to_string()),
            gl::GraphQLTypeAnnotation::List(l) => Type::list(self.ty(&l.0.item)),
            gl::GraphQLTypeAnnotation::NonNull(nn) => match nn.as_ref() {
                gl::GraphQLNonNullTypeAnnotation::Named(n) => Type::non_null(Type::Named(n.0.to_string())),
                gl::GraphQLNonNullTypeAnnotation::List(l) => Type::non_null(Type::list(self.ty(&l.0.item))),
            },
        }
    }

    fn directives(&mut self, ds: &[gl::GraphQLDirective<gl::GraphQLConstantValue>]) -> Vec<Directive> {
        ds.iter()
            .map(|d| Directive {
                name: d.name.item.to_string(),
                arguments: d
                    .arguments
                    .iter()
                    .map(|a| Argument { name: a.name.item.to_string(), value: self.value(&a.value), span: sp() })
                    .collect(),
                span: sp(),
            })
            .collect()
    }

    fn input_values(&mut self, vs: &[WithEmbeddedLocation<gl::GraphQLInputValueDefinition>]) -> Vec<InputValueDefinition> {
        vs.iter()
            .map(|v| {
                let v = &v.item;
                InputValueDefinition {
                    description: self.description(&v.description),
                    name: v.name.item.to_string(),
                    ty: self.ty(&v.type_.item),
                    default_value: v.default_value.as_ref().map(|d| self.value(d)),
                    directives: self.directives(&v.directives),
                    span: sp(),
                }
            })
            .collect()
    }

    fn fields(&mut self, fs: &[WithEmbeddedLocation<gl::GraphQLFieldDefinition>]) -> Vec<FieldDefinition> {
        fs.iter()
            .map(|f| {
                let f = &f.item;
                FieldDefinition {
                    description: self.description(&f.description),
                    name: f.name.item.to_string(),
                    arguments: self.input_values(&f.arguments),
                    ty: self.ty(&f.type_.item),
                    directives: self.directives(&f.directives),
                    span: sp(),
                }
            })
            .collect()
    }

    fn names(&mut self, ns: &[WithEmbeddedLocation<common_lang_types::EntityName>]) -> Vec<String> {
        ns.iter().map(|n| n.item.to_string()).collect()
    }

    pub fn definition(&mut self, d: &gl::GraphQLTypeSystemDefinition) -> Definition {
        use gl::GraphQLTypeSystemDefinition as D;
        Definition::TypeSystem(match d {
            D::ObjectTypeDefinition(o) => TypeSystemDefinition::Object(ObjectTypeDefinition {
                description: self.description(&o.description),
                name: o.name.item.to_string(),
                interfaces: self.names(&o.interfaces),
                directives: self.directives(&o.directives),
                fields: self.fields(&o.fields),
                span: sp(),
            }),
            D::ScalarTypeDefinition(s) => TypeSystemDefinition::Scalar(ScalarTypeDefinition {
                description: self.description(&s.description),
                name: s.name.item.to_string(),
                directives: self.directives(&s.directives),
                span: sp(),
            }),
            D::InterfaceTypeDefinition(o) => TypeSystemDefinition::Interface(InterfaceTypeDefinition {
                description: self.description(&o.description),
                name: o.name.item.to_string(),
                interfaces: self.names(&o.interfaces),
                directives: self.directives(&o.directives),
                fields: self.fields(&o.fields),
                span: sp(),
            }),
            D::InputObjectTypeDefinition(o) => TypeSystemDefinition::InputObject(InputObjectTypeDefinition {
                description: self.description(&o.description),
                name: o.name.item.to_string(),
                directives: self.directives(&o.directives),
                fields: self.input_values(&o.fields),
                span: sp(),
            }),
            D::DirectiveDefinition(o) => TypeSystemDefinition::Directive(DirectiveDefinition {
                description: self.description(&o.description),
                name: o.name.item.to_string(),
                arguments: self.input_values(&o.arguments),
                repeatable: o.repeatable.is_some(),
                locations: o.locations.iter().map(|l| location_name(l.item)).collect(),
                span: sp(),
            }),
            D::EnumDefinition(o) => TypeSystemDefinition::Enum(EnumTypeDefinition {
                description: self.description(&o.description),
                name: o.name.item.to_string(),
                directives: self.directives(&o.directives),
                values: o
                    .enum_value_definitions
                    .iter()
                    .map(|v| EnumValueDefinition {
                        description: self.description(&v.item.description),
                        name: v.item.value.item.to_string(),
                        directives: self.directives(&v.item.directives),
                        span: sp(),
                    })
                    .collect(),
                span: sp(),
            }),
            D::UnionTypeDefinition(o) => TypeSystemDefinition::Union(UnionTypeDefinition {
                description: self.description(&o.description),
                name: o.name.item.to_string(),
                directives: self.directives(&o.directives),
                members: self.names(&o.union_member_types),
                span: sp(),
            }),
            D::SchemaDefinition(o) => {
                let mut operation_types = vec![];
                if let Some(q) = &o.query {
                    operation_types.push((OperationKind::Query, q.item.to_string()));
                }
                if let Some(q) = &o.mutation {
                    operation_types.push((OperationKind::Mutation, q.item.to_string()));
                }
                if let Some(q) = &o.subscription {
                    operation_types.push((OperationKind::Subscription, q.item.to_string()));
                }
                TypeSystemDefinition::Schema(SchemaDefinition {
                    description: self.description(&o.description),
                    directives: self.directives(&o.directives),
                    operation_types,
                    span: sp(),
                })
            }
        })
    }

    pub fn extension(&mut self, e: &gl::GraphQLTypeSystemExtension) -> Definition {
        match e {
            gl::GraphQLTypeSystemExtension::ObjectTypeExtension(o) => {
                Definition::Extension(TypeSystemExtension::Object(ObjectTypeDefinition {
                    description: None,
                    name: o.name.item.to_string(),
                    interfaces: self.names(&o.interfaces),
                    directives: self.directives(&o.directives),
                    fields: self.fields(&o.fields),
                    span: sp(),
                }))
            }
        }
    }

    pub fn document(&mut self, d: &gl::GraphQLTypeSystemDocument) -> Document {
        Document { definitions: d.0.iter().map(|x| self.definition(&x.item)).collect() }
    }

    pub fn extension_document(&mut self, d: &gl::GraphQLTypeSystemExtensionDocument) -> Document {
        Document {
            definitions: d
                .0
                .iter()
                .map(|x| match &x.item {
                    gl::GraphQLTypeSystemExtensionOrDefinition::Definition(d) => self.definition(d),
                    gl::GraphQLTypeSystemExtensionOrDefinition::Extension(e) => self.extension(e),
                })
                .collect(),
        }
    }
}

/// `FragmentDefinition` -> `FRAGMENT_DEFINITION` (from the variant's Debug name, so that new
/// variants need no change here).
fn location_name(l: gl::DirectiveLocation) -> String {
    let camel = format!("{l:?}");
    let mut out = String::new();
    for (i, c) in camel.chars().enumerate() {
        if c.is_ascii_uppercase() && i > 0 {
            out.push('_');
        }
        out.push(c.to_ascii_uppercase());
    }
    out
}

fn norm_value(v: &mut Value) {
    match v {
        Value::Int(t) => {
            if let Ok(i) = t.parse::<i64>() {
                *t = i.to_string();
            }
        }
        Value::Float(t) => {
            if let Ok(f) = t.parse::<f64>() {
                *t = float_norm(f);
            }
        }
        Value::List(l) => l.iter_mut().for_each(norm_value),
        Value::Object(o) => o.iter_mut().for_each(|(_, v)| norm_value(v)),
        _ => {}
    }
}

fn norm_directives(ds: &mut [Directive]) {
    for d in ds {
        for a in &mut d.arguments {
            norm_value(&mut a.value);
        }
    }
}

fn norm_input_values(vs: &mut [InputValueDefinition]) {
    for v in vs {
        if let Some(d) = &mut v.default_value {
            norm_value(d);
        }
        norm_directives(&mut v.directives);
    }
}

fn norm_fields(fs: &mut [FieldDefinition]) {
    for f in fs {
        norm_input_values(&mut f.arguments);
        norm_directives(&mut f.directives);
    }
}

/// Bring a reference tree into the form isograph's tree can express (see module doc).
pub fn normalize_reference(doc: &mut Document) {
    for d in &mut doc.definitions {
        match d {
            Definition::TypeSystem(TypeSystemDefinition::Schema(s)) | Definition::Extension(TypeSystemExtension::Schema(s)) => {
                norm_directives(&mut s.directives);
                s.operation_types.sort_by_key(|(k, _)| *k);
            }
            Definition::TypeSystem(TypeSystemDefinition::Scalar(s)) | Definition::Extension(TypeSystemExtension::Scalar(s)) => {
                norm_directives(&mut s.directives)
            }
            Definition::TypeSystem(TypeSystemDefinition::Object(s)) | Definition::Extension(TypeSystemExtension::Object(s)) => {
                norm_directives(&mut s.directives);
                norm_fields(&mut s.fields);
            }
            Definition::TypeSystem(TypeSystemDefinition::Interface(s))
            | Definition::Extension(TypeSystemExtension::Interface(s)) => {
                norm_directives(&mut s.directives);
                norm_fields(&mut s.fields);
            }
            Definition::TypeSystem(TypeSystemDefinition::Union(s)) | Definition::Extension(TypeSystemExtension::Union(s)) => {
                norm_directives(&mut s.directives)
            }
            Definition::TypeSystem(TypeSystemDefinition::Enum(s)) | Definition::Extension(TypeSystemExtension::Enum(s)) => {
                norm_directives(&mut s.directives);
                for v in &mut s.values {
                    norm_directives(&mut v.directives);
                }
            }
            Definition::TypeSystem(TypeSystemDefinition::InputObject(s))
            | Definition::Extension(TypeSystemExtension::InputObject(s)) => {
                norm_directives(&mut s.directives);
                norm_input_values(&mut s.fields);
            }
            Definition::TypeSystem(TypeSystemDefinition::Directive(s)) => norm_input_values(&mut s.arguments),
            _ => {}
        }
    }
}
