//! Thorough tier: coverage-guided byte fuzzing (libFuzzer, `harness/fuzz/fuzz_targets/gql_*.rs`)
//! with the differential oracle inside the target.
//!
//! The target calls [`check_bytes`]; an unlisted failure panics, libFuzzer stores the input as an
//! artifact, and [`campaign`] (run by `./check C29|C30 --tier thorough`) turns the artifact into an
//! ordinary replay file by re-running the text in-process.
use crate::{c29, c30};
use std::path::PathBuf;
use std::process::Command;
use std::sync::OnceLock;
use vcore::{Args, Fail, Report, Tier};

#[derive(Clone, Copy, Debug, PartialEq, Eq)]
pub enum Target {
    Relay,
    Iso,
}

impl Target {
    pub fn property(self) -> &'static str {
        match self {
            Target::Relay => "C29",
            Target::Iso => "C30",
        }
    }
    pub fn fuzz_target(self) -> &'static str {
        match self {
            Target::Relay => "gql_relay",
            Target::Iso => "gql_iso_schema",
        }
    }
}

fn fuzz_report(target: Target) -> &'static Report {
    static RELAY: OnceLock<Report> = OnceLock::new();
    static ISO: OnceLock<Report> = OnceLock::new();
    let cell = match target {
        Target::Relay => &RELAY,
        Target::Iso => &ISO,
    };
    cell.get_or_init(|| {
        let args = Args { property: target.property().to_string(), tier: Tier::Thorough, seed: 0, replay: None, rest: vec![] };
        Report::new(&args, "exploration", "libFuzzer")
    })
}

/// Both entry points of the property on one text (the first byte is not special: every input is
/// run against both).
pub fn check_text(report: &Report, target: Target, text: &str) -> Result<(), Fail> {
    match target {
        Target::Relay => {
            c29::check_text(report, c29::Kind::Executable, text)?;
            c29::check_text(report, c29::Kind::Schema, text)?;
        }
        Target::Iso => {
            c30::check_text(report, c30::Entry::Schema, text)?;
            c30::check_text(report, c30::Entry::Extensions, text)?;
        }
    }
    Ok(())
}

/// Called by the libFuzzer targets. Inputs that are not UTF-8 are skipped (the parsers take `&str`).
pub fn check_bytes(target: Target, data: &[u8]) {
    let Ok(text) = std::str::from_utf8(data) else { return };
    if let Err(f) = check_text(fuzz_report(target), target, text) {
        panic!("VIOLATION {} {}\n{}", target.property(), f.signature, f.message);
    }
}

const GOLDEN: &[&str] = &[
    "query Q($a: Int = 1, $b: [String!]! = [\"x\"]) @d(x: $a) { alias: f(a: 1.5e3, b: \"s\\n\\u0041\") @skip(if: true) { ...F ... on T { z } } }\nfragment F on T { q(o: {a: [1, {b: null}], e: RED}) }",
    "{ a(s: \"\"\"\n    block \\\"\"\" string\n      indented\n  \"\"\") }",
    "\"desc\" type Q implements A & B @d { \"f\" f(\"arg\" a: Int = 1 @d, b: [T!]! = [{x: ENUM}]): String! @deprecated(reason: \"x\") }\ninterface A { a: Int }\nunion U = | Q | M\nenum E { A B }\ninput I { a: Int = 1 }\ndirective @d(x: Int) on FIELD | OBJECT\nscalar Date\nschema { query: Q }",
    "extend type A implements B & C @d { a(x: Int = 1): Int }\nextend schema @d { mutation: M }\nextend union U = A\nextend enum E { C }\nextend input I { b: Int }\nextend scalar Date @d\nextend interface A { b: Int }",
    "\"\"\"\n  Multi\n    line\n\"\"\"\ntype T { \"\"\"x\"\"\" a(b: Float = -0.5e-3, c: ID = \"\\\"\"): [Int!]! }",
];

/// Build the fuzz target, run `runs` executions from a fresh corpus of golden seeds, and report
/// a crash as a violation of `report`'s property. A build problem is noted as inconclusive for the
/// campaign only.
pub fn campaign(report: &Report, target: Target, runs: u64) {
    report.engine("libfuzzer");
    let fuzz_dir = vcore::verif_root().join("harness/fuzz");
    if !fuzz_dir.join("Cargo.toml").exists() {
        report.note_inconclusive("libfuzzer: harness/fuzz is missing");
        return;
    }
    let scratch = vcore::scratch_base().join(format!("fuzz-{}", target.fuzz_target()));
    let corpus = scratch.join("corpus");
    let artifacts = scratch.join("artifacts");
    let _ = std::fs::remove_dir_all(&scratch);
    std::fs::create_dir_all(&corpus).expect("corpus dir");
    std::fs::create_dir_all(&artifacts).expect("artifact dir");
    for (i, g) in GOLDEN.iter().enumerate() {
        std::fs::write(corpus.join(format!("golden-{i}")), g).expect("seed");
    }
    let target_dir = std::env::var("VERIF_FUZZ_TARGET_DIR")
        .map(PathBuf::from)
        .unwrap_or_else(|_| fuzz_dir.join("target"));
    let mut cmd = Command::new("cargo");
    cmd.current_dir(&fuzz_dir)
        .env("CARGO_NET_OFFLINE", "true")
        .env("CARGO_TARGET_DIR", &target_dir)
        .env("VERIF_ROOT", vcore::verif_root())
        .env_remove("RUSTFLAGS")
        .args(["+nightly", "fuzz", "run", "--fuzz-dir", ".", "-s", "none", target.fuzz_target()])
        .arg(&corpus)
        .arg("--")
        .arg(format!("-seed={}", (report.seed % 0xffff_fffe) + 1))
        .arg(format!("-runs={runs}"))
        .arg(format!("-artifact_prefix={}/", artifacts.display()))
        .args(["-max_len=512", "-timeout=20", "-print_final_stats=1", "-verbosity=0"]);
    let out = match cmd.output() {
        Ok(o) => o,
        Err(e) => {
            report.note_inconclusive(&format!("libfuzzer: cannot start cargo fuzz: {e}"));
            return;
        }
    };
    let text = format!("{}{}", String::from_utf8_lossy(&out.stdout), String::from_utf8_lossy(&out.stderr));
    let stat = |key: &str| {
        text.lines().find_map(|l| l.strip_prefix(key).map(|v| v.trim().parse::<u64>().unwrap_or(0)))
    };
    let mut found: Vec<PathBuf> = std::fs::read_dir(&artifacts).map(|rd| rd.flatten().map(|e| e.path()).collect()).unwrap_or_default();
    found.sort();
    if let Some(executed) = stat("stat::number_of_executed_units:") {
        report.label_n(&format!("libfuzzer:{}:executions", target.fuzz_target()), executed);
        report.extra(
            &format!("libfuzzer_{}", target.fuzz_target()),
            serde_json::json!({"executions": executed, "new_units": stat("stat::new_units_added:"), "seed": (report.seed % 0xffff_fffe) + 1}),
        );
    } else if found.is_empty() {
        let tail: Vec<&str> = text.lines().rev().take(12).collect();
        report.note_inconclusive(&format!(
            "libfuzzer: campaign {} did not run (build failure?): {}",
            target.fuzz_target(),
            tail.into_iter().rev().collect::<Vec<_>>().join(" | ")
        ));
        println!("NOTE: libFuzzer campaign {} did not run; the pbt part of the check is unaffected", target.fuzz_target());
        return;
    }
    for a in found {
        let Ok(bytes) = std::fs::read(&a) else { continue };
        let Ok(s) = String::from_utf8(bytes) else { continue };
        match check_text(report, target, &s) {
            Err(f) => {
                crate::report_failure(report, &format!("libfuzzer-{}", target.fuzz_target()), &f, "");
            }
            Ok(()) => {
                // a crash that the in-process run does not reproduce: timeout / OOM / stack overflow
                let fail = Fail::new(
                    "libfuzzer:crash-not-reproduced-in-process",
                    format!("libFuzzer stored {} but the in-process run passes (timeout, memory or stack?)\ntext: {s:?}", a.display()),
                );
                report.note_inconclusive(&fail.message);
            }
        }
    }
    let _ = std::fs::remove_dir_all(&scratch);
}
