//! C29 — relay's `graphql_syntax` accepts exactly the documents the June 2018 grammar accepts and
//! builds the tree the specification describes; printing a parsed schema document and re-parsing it
//! gives an equal tree.
//!
//! Oracle: `refgql` (strict June 2018). Domain: G-GQL / G-SDL documents and token-level mutants,
//! SourceCharacters only. See `run` for the classes that are excluded by construction.

use crate::ggen::{self, GenCfg};
use crate::relay_conv::{erase_unrepresentable, Ints, RelayConv, Strings};
use crate::render::{self, Tok};
use crate::shared::*;
use common::SourceLocationKey;
use graphql_syntax as gs;
use proptest::prelude::*;
use refgql::*;
use serde_json::{json, Value as Json};
use vcore::{Args, Fail, Report};

#[derive(Clone, Copy, PartialEq, Eq, Debug)]
pub enum Kind {
    Executable,
    Schema,
}

impl Kind {
    fn name(self) -> &'static str {
        match self {
            Kind::Executable => "relay-executable",
            Kind::Schema => "relay-schema",
        }
    }
    fn dk(self) -> DocumentKind {
        match self {
            Kind::Executable => DocumentKind::Executable,
            Kind::Schema => DocumentKind::TypeSystem,
        }
    }
}

enum Sut {
    Exec(gs::ExecutableDocument),
    Schema(gs::SchemaDocument),
}

fn relay_parse(kind: Kind, text: &str) -> Result<Result<Sut, String>, String> {
    vcore::catch_panic(|| match kind {
        Kind::Executable => gs::parse_executable(text, SourceLocationKey::generated())
            .map(Sut::Exec)
            .map_err(|e| e.iter().map(|d| d.message().to_string()).collect::<Vec<_>>().join("; ")),
        Kind::Schema => gs::parse_schema_document(text, SourceLocationKey::generated())
            .map(Sut::Schema)
            .map_err(|e| e.iter().map(|d| d.message().to_string()).collect::<Vec<_>>().join("; ")),
    })
}

enum SutRef<'a> {
    Exec(&'a gs::ExecutableDocument),
    Schema(&'a gs::SchemaDocument),
}

impl Sut {
    fn as_ref(&self) -> SutRef<'_> {
        match self {
            Sut::Exec(d) => SutRef::Exec(d),
            Sut::Schema(d) => SutRef::Schema(d),
        }
    }
}

fn convert(sut: SutRef<'_>, text: &str, strings: Strings, ints: Ints) -> (Document, RelayConv<'static>) {
    // the converter borrows the text only while converting; detach the bookkeeping afterwards
    let mut conv = RelayConv::new(text, strings, ints);
    let doc = match sut {
        SutRef::Exec(d) => conv.executable_document(d),
        SutRef::Schema(d) => conv.schema_document(d),
    };
    let detached = RelayConv {
        src: "",
        strings,
        ints,
        problems: std::mem::take(&mut conv.problems),
        string_nodes: std::mem::take(&mut conv.string_nodes),
        extensions_seen: std::mem::take(&mut conv.extensions_seen),
    };
    (doc, detached)
}

fn strip_descriptions(doc: &mut Document) {
    for d in &mut doc.definitions {
        match d {
            Definition::TypeSystem(TypeSystemDefinition::Object(s)) | Definition::Extension(TypeSystemExtension::Object(s)) => {
                s.fields.iter_mut().for_each(|f| f.description = None)
            }
            Definition::TypeSystem(TypeSystemDefinition::Interface(s))
            | Definition::Extension(TypeSystemExtension::Interface(s)) => s.fields.iter_mut().for_each(|f| f.description = None),
            Definition::TypeSystem(TypeSystemDefinition::Directive(s)) => s.description = None,
            _ => {}
        }
    }
}

/// One text against relay. `Ok(true)` = compared (both accepted), `Ok(false)` = both rejected or
/// the case was excluded.
pub fn check_text(report: &Report, kind: Kind, text: &str) -> Result<bool, Fail> {
    let r = check_text_inner(report, kind, text);
    r.map_err(|f| attach_input(f, kind.name(), text))
}

fn check_text_inner(report: &Report, kind: Kind, text: &str) -> Result<bool, Fail> {
    if !in_spec_charset(text) {
        report.excluded("outside-the-June-2018-SourceCharacter-set");
        return Ok(false);
    }
    if edition_ambiguous(text, kind.dk()) {
        report.excluded("edition-ambiguous:number-directly-followed-by-name-or-dot");
        return Ok(false);
    }
    let strict = parse_with(text, kind.dk(), ParseOptions::default());
    if let Err(e) = &strict {
        match e.kind {
            SyntaxErrorKind::LoneSurrogate => {
                report.excluded("unrepresentable:lone-surrogate-escape");
                return Ok(false);
            }
            SyntaxErrorKind::TooDeep => {
                report.excluded("nesting-deeper-than-200");
                return Ok(false);
            }
            _ => {}
        }
    }
    let sut = match relay_parse(kind, text) {
        Ok(r) => r,
        Err(p) => {
            // a listed panic is counted and then treated as a rejection, so that acceptance is still compared
            let sig = panic_signature(&p);
            soft(report, &sig, || format!("relay panicked: {p}\ntext: {text:?}"))?;
            Err(format!("panic: {p}"))
        }
    };
    match (strict, sut) {
        (Err(_), Err(_)) => Ok(false),
        (Ok((reference, facts)), Err(msg)) => {
            if facts.saw_surrogate_pair_escape {
                report.excluded("surrogate-pair-escape");
                return Ok(false);
            }
            if has_big_int(&reference) {
                soft(report, "rejects-valid:int-beyond-i64", || {
                    format!("relay rejects a grammatical document because an IntValue does not fit i64: {msg}\ntext: {text:?}")
                })?;
                return Ok(false);
            }
            Err(Fail::new(
                "accept-mismatch:relay-rejects-valid",
                format!("the grammar accepts this {kind:?} document, relay rejects it: {msg}\ntext: {text:?}"),
            ))
        }
        (Err(e), Ok(_)) => {
            // is it one of the known deviations?
            let mut lenient = Leniency::all();
            lenient.directive_without_at = false;
            let opts = ParseOptions { post_2018: true, lenient, ..Default::default() };
            match parse_with(text, kind.dk(), opts) {
                Ok((_, facts)) => {
                    let findings: Vec<&str> =
                        facts.used_leniencies.iter().copied().filter(|l| *l != "second-description-string").collect();
                    if findings.is_empty() {
                        if facts.used_post_2018 {
                            report.excluded("relay-extension:post-2018-syntax");
                        }
                        if facts.used_leniencies.contains(&"second-description-string") {
                            report.excluded("relay-extension:hack-source-string");
                        }
                        return Ok(false);
                    }
                    for f in findings {
                        soft(report, &format!("accepts-invalid:{f}"), || {
                            format!("relay accepts a document the grammar rejects ({e}); leniency: {f}\ntext: {text:?}")
                        })?;
                    }
                    Ok(false)
                }
                Err(_) => Err(Fail::new(
                    "accept-mismatch:relay-accepts-invalid",
                    format!("the grammar rejects this {kind:?} document ({e}), relay accepts it\ntext: {text:?}"),
                )),
            }
        }
        (Ok((reference, facts)), Ok(sut)) => {
            if facts.saw_surrogate_pair_escape {
                report.excluded("surrogate-pair-escape");
                return Ok(false);
            }
            compare_trees(report, kind, text, reference, &sut)?;
            if let Sut::Schema(doc) = &sut {
                display_round_trip(report, text, doc)?;
            }
            Ok(true)
        }
    }
}

fn compare_trees(report: &Report, kind: Kind, text: &str, mut reference: Document, sut: &Sut) -> Result<(), Fail> {
    if kind == Kind::Schema {
        erase_unrepresentable(&mut reference);
    }
    let (got, conv) = convert(sut.as_ref(), text, Strings::AsParsed, Ints::AsWritten);
    if !conv.problems.is_empty() {
        return Err(Fail::new("tree:node-inconsistent-with-its-token", format!("{:?}\ntext: {text:?}", conv.problems)));
    }
    if !conv.extensions_seen.is_empty() {
        return Err(Fail::new("tree:extension-node-in-plain-document", format!("{:?}\ntext: {text:?}", conv.extensions_seen)));
    }
    if got == reference {
        return Ok(());
    }
    // are string values the only difference?
    let (got2, _) = convert(sut.as_ref(), text, Strings::SpecValueOfToken, Ints::AsWritten);
    if got2 != reference {
        return Err(Fail::new("tree:mismatch", format!("{}\ntext: {text:?}", first_diff(&got2, &reference))));
    }
    let mut sigs: Vec<String> = vec![];
    for (raw, relay_value, block, _) in &conv.string_nodes {
        let spec = match parse_value(raw) {
            Ok(Value::String(s)) => s.value,
            _ => continue,
        };
        if &spec != relay_value {
            let causes = classify_string_mismatch(raw, *block);
            if causes.is_empty() {
                return Err(Fail::new(
                    "value:string-unexplained",
                    format!("token {raw:?}: relay value {relay_value:?}, specification value {spec:?}\ntext: {text:?}"),
                ));
            }
            for c in causes {
                let s = format!("value:{c}");
                if !sigs.contains(&s) {
                    sigs.push(s);
                }
            }
        }
    }
    for s in sigs {
        soft(report, &s, || {
            let ex = conv
                .string_nodes
                .iter()
                .find(|(raw, v, b, _)| {
                    parse_value(raw).ok().is_some_and(|x| matches!(x, Value::String(sv) if &sv.value != v))
                        && classify_string_mismatch(raw, *b).iter().any(|c| s.ends_with(c))
                })
                .map(|(raw, v, _, _)| format!("token {raw:?} has value {v:?} in relay's tree"))
                .unwrap_or_default();
            format!("string value differs from the specification's: {ex}\ntext: {text:?}")
        })?;
    }
    Ok(())
}

fn display_round_trip(report: &Report, text: &str, doc: &gs::SchemaDocument) -> Result<(), Fail> {
    let printed = match vcore::catch_panic(|| doc.to_string()) {
        Ok(p) => p,
        Err(p) => return Err(Fail::new(panic_signature(&p), format!("Display panicked: {p}\ntext: {text:?}"))),
    };
    let (mut a, conv) = convert(SutRef::Schema(doc), text, Strings::AsParsed, Ints::ByValue);
    // printed constants that Display writes between plain quotes
    let risky_block = conv
        .string_nodes
        .iter()
        .any(|(_, v, block, description)| *block && !*description && v.contains(['"', '\\', '\n', '\r']));
    let reparsed = match relay_parse(Kind::Schema, &printed) {
        Ok(r) => r,
        Err(p) => return Err(Fail::new(panic_signature(&p), format!("re-parse panicked: {p}\nprinted: {printed:?}"))),
    };
    let sut2 = match reparsed {
        Ok(s) => s,
        Err(msg) => {
            if risky_block {
                return soft(report, "display:block-string-printed-unescaped", || {
                    format!("printed form does not parse ({msg})\ntext: {text:?}\nprinted: {printed:?}")
                });
            }
            return Err(Fail::new(
                "display:reparse-rejected",
                format!("printed form does not parse ({msg})\ntext: {text:?}\nprinted: {printed:?}"),
            ));
        }
    };
    let (mut b, _) = convert(sut2.as_ref(), &printed, Strings::AsParsed, Ints::ByValue);
    // a block string re-parses as a quoted string: the flag is not part of the claim
    normalize_block_flags(&mut a);
    normalize_block_flags(&mut b);
    if a == b {
        return Ok(());
    }
    let (mut a2, mut b2) = (a.clone(), b.clone());
    strip_descriptions(&mut a2);
    strip_descriptions(&mut b2);
    if a2 == b2 {
        return soft(report, "display:drops-descriptions", || {
            format!("Display omits field/directive descriptions\ntext: {text:?}\nprinted: {printed:?}")
        });
    }
    if risky_block {
        return soft(report, "display:block-string-printed-unescaped", || {
            format!("{}\ntext: {text:?}\nprinted: {printed:?}", first_diff(&b2, &a2))
        });
    }
    Err(Fail::new("display:roundtrip-mismatch", format!("{}\ntext: {text:?}\nprinted: {printed:?}", first_diff(&b2, &a2))))
}

// -------------------------------------------------------------------------------------------------

#[derive(Clone, Debug)]
pub struct Case {
    pub doc: Document,
    pub tape: Vec<u8>,
    pub muts: Vec<Vec<(u8, u16, u16)>>,
    pub mut_tape: Vec<u8>,
}

pub fn case_strategy(kind: Kind, cfg: GenCfg, mutants: usize) -> BoxedStrategy<Case> {
    let doc = match kind {
        Kind::Executable => ggen::executable_document(cfg),
        Kind::Schema => ggen::schema_document(cfg),
    };
    (doc, ggen::tape(), prop::collection::vec(ggen::mutations(), mutants), ggen::tape())
        .prop_map(|(doc, tape, muts, mut_tape)| Case { doc, tape, muts, mut_tape })
        .boxed()
}

/// The self-check of generator and reference: the rendered text must parse to exactly the tree.
pub fn self_check(kind: DocumentKind, doc: &Document, toks: &[Tok], text: &str) -> Result<(), Fail> {
    if !in_spec_charset(text) {
        return Err(Fail::new("SELF-CHECK:charset", format!("generator left the SourceCharacter set: {text:?}")));
    }
    match parse_with(text, kind, ParseOptions::default()) {
        Ok((got, _)) if &got == doc => Ok(()),
        Ok((got, _)) => Err(Fail::new(
            "SELF-CHECK:tree",
            format!("refgql's tree differs from the generator's\n{}\ntext: {text:?}\ntokens: {}", first_diff(&got, doc), toks.len()),
        )),
        Err(e) => Err(Fail::new("SELF-CHECK:reject", format!("refgql rejects a generated document: {e}\ntext: {text:?}"))),
    }
}

pub fn run_case(report: &Report, kind: Kind, case: &Case) -> Result<(), Fail> {
    let (toks, text) = render::render(&case.doc, &case.tape);
    let feats = features(&case.doc, Some(&toks));
    let mut labels = feats.labels();
    labels.push(kind.name());
    report.case(if feats.nontrivial() { Some(text.as_str()) } else { None }, &labels);
    if let Err(f) = self_check(kind.dk(), &case.doc, &toks, &text) {
        return Err(attach_input(f, kind.name(), &text));
    }
    check_text(report, kind, &text)?;
    for (k, m) in case.muts.iter().enumerate() {
        let mutated = render::mutate(&toks, m);
        // each mutant has its own slice of the layout tape
        let off = (k * 97) % case.mut_tape.len().max(1);
        let mut tape = render::Tape::new(&case.mut_tape[off.min(case.mut_tape.len())..]);
        let mtext = render::layout(&mutated, &mut tape);
        if mtext == text {
            report.label("mutant:identical-to-base");
            continue;
        }
        let compared = check_text(report, kind, &mtext)?;
        report.case(
            if feats.nontrivial() { Some(mtext.as_str()) } else { None },
            &[if compared { "mutant:accepted-by-both" } else { "mutant:rejected-or-excluded" }],
        );
    }
    Ok(())
}

/// Evidence samples from a deterministic single-threaded pre-pass (the parallel workers would race).
pub fn samples(report: &Report, name: &str, strategy: &BoxedStrategy<Case>) {
    for case in vcore::generate_values(vcore::derive_seed(report.seed, name, 999), 2, strategy) {
        let (toks, text) = render::render(&case.doc, &case.tape);
        report.sample(name, 2, || json!({"text": text}));
        if let Some(m) = case.muts.first() {
            let mut tape = render::Tape::new(&case.mut_tape);
            let mtext = render::layout(&render::mutate(&toks, m), &mut tape);
            report.sample("mutant", 2, || json!({"text": mtext, "mutation": format!("{m:?}")}));
        }
    }
}

pub fn run_input(report: &Report, input: &Json) -> Result<(), Fail> {
    let text = input["text"].as_str().unwrap_or_default();
    let kind = match input["target"].as_str() {
        Some("relay-schema") => Kind::Schema,
        _ => Kind::Executable,
    };
    check_text(report, kind, text).map(|_| ())
}

const RULE: &str = "grammar-generated executable and type-system documents (June 2018 Appendix B, SourceCharacters \
only, ignored tokens inserted freely) and token-level mutants of them; non-trivial = the document contains a block \
string, an escape sequence, a float, a list/object value nested in another value, or a type-system extension; \
distinct by source text";

pub fn run(args: &Args) {
    let report = Report::new(args, "exploration", RULE);
    report.engine("pbt");
    report.assumption("refgql (hand-written June 2018 front end) is the reference; it is self-checked against the generator's trees on every case and against the crate's fixtures");
    report.assumption("descriptions that relay's tree has no slot for (types, input values, enum values, schema) are not compared");
    report.assumption("inputs whose acceptance depends on the number look-ahead restriction (added to the specification text after June 2018) are not judged");

    report.extra(
        "relay_extensions_excluded_by_construction",
        json!([
            "directives on variable definitions (`$a: Int @d`), non-constant",
            "`repeatable` directive definitions",
            "directive location VARIABLE_DEFINITION",
            "`implements` on interface definitions / extensions",
            "a description on a `schema` definition",
            "hack_source: a second string after the description of a type system definition or field definition",
            "fragment variable definitions and fragment spread arguments (ParserFeatures, off by default; never generated)",
            "form feed as white space, control characters in comments, characters above U+FFFF (outside SourceCharacter; never generated)",
        ]),
    );

    if let Some(path) = &args.replay {
        let v = vcore::read_replay(path);
        let r = run_input(&report, &v["input"]);
        report.case(Some(&v["input"].to_string()), &["replay"]);
        report.case(Some("replay-marker"), &[]);
        if let Err(f) = r {
            report.violation("replay", &f, v["input"].clone());
        }
        report.finish();
    }

    report.run_regressions(|input| run_input(&report, input));

    let cfg = GenCfg::full();
    let workers = 8; // fixed: the result must not depend on the machine
    for (kind, name, cases) in [
        (Kind::Executable, "executable", args.tier.pick(12000u32, 240_000)),
        (Kind::Schema, "schema", args.tier.pick(12000u32, 240_000)),
    ] {
        samples(&report, kind.name(), &case_strategy(kind, cfg, 4));
        let found = vcore::run_prop_parallel(
            &report,
            name,
            cases,
            workers,
            || case_strategy(kind, cfg, 4),
            |case| run_case(&report, kind, case),
        );
        if let Some((_case, fail)) = found {
            crate::report_failure(&report, name, &fail, kind.name());
        }
        report.unfreeze();
    }
    if args.tier == vcore::Tier::Thorough {
        crate::fuzz::campaign(&report, crate::fuzz::Target::Relay, 3_000_000);
    }
    crate::finish(report);
}
