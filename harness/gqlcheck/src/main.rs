fn main() {
    let args = vcore::parse_args();
    match args.property.as_str() {
        "C29" => gqlcheck::c29::run(&args),
        "C30" => gqlcheck::c30::run(&args),
        "fixtures" => gqlcheck::fixtures::run(&args),
        other => vcore::inconclusive(&format!("gqlcheck: unknown property {other}")),
    }
}
