//! C29 (relay's graphql-syntax against the June 2018 grammar) and C30 (isograph's schema parser
//! against the same reference, inside its supported subset). Oracle: `refgql`.
use serde_json::json;
use vcore::{Fail, Report};

mod c29;
mod c30;
mod fixtures;
mod ggen;
mod iso_conv;
mod relay_conv;
mod render;
mod shared;

fn main() {
    let args = vcore::parse_args();
    match args.property.as_str() {
        "C29" => c29::run(&args),
        "C30" => c30::run(&args),
        "fixtures" => fixtures::run(&args),
        other => vcore::inconclusive(&format!("gqlcheck: unknown property {other}")),
    }
}

/// A failure of the generator/reference self-check is a harness problem (exit 2), anything else a
/// violation with a replay file that holds the failing text.
pub fn report_failure(report: &Report, name: &str, fail: &Fail, default_target: &str) {
    if fail.signature.starts_with("SELF-CHECK") {
        println!("{}", fail.message);
        vcore::inconclusive(&format!("generator and reference disagree ({}): fix the harness", fail.signature));
    }
    let input = shared::attached_input(&fail.message).unwrap_or_else(|| json!({"target": default_target, "text": ""}));
    report.violation(name, fail, input);
}

pub fn finish(report: Report) -> ! {
    report.finish()
}
