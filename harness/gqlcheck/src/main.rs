fn main() {
    vcore::inconclusive("gqlcheck: not built yet");
}
