//! Development aid (not a registered check): run refgql over every fixture of the graphql-syntax
//! crate and list where it disagrees with relay / with the fixture's recorded outcome.
use common::SourceLocationKey;
use refgql::*;
use std::path::Path;

pub fn run(_args: &vcore::Args) {
    let root = vcore::repo_root().join("relay-crates/graphql-syntax/tests");
    let mut dirs: Vec<_> = std::fs::read_dir(&root).unwrap().flatten().filter(|e| e.path().is_dir()).map(|e| e.path()).collect();
    dirs.sort();
    let (mut n, mut disagreements) = (0, 0);
    for dir in dirs {
        let fx = dir.join("fixtures");
        let mut files: Vec<_> = std::fs::read_dir(&fx).unwrap().flatten().map(|e| e.path()).collect();
        files.sort();
        for f in files {
            if f.extension().and_then(|e| e.to_str()) != Some("graphql") {
                continue;
            }
            n += 1;
            let text = std::fs::read_to_string(&f).unwrap();
            let suite = dir.file_name().unwrap().to_string_lossy().to_string();
            let name = f.file_name().unwrap().to_string_lossy().to_string();
            let expected = std::fs::read_to_string(Path::new(&f).with_extension("expected")).unwrap_or_default();
            let recorded_invalid = name.contains(".invalid.");
            let kind = match suite.as_str() {
                "parse_schema_document" => DocumentKind::TypeSystem,
                "parse_document" | "parse_document_with_features" => DocumentKind::Any,
                _ => DocumentKind::Executable,
            };
            let relay_ok = match vcore::catch_panic(|| match kind {
                DocumentKind::TypeSystem => graphql_syntax::parse_schema_document(&text, SourceLocationKey::generated()).is_ok(),
                DocumentKind::Any => graphql_syntax::parse_document(&text, SourceLocationKey::generated()).is_ok(),
                DocumentKind::Executable => graphql_syntax::parse_executable(&text, SourceLocationKey::generated()).is_ok(),
            }) {
                Ok(b) => b.to_string(),
                Err(p) => format!("PANIC {p}"),
            };
            let strict = parse_with(&text, kind, ParseOptions::default());
            let post = parse_with(&text, kind, ParseOptions { post_2018: true, ..Default::default() });
            let lenient = parse_with(&text, kind, ParseOptions { post_2018: true, lenient: Leniency::all(), ..Default::default() });
            let ref_ok = strict.is_ok();
            let agrees = relay_ok == ref_ok.to_string();
            if !agrees {
                disagreements += 1;
            }
            println!(
                "{} {suite}/{name}: relay={relay_ok} recorded_invalid={recorded_invalid} refgql strict={} post2018={} lenient={}{} {}",
                if agrees { "  " } else { "!!" },
                ref_ok,
                post.is_ok(),
                lenient.as_ref().map(|(_, f)| format!("ok{:?}", f.used_leniencies)).unwrap_or_else(|e| format!("err({})", e.message)),
                strict.as_ref().err().map(|e| format!(" [strict: {} @{}]", e.message, e.pos)).unwrap_or_default(),
                if expected.contains("==== ERROR") || expected.contains("Error") { "(expected file mentions an error)" } else { "" },
            );
        }
    }
    println!("fixtures: {n}, disagreements (relay vs strict refgql): {disagreements}");
    std::process::exit(0);
}
