//! G-GQL / G-SDL: a transcription of Appendix B of the June 2018 specification as proptest
//! strategies. A case is a `refgql::Document` (the *expected tree*) plus an entropy tape; the
//! renderer (`render.rs`) turns the tree into tokens and text, choosing the written form of every
//! string, the optional punctuation and the ignored tokens from the tape. The tree is never
//! obtained by parsing: the reference parser is itself checked against it (self-check).

use proptest::prelude::*;
use refgql::*;

/// What the generator may emit. Everything is inside the June 2018 grammar; the switches select
/// sub-domains (C30's supported subset) and the rate of special classes.
#[derive(Clone, Copy, Debug)]
pub struct GenCfg {
    /// Int literals outside the i64 range (grammatical; both production parsers reject them).
    pub big_ints: bool,
    /// Restrict type-system documents to what `graphql_schema_parser` supports by design:
    /// no extensions except (optionally) `extend type`, no `implements` on interfaces.
    pub iso_subset: bool,
    /// With `iso_subset`: allow `extend type` (for `parse_schema_extensions`).
    pub iso_extend_type: bool,
}

impl GenCfg {
    pub fn full() -> GenCfg {
        GenCfg { big_ints: true, iso_subset: false, iso_extend_type: false }
    }
    pub fn iso(extend_type: bool) -> GenCfg {
        GenCfg { big_ints: true, iso_subset: true, iso_extend_type: extend_type }
    }
}

const KEYWORDS: &[&str] = &[
    "query", "mutation", "subscription", "fragment", "on", "true", "false", "null", "type", "interface", "union",
    "enum", "input", "scalar", "schema", "directive", "extend", "implements", "repeatable", "QUERY", "FIELD",
];

fn sp() -> Span {
    Span::default()
}

/// `Name :: /[_A-Za-z][_0-9A-Za-z]*/` — ordinary names, names with shared prefixes and keywords.
pub fn name() -> BoxedStrategy<String> {
    prop_oneof![
        6 => "[_A-Za-z][_0-9A-Za-z]{0,6}",
        2 => prop::sample::select(vec!["a", "b", "id", "Foo", "FooBar", "node", "x1", "_", "__typename", "T"]).prop_map(String::from),
        2 => prop::sample::select(KEYWORDS.to_vec()).prop_map(String::from),
    ]
    .boxed()
}

/// `EnumValue : Name but not true, false or null`
fn enum_value_name() -> BoxedStrategy<String> {
    name().prop_map(|n| if matches!(n.as_str(), "true" | "false" | "null") { format!("{n}_") } else { n }).boxed()
}

/// `FragmentName : Name but not on`
fn fragment_name() -> BoxedStrategy<String> {
    name().prop_map(|n| if n == "on" { "on_".to_string() } else { n }).boxed()
}

/// `IntValue` text.
fn int_text(cfg: GenCfg) -> BoxedStrategy<String> {
    let mut alts: Vec<(u32, BoxedStrategy<String>)> = vec![
        (3, prop::sample::select(vec!["0", "-0", "1", "-1", "7", "10", "42"]).prop_map(String::from).boxed()),
        (3, "-?[1-9][0-9]{0,8}".boxed()),
        (
            2,
            prop::sample::select(vec![
                "2147483647",
                "-2147483648",
                "2147483648",
                "-2147483649",
                "9223372036854775807",
                "-9223372036854775808",
            ])
            .prop_map(String::from)
            .boxed(),
        ),
    ];
    if cfg.big_ints {
        alts.push((
            1,
            prop_oneof![
                prop::sample::select(vec!["9223372036854775808", "-9223372036854775809"]).prop_map(String::from),
                "-?[1-9][0-9]{19,24}",
            ]
            .boxed(),
        ));
    }
    proptest::strategy::Union::new_weighted(alts).boxed()
}

/// `FloatValue` text: IntegerPart with a FractionalPart, an ExponentPart or both.
fn float_text() -> BoxedStrategy<String> {
    ("-?(0|[1-9][0-9]{0,3})", prop::option::of("\\.[0-9]{1,6}"), prop::option::of("[eE][+-]?[0-9]{1,3}"), any::<bool>())
        .prop_map(|(i, f, e, pick)| match (f, e) {
            (None, None) => {
                if pick {
                    format!("{i}.0")
                } else {
                    format!("{i}e0")
                }
            }
            (f, e) => format!("{i}{}{}", f.unwrap_or_default(), e.unwrap_or_default()),
        })
        .boxed()
}

/// Characters for string values: every class the lexer distinguishes (BMP only).
fn string_char() -> BoxedStrategy<char> {
    prop_oneof![
        8 => prop::char::range(' ', '~'),
        2 => prop::sample::select(vec!['"', '\\', '/', '#', ',', '\'', '$', '{']),
        2 => prop::sample::select(vec!['\n', '\r', '\t', '\u{8}', '\u{c}', '\u{0}', '\u{1f}', '\u{7f}']),
        2 => prop::sample::select(vec!['é', 'ß', '漢', '\u{FEFF}', '\u{2028}', '\u{E000}', '\u{FFFD}', '\u{FFFF}', '\u{a0}', 'Ω']),
        1 => Just('u'),
    ]
    .boxed()
}

fn quoted_string_value() -> BoxedStrategy<StringValue> {
    prop::collection::vec(string_char(), 0..12)
        .prop_map(|cs| StringValue { value: cs.into_iter().collect(), block: false })
        .boxed()
}

/// One line of a block string value: (leading white space, rest). `rest` is empty for a blank line
/// or starts with a non-white-space character.
fn block_line() -> BoxedStrategy<(String, String)> {
    let lead = prop_oneof![4 => Just(String::new()), 3 => "[ \t]{1,4}"];
    let ch = prop_oneof![
        10 => prop::char::range('!', '~'),
        2 => prop::sample::select(vec!['"', '\\', 'é', '漢', '\u{FEFF}', '\u{2028}', '#', ',']),
        2 => Just(' '),
        1 => Just('\t'),
    ];
    let rest = prop_oneof![
        1 => Just(String::new()),
        6 => (prop_oneof![8 => prop::char::range('!', '~'), 1 => Just('"'), 1 => Just('\\'), 1 => Just('é')],
              prop::collection::vec(ch, 0..10),
              prop::option::weighted(0.15, prop::sample::select(vec!["\"\"\"", "\\\"\"\"", "\"\"", "\\", "\\n", "\\u0041"])))
            .prop_map(|(first, more, special)| {
                let mut s = String::new();
                s.push(first);
                s.extend(more);
                if let Some(sp) = special {
                    let at = s.char_indices().map(|(i, _)| i).nth(s.chars().count() / 2).unwrap_or(0);
                    s.insert_str(at, sp);
                }
                s
            }),
    ];
    (lead, rest).boxed()
}

/// Values that a block string can denote: no `\r`, first and last line not blank (or empty
/// value), and — so that every layout the renderer may pick is possible — a non-blank line
/// without indentation among the lines after the first (if there are any).
fn block_string_value() -> BoxedStrategy<StringValue> {
    prop_oneof![
        1 => Just(StringValue { value: String::new(), block: true }),
        8 => (prop::collection::vec(block_line(), 1..5), any::<u16>()).prop_map(|(mut lines, pick)| {
            let non_blank = |l: &(String, String)| !l.1.is_empty();
            // first and last line must not be blank
            if !non_blank(&lines[0]) {
                lines[0].1 = "x".into();
            }
            let last = lines.len() - 1;
            if !non_blank(&lines[last]) {
                lines[last].1 = "y".into();
            }
            // blank lines keep their white space as content only partially (see renderer): make
            // interior blank lines either empty or white space, both are fine
            if lines.len() > 1 {
                let candidates: Vec<usize> = (1..lines.len()).filter(|&i| non_blank(&lines[i])).collect();
                let k = candidates[vcore::pick_index(pick, candidates.len())];
                lines[k].0.clear();
            }
            let value = lines.iter().map(|(a, b)| format!("{a}{b}")).collect::<Vec<_>>().join("\n");
            StringValue { value, block: true }
        }),
    ]
    .boxed()
}

pub fn string_value() -> BoxedStrategy<StringValue> {
    prop_oneof![3 => quoted_string_value(), 2 => block_string_value()].boxed()
}

/// `Value[Const]`
pub fn value(cfg: GenCfg, is_const: bool) -> BoxedStrategy<Value> {
    let mut leaves: Vec<(u32, BoxedStrategy<Value>)> = vec![
        (3, int_text(cfg).prop_map(Value::Int).boxed()),
        (2, float_text().prop_map(Value::Float).boxed()),
        (3, string_value().prop_map(Value::String).boxed()),
        (1, any::<bool>().prop_map(Value::Boolean).boxed()),
        (1, Just(Value::Null).boxed()),
        (2, enum_value_name().prop_map(Value::Enum).boxed()),
    ];
    if !is_const {
        leaves.push((3, name().prop_map(Value::Variable).boxed()));
    }
    let leaf = proptest::strategy::Union::new_weighted(leaves);
    leaf.prop_recursive(3, 12, 4, |inner| {
        prop_oneof![
            1 => prop::collection::vec(inner.clone(), 0..4).prop_map(Value::List),
            1 => prop::collection::vec((name(), inner), 0..4).prop_map(Value::Object),
        ]
    })
    .boxed()
}

/// `Type : NamedType | ListType | NonNullType`
pub fn ty() -> BoxedStrategy<Type> {
    let named = (name(), any::<bool>()).prop_map(|(n, nn)| if nn { Type::non_null(Type::Named(n)) } else { Type::Named(n) });
    named
        .prop_recursive(3, 6, 1, |inner| {
            (inner, any::<bool>()).prop_map(|(t, nn)| if nn { Type::non_null(Type::list(t)) } else { Type::list(t) })
        })
        .boxed()
}

fn arguments(cfg: GenCfg, is_const: bool) -> BoxedStrategy<Vec<Argument>> {
    prop_oneof![
        3 => Just(vec![]),
        2 => prop::collection::vec((name(), value(cfg, is_const)), 1..4)
            .prop_map(|v| v.into_iter().map(|(name, value)| Argument { name, value, span: sp() }).collect()),
    ]
    .boxed()
}

fn directives(cfg: GenCfg, is_const: bool) -> BoxedStrategy<Vec<Directive>> {
    prop_oneof![
        4 => Just(vec![]),
        2 => prop::collection::vec((name(), arguments(cfg, is_const)), 1..3)
            .prop_map(|v| v.into_iter().map(|(name, arguments)| Directive { name, arguments, span: sp() }).collect()),
    ]
    .boxed()
}

fn selection_set(cfg: GenCfg) -> BoxedStrategy<SelectionSet> {
    let leaf_field = (prop::option::weighted(0.2, name()), name(), arguments(cfg, false), directives(cfg, false))
        .prop_map(|(alias, name, arguments, directives)| {
            Selection::Field(Field { alias, name, arguments, directives, selection_set: None, span: sp() })
        });
    let spread = (fragment_name(), directives(cfg, false))
        .prop_map(|(name, directives)| Selection::FragmentSpread(FragmentSpread { name, directives, span: sp() }));
    let leaf = prop_oneof![5 => leaf_field, 1 => spread];
    let leaf_set = prop::collection::vec(leaf, 1..4).prop_map(|items| SelectionSet { items, span: sp() });
    leaf_set
        .prop_recursive(3, 14, 4, move |inner| {
            let field = (
                prop::option::weighted(0.2, name()),
                name(),
                arguments(cfg, false),
                directives(cfg, false),
                prop::option::weighted(0.6, inner.clone()),
            )
                .prop_map(|(alias, name, arguments, directives, selection_set)| {
                    Selection::Field(Field { alias, name, arguments, directives, selection_set, span: sp() })
                });
            let spread = (fragment_name(), directives(cfg, false))
                .prop_map(|(name, directives)| Selection::FragmentSpread(FragmentSpread { name, directives, span: sp() }));
            let inline = (prop::option::weighted(0.7, name()), directives(cfg, false), inner).prop_map(
                |(type_condition, directives, selection_set)| {
                    Selection::InlineFragment(InlineFragment { type_condition, directives, selection_set, span: sp() })
                },
            );
            prop::collection::vec(prop_oneof![5 => field, 1 => spread, 2 => inline], 1..4)
                .prop_map(|items| SelectionSet { items, span: sp() })
        })
        .boxed()
}

fn variable_definitions(cfg: GenCfg) -> BoxedStrategy<Vec<VariableDefinition>> {
    prop_oneof![
        2 => Just(vec![]),
        2 => prop::collection::vec((name(), ty(), prop::option::weighted(0.4, value(cfg, true))), 1..4).prop_map(|v| {
            v.into_iter()
                .map(|(name, ty, default_value)| VariableDefinition { name, ty, default_value, directives: vec![], span: sp() })
                .collect()
        }),
    ]
    .boxed()
}

fn operation(cfg: GenCfg) -> BoxedStrategy<Definition> {
    let kind = prop::sample::select(vec![OperationKind::Query, OperationKind::Mutation, OperationKind::Subscription]);
    prop_oneof![
        1 => selection_set(cfg).prop_map(|selection_set| Definition::Operation(OperationDefinition {
            kind: OperationKind::Query,
            shorthand: true,
            name: None,
            variable_definitions: vec![],
            directives: vec![],
            selection_set,
            span: sp(),
        })),
        3 => (kind, prop::option::weighted(0.7, name()), variable_definitions(cfg), directives(cfg, false), selection_set(cfg))
            .prop_map(|(kind, name, variable_definitions, directives, selection_set)| Definition::Operation(OperationDefinition {
                kind,
                shorthand: false,
                name,
                variable_definitions,
                directives,
                selection_set,
                span: sp(),
            })),
    ]
    .boxed()
}

fn fragment_definition(cfg: GenCfg) -> BoxedStrategy<Definition> {
    (fragment_name(), name(), directives(cfg, false), selection_set(cfg))
        .prop_map(|(name, type_condition, directives, selection_set)| {
            Definition::Fragment(FragmentDefinition { name, type_condition, directives, selection_set, span: sp() })
        })
        .boxed()
}

/// `ExecutableDefinition+`
pub fn executable_document(cfg: GenCfg) -> BoxedStrategy<Document> {
    prop::collection::vec(prop_oneof![3 => operation(cfg), 1 => fragment_definition(cfg)], 1..4)
        .prop_map(|definitions| Document { definitions })
        .boxed()
}

// -------------------------------------------------------------------------------------------------
// Type system
// -------------------------------------------------------------------------------------------------

fn description() -> BoxedStrategy<Option<StringValue>> {
    prop::option::weighted(0.45, string_value()).boxed()
}

fn input_value_definition(cfg: GenCfg) -> BoxedStrategy<InputValueDefinition> {
    (description(), name(), ty(), prop::option::weighted(0.4, value(cfg, true)), directives(cfg, true))
        .prop_map(|(description, name, ty, default_value, directives)| InputValueDefinition {
            description,
            name,
            ty,
            default_value,
            directives,
            span: sp(),
        })
        .boxed()
}

fn field_definition(cfg: GenCfg) -> BoxedStrategy<FieldDefinition> {
    (description(), name(), prop::collection::vec(input_value_definition(cfg), 0..3), ty(), directives(cfg, true))
        .prop_map(|(description, name, arguments, ty, directives)| FieldDefinition {
            description,
            name,
            arguments,
            ty,
            directives,
            span: sp(),
        })
        .boxed()
}

fn enum_value_definition(cfg: GenCfg) -> BoxedStrategy<EnumValueDefinition> {
    (description(), enum_value_name(), directives(cfg, true))
        .prop_map(|(description, name, directives)| EnumValueDefinition { description, name, directives, span: sp() })
        .boxed()
}

fn operation_types() -> BoxedStrategy<Vec<(OperationKind, String)>> {
    // distinct operation kinds in any order (a repeated kind is grammatical but not a valid schema)
    (
        Just(vec![OperationKind::Query, OperationKind::Mutation, OperationKind::Subscription]).prop_shuffle(),
        1..4usize,
        prop::collection::vec(name(), 3),
    )
        .prop_map(|(kinds, n, names)| kinds.into_iter().zip(names).take(n).collect())
        .boxed()
}

fn directive_locations() -> BoxedStrategy<Vec<String>> {
    let mut all: Vec<&str> = EXECUTABLE_DIRECTIVE_LOCATIONS.to_vec();
    all.extend(TYPE_SYSTEM_DIRECTIVE_LOCATIONS);
    prop::collection::vec(prop::sample::select(all).prop_map(String::from), 1..4).boxed()
}

fn object_def(cfg: GenCfg) -> BoxedStrategy<ObjectTypeDefinition> {
    (
        description(),
        name(),
        prop::collection::vec(name(), 0..3),
        directives(cfg, true),
        prop::collection::vec(field_definition(cfg), 0..4),
    )
        .prop_map(|(description, name, interfaces, directives, fields)| ObjectTypeDefinition {
            description,
            name,
            interfaces,
            directives,
            fields,
            span: sp(),
        })
        .boxed()
}

fn type_system_definition(cfg: GenCfg) -> BoxedStrategy<Definition> {
    let schema = (directives(cfg, true), operation_types()).prop_map(|(directives, operation_types)| {
        TypeSystemDefinition::Schema(SchemaDefinition { description: None, directives, operation_types, span: sp() })
    });
    let scalar = (description(), name(), directives(cfg, true)).prop_map(|(description, name, directives)| {
        TypeSystemDefinition::Scalar(ScalarTypeDefinition { description, name, directives, span: sp() })
    });
    let object = object_def(cfg).prop_map(TypeSystemDefinition::Object);
    let interface = object_def(cfg).prop_map(|o| {
        TypeSystemDefinition::Interface(InterfaceTypeDefinition {
            description: o.description,
            name: o.name,
            interfaces: vec![],
            directives: o.directives,
            fields: o.fields,
            span: sp(),
        })
    });
    let union = (description(), name(), directives(cfg, true), prop::collection::vec(name(), 0..4)).prop_map(
        |(description, name, directives, members)| {
            TypeSystemDefinition::Union(UnionTypeDefinition { description, name, directives, members, span: sp() })
        },
    );
    let enum_ = (description(), name(), directives(cfg, true), prop::collection::vec(enum_value_definition(cfg), 0..4))
        .prop_map(|(description, name, directives, values)| {
            TypeSystemDefinition::Enum(EnumTypeDefinition { description, name, directives, values, span: sp() })
        });
    let input = (description(), name(), directives(cfg, true), prop::collection::vec(input_value_definition(cfg), 0..4))
        .prop_map(|(description, name, directives, fields)| {
            TypeSystemDefinition::InputObject(InputObjectTypeDefinition { description, name, directives, fields, span: sp() })
        });
    let directive = (description(), name(), prop::collection::vec(input_value_definition(cfg), 0..3), directive_locations())
        .prop_map(|(description, name, arguments, locations)| {
            TypeSystemDefinition::Directive(DirectiveDefinition {
                description,
                name,
                arguments,
                repeatable: false,
                locations,
                span: sp(),
            })
        });
    prop_oneof![1 => schema, 1 => scalar, 4 => object, 2 => interface, 2 => union, 2 => enum_, 2 => input, 2 => directive]
        .prop_map(Definition::TypeSystem)
        .boxed()
}

/// `extend …` with at least one of the parts the grammar requires.
fn type_system_extension(cfg: GenCfg) -> BoxedStrategy<Definition> {
    let nonempty_directives = prop::collection::vec((name(), arguments(cfg, true)), 1..3)
        .prop_map(|v| v.into_iter().map(|(name, arguments)| Directive { name, arguments, span: sp() }).collect::<Vec<_>>());
    let object = (object_def(cfg), name()).prop_map(|(mut o, extra)| {
        o.description = None;
        if o.interfaces.is_empty() && o.directives.is_empty() && o.fields.is_empty() {
            o.interfaces.push(extra);
        }
        TypeSystemExtension::Object(o)
    });
    if cfg.iso_subset {
        return object.prop_map(Definition::Extension).boxed();
    }
    let schema = (directives(cfg, true), prop::option::of(operation_types()), nonempty_directives.clone()).prop_map(
        |(directives, ops, fallback)| {
            let operation_types = ops.unwrap_or_default();
            let directives = if directives.is_empty() && operation_types.is_empty() { fallback } else { directives };
            TypeSystemExtension::Schema(SchemaDefinition { description: None, directives, operation_types, span: sp() })
        },
    );
    let scalar = (name(), nonempty_directives.clone()).prop_map(|(name, directives)| {
        TypeSystemExtension::Scalar(ScalarTypeDefinition { description: None, name, directives, span: sp() })
    });
    let interface = (object_def(cfg), nonempty_directives.clone()).prop_map(|(o, fallback)| {
        let directives = if o.directives.is_empty() && o.fields.is_empty() { fallback } else { o.directives };
        TypeSystemExtension::Interface(InterfaceTypeDefinition {
            description: None,
            name: o.name,
            interfaces: vec![],
            directives,
            fields: o.fields,
            span: sp(),
        })
    });
    let union = (name(), directives(cfg, true), prop::collection::vec(name(), 0..3), nonempty_directives.clone()).prop_map(
        |(name, directives, members, fallback)| {
            let directives = if directives.is_empty() && members.is_empty() { fallback } else { directives };
            TypeSystemExtension::Union(UnionTypeDefinition { description: None, name, directives, members, span: sp() })
        },
    );
    let enum_ = (name(), directives(cfg, true), prop::collection::vec(enum_value_definition(cfg), 0..3), nonempty_directives.clone())
        .prop_map(|(name, directives, values, fallback)| {
            let directives = if directives.is_empty() && values.is_empty() { fallback } else { directives };
            TypeSystemExtension::Enum(EnumTypeDefinition { description: None, name, directives, values, span: sp() })
        });
    let input = (name(), directives(cfg, true), prop::collection::vec(input_value_definition(cfg), 0..3), nonempty_directives)
        .prop_map(|(name, directives, fields, fallback)| {
            let directives = if directives.is_empty() && fields.is_empty() { fallback } else { directives };
            TypeSystemExtension::InputObject(InputObjectTypeDefinition { description: None, name, directives, fields, span: sp() })
        });
    prop_oneof![1 => schema, 1 => scalar, 3 => object, 2 => interface, 2 => union, 2 => enum_, 2 => input]
        .prop_map(Definition::Extension)
        .boxed()
}

/// `(TypeSystemDefinition | TypeSystemExtension)+`
pub fn schema_document(cfg: GenCfg) -> BoxedStrategy<Document> {
    let def = if cfg.iso_subset && !cfg.iso_extend_type {
        type_system_definition(cfg)
    } else {
        prop_oneof![3 => type_system_definition(cfg), 1 => type_system_extension(cfg)].boxed()
    };
    prop::collection::vec(def, 1..4).prop_map(|definitions| Document { definitions }).boxed()
}

/// Entropy tape for the renderer (0 = the plainest choice everywhere).
pub fn tape() -> BoxedStrategy<Vec<u8>> {
    prop_oneof![
        1 => Just(vec![]),
        4 => prop::collection::vec(any::<u8>(), 0..600),
    ]
    .boxed()
}

/// Token-level mutation: `(operator, position, argument)`; interpreted by `render::mutate`.
pub fn mutations() -> BoxedStrategy<Vec<(u8, u16, u16)>> {
    prop::collection::vec((0..12u8, any::<u16>(), any::<u16>()), 1..3).boxed()
}
