//! relay `graphql_syntax` trees -> `refgql` trees (plain transcription, no fix-ups).
//!
//! What relay's tree cannot represent (descriptions of anything but fields and directive
//! definitions) is erased from the reference side by [`erase_unrepresentable`].

use graphql_syntax as gs;
use intern::Lookup;
use refgql::*;

#[derive(Clone, Copy, PartialEq, Eq)]
pub enum Strings {
    /// The value relay's node holds.
    AsParsed,
    /// The value the specification assigns to the token's source text (lexed by refgql). Used only
    /// to find out whether string values are the *only* difference between two trees.
    SpecValueOfToken,
}

#[derive(Clone, Copy, PartialEq, Eq)]
pub enum Ints {
    /// The source text of the token.
    AsWritten,
    /// The i64 the node holds, printed (for comparing a tree with its re-parsed printed form).
    ByValue,
}

pub struct RelayConv<'a> {
    pub src: &'a str,
    pub strings: Strings,
    pub ints: Ints,
    /// Internal inconsistencies of relay's tree (e.g. `IntNode.value` differs from its token).
    pub problems: Vec<String>,
    /// (raw token text, relay value, is block, is description) of every string node, in visiting order.
    pub string_nodes: Vec<(String, String, bool, bool)>,
    /// Syntax relay accepted that is outside the compared domain (hack_source, fragment arguments…).
    pub extensions_seen: Vec<&'static str>,
}

fn sp() -> Span {
    Span::default()
}

impl<'a> RelayConv<'a> {
    pub fn new(src: &'a str, strings: Strings, ints: Ints) -> Self {
        RelayConv { src, strings, ints, problems: vec![], string_nodes: vec![], extensions_seen: vec![] }
    }

    fn slice(&self, span: common::Span) -> &'a str {
        self.src.get(span.start as usize..span.end as usize).unwrap_or("")
    }

    fn name(&mut self, id: &gs::Identifier) -> String {
        let text = self.slice(id.span);
        let v = id.value.lookup();
        if text != v {
            self.problems.push(format!("identifier value {v:?} differs from its source text {text:?}"));
        }
        v.to_string()
    }

    fn string(&mut self, node: &gs::StringNode, description: bool) -> StringValue {
        let raw = self.slice(node.token.span).to_string();
        let block = node.token.kind == gs::TokenKind::BlockStringLiteral;
        let relay_value = node.value.lookup().to_string();
        self.string_nodes.push((raw.clone(), relay_value.clone(), block, description));
        let value = match self.strings {
            Strings::AsParsed => relay_value,
            Strings::SpecValueOfToken => match refgql::parse_value(&raw) {
                Ok(Value::String(s)) => s.value,
                _ => relay_value,
            },
        };
        StringValue { value, block }
    }

    fn constant(&mut self, v: &gs::ConstantValue) -> Value {
        match v {
            gs::ConstantValue::Int(n) => {
                let text = self.slice(n.token.span);
                if text.parse::<i64>().ok() != Some(n.value) {
                    self.problems.push(format!("IntNode value {} differs from its source text {text:?}", n.value));
                }
                match self.ints {
                    Ints::AsWritten => Value::Int(text.to_string()),
                    Ints::ByValue => Value::Int(n.value.to_string()),
                }
            }
            gs::ConstantValue::Float(f) => {
                let text = self.slice(f.token.span);
                let sv = f.source_value.lookup();
                if self.ints == Ints::AsWritten && text != sv {
                    self.problems.push(format!("FloatNode source_value {sv:?} differs from its source text {text:?}"));
                }
                if sv.parse::<f64>().ok().map(|x| x.to_bits()) != Some(f.value.as_float().to_bits()) {
                    self.problems.push(format!("FloatNode value {} is not the value of {sv:?}", f.value.as_float()));
                }
                Value::Float(sv.to_string())
            }
            gs::ConstantValue::String(s) => Value::String(self.string(s, false)),
            gs::ConstantValue::Boolean(b) => Value::Boolean(b.value),
            gs::ConstantValue::Null(_) => Value::Null,
            gs::ConstantValue::Enum(e) => Value::Enum(e.value.lookup().to_string()),
            gs::ConstantValue::List(l) => Value::List(l.items.iter().map(|x| self.constant(x)).collect()),
            gs::ConstantValue::Object(o) => {
                Value::Object(o.items.iter().map(|a| (self.name(&a.name), self.constant(&a.value))).collect())
            }
        }
    }

    fn value(&mut self, v: &gs::Value) -> Value {
        match v {
            gs::Value::Constant(c) => self.constant(c),
            gs::Value::Variable(v) => Value::Variable(v.name.lookup().to_string()),
            gs::Value::List(l) => Value::List(l.items.iter().map(|x| self.value(x)).collect()),
            gs::Value::Object(o) => Value::Object(o.items.iter().map(|a| (self.name(&a.name), self.value(&a.value))).collect()),
        }
    }

    fn ty(&mut self, t: &gs::TypeAnnotation) -> Type {
        match t {
            gs::TypeAnnotation::Named(n) => Type::Named(self.name(&n.name)),
            gs::TypeAnnotation::List(l) => Type::list(self.ty(&l.type_)),
            gs::TypeAnnotation::NonNull(n) => Type::non_null(self.ty(&n.type_)),
        }
    }

    fn arguments(&mut self, args: &Option<gs::List<gs::Argument>>) -> Vec<Argument> {
        match args {
            None => vec![],
            Some(l) => l
                .items
                .iter()
                .map(|a| Argument { name: self.name(&a.name), value: self.value(&a.value), span: sp() })
                .collect(),
        }
    }

    fn const_arguments(&mut self, args: &Option<gs::List<gs::ConstantArgument>>) -> Vec<Argument> {
        match args {
            None => vec![],
            Some(l) => l
                .items
                .iter()
                .map(|a| Argument { name: self.name(&a.name), value: self.constant(&a.value), span: sp() })
                .collect(),
        }
    }

    fn directives(&mut self, ds: &[gs::Directive]) -> Vec<Directive> {
        ds.iter()
            .map(|d| Directive { name: self.name(&d.name), arguments: self.arguments(&d.arguments), span: sp() })
            .collect()
    }

    fn const_directives(&mut self, ds: &[gs::ConstantDirective]) -> Vec<Directive> {
        ds.iter()
            .map(|d| Directive { name: self.name(&d.name), arguments: self.const_arguments(&d.arguments), span: sp() })
            .collect()
    }

    fn selections(&mut self, l: &gs::List<gs::Selection>) -> SelectionSet {
        let items = l
            .items
            .iter()
            .map(|s| match s {
                gs::Selection::ScalarField(f) => Selection::Field(Field {
                    alias: f.alias.as_ref().map(|a| self.name(&a.alias)),
                    name: self.name(&f.name),
                    arguments: self.arguments(&f.arguments),
                    directives: self.directives(&f.directives),
                    selection_set: None,
                    span: sp(),
                }),
                gs::Selection::LinkedField(f) => Selection::Field(Field {
                    alias: f.alias.as_ref().map(|a| self.name(&a.alias)),
                    name: self.name(&f.name),
                    arguments: self.arguments(&f.arguments),
                    directives: self.directives(&f.directives),
                    selection_set: Some(self.selections(&f.selections)),
                    span: sp(),
                }),
                gs::Selection::FragmentSpread(f) => {
                    if f.arguments.is_some() {
                        self.extensions_seen.push("fragment-spread-arguments");
                    }
                    Selection::FragmentSpread(FragmentSpread {
                        name: self.name(&f.name),
                        directives: self.directives(&f.directives),
                        span: sp(),
                    })
                }
                gs::Selection::InlineFragment(f) => Selection::InlineFragment(InlineFragment {
                    type_condition: f.type_condition.as_ref().map(|t| self.name(&t.type_)),
                    directives: self.directives(&f.directives),
                    selection_set: self.selections(&f.selections),
                    span: sp(),
                }),
            })
            .collect();
        SelectionSet { items, span: sp() }
    }

    fn variable_definitions(&mut self, l: &Option<gs::List<gs::VariableDefinition>>) -> Vec<VariableDefinition> {
        match l {
            None => vec![],
            Some(l) => l
                .items
                .iter()
                .map(|v| VariableDefinition {
                    name: v.name.name.lookup().to_string(),
                    ty: self.ty(&v.type_),
                    default_value: v.default_value.as_ref().map(|d| self.constant(&d.value)),
                    directives: self.directives(&v.directives),
                    span: sp(),
                })
                .collect(),
        }
    }

    pub fn executable_definition(&mut self, d: &gs::ExecutableDefinition) -> Definition {
        match d {
            gs::ExecutableDefinition::Operation(op) => {
                let (kind, shorthand) = match &op.operation {
                    None => (OperationKind::Query, true),
                    Some((_, k)) => (
                        match k {
                            gs::OperationKind::Query => OperationKind::Query,
                            gs::OperationKind::Mutation => OperationKind::Mutation,
                            gs::OperationKind::Subscription => OperationKind::Subscription,
                        },
                        false,
                    ),
                };
                Definition::Operation(OperationDefinition {
                    kind,
                    shorthand,
                    name: op.name.as_ref().map(|n| self.name(n)),
                    variable_definitions: self.variable_definitions(&op.variable_definitions),
                    directives: self.directives(&op.directives),
                    selection_set: self.selections(&op.selections),
                    span: sp(),
                })
            }
            gs::ExecutableDefinition::Fragment(f) => {
                if f.variable_definitions.is_some() {
                    self.extensions_seen.push("fragment-variable-definitions");
                }
                Definition::Fragment(FragmentDefinition {
                    name: self.name(&f.name),
                    type_condition: self.name(&f.type_condition.type_),
                    directives: self.directives(&f.directives),
                    selection_set: self.selections(&f.selections),
                    span: sp(),
                })
            }
        }
    }

    pub fn executable_document(&mut self, d: &gs::ExecutableDocument) -> Document {
        Document { definitions: d.definitions.iter().map(|x| self.executable_definition(x)).collect() }
    }

    fn input_values(&mut self, l: &Option<gs::List<gs::InputValueDefinition>>) -> Vec<InputValueDefinition> {
        match l {
            None => vec![],
            Some(l) => l
                .items
                .iter()
                .map(|v| InputValueDefinition {
                    description: None,
                    name: self.name(&v.name),
                    ty: self.ty(&v.type_),
                    default_value: v.default_value.as_ref().map(|d| self.constant(d)),
                    directives: self.const_directives(&v.directives),
                    span: sp(),
                })
                .collect(),
        }
    }

    fn fields(&mut self, l: &Option<gs::List<gs::FieldDefinition>>) -> Vec<FieldDefinition> {
        match l {
            None => vec![],
            Some(l) => l
                .items
                .iter()
                .map(|f| {
                    if f.hack_source.is_some() {
                        self.extensions_seen.push("hack-source");
                    }
                    FieldDefinition {
                        description: f.description.as_ref().map(|d| self.string(d, true)),
                        name: self.name(&f.name),
                        arguments: self.input_values(&f.arguments),
                        ty: self.ty(&f.type_),
                        directives: self.const_directives(&f.directives),
                        span: sp(),
                    }
                })
                .collect(),
        }
    }

    fn enum_values(&mut self, l: &Option<gs::List<gs::EnumValueDefinition>>) -> Vec<EnumValueDefinition> {
        match l {
            None => vec![],
            Some(l) => l
                .items
                .iter()
                .map(|v| EnumValueDefinition {
                    description: None,
                    name: self.name(&v.name),
                    directives: self.const_directives(&v.directives),
                    span: sp(),
                })
                .collect(),
        }
    }

    fn operation_types(&mut self, items: &[gs::OperationTypeDefinition]) -> Vec<(OperationKind, String)> {
        items
            .iter()
            .map(|o| {
                (
                    match o.operation {
                        gs::OperationType::Query => OperationKind::Query,
                        gs::OperationType::Mutation => OperationKind::Mutation,
                        gs::OperationType::Subscription => OperationKind::Subscription,
                    },
                    self.name(&o.type_),
                )
            })
            .collect()
    }

    fn names(&mut self, ids: &[gs::Identifier]) -> Vec<String> {
        ids.iter().map(|i| self.name(i)).collect()
    }

    pub fn type_system_definition(&mut self, d: &gs::TypeSystemDefinition) -> Definition {
        use gs::TypeSystemDefinition as T;
        match d {
            T::SchemaDefinition(s) => Definition::TypeSystem(TypeSystemDefinition::Schema(SchemaDefinition {
                description: None,
                directives: self.const_directives(&s.directives),
                operation_types: self.operation_types(&s.operation_types.items),
                span: sp(),
            })),
            T::SchemaExtension(s) => Definition::Extension(TypeSystemExtension::Schema(SchemaDefinition {
                description: None,
                directives: self.const_directives(&s.directives),
                operation_types: s.operation_types.as_ref().map(|l| self.operation_types(&l.items)).unwrap_or_default(),
                span: sp(),
            })),
            T::ScalarTypeDefinition(s) => Definition::TypeSystem(TypeSystemDefinition::Scalar(ScalarTypeDefinition {
                description: None,
                name: self.name(&s.name),
                directives: self.const_directives(&s.directives),
                span: sp(),
            })),
            T::ScalarTypeExtension(s) => Definition::Extension(TypeSystemExtension::Scalar(ScalarTypeDefinition {
                description: None,
                name: self.name(&s.name),
                directives: self.const_directives(&s.directives),
                span: sp(),
            })),
            T::ObjectTypeDefinition(s) => Definition::TypeSystem(TypeSystemDefinition::Object(ObjectTypeDefinition {
                description: None,
                name: self.name(&s.name),
                interfaces: self.names(&s.interfaces),
                directives: self.const_directives(&s.directives),
                fields: self.fields(&s.fields),
                span: sp(),
            })),
            T::ObjectTypeExtension(s) => Definition::Extension(TypeSystemExtension::Object(ObjectTypeDefinition {
                description: None,
                name: self.name(&s.name),
                interfaces: self.names(&s.interfaces),
                directives: self.const_directives(&s.directives),
                fields: self.fields(&s.fields),
                span: sp(),
            })),
            T::InterfaceTypeDefinition(s) => Definition::TypeSystem(TypeSystemDefinition::Interface(InterfaceTypeDefinition {
                description: None,
                name: self.name(&s.name),
                interfaces: self.names(&s.interfaces),
                directives: self.const_directives(&s.directives),
                fields: self.fields(&s.fields),
                span: sp(),
            })),
            T::InterfaceTypeExtension(s) => Definition::Extension(TypeSystemExtension::Interface(InterfaceTypeDefinition {
                description: None,
                name: self.name(&s.name),
                interfaces: self.names(&s.interfaces),
                directives: self.const_directives(&s.directives),
                fields: self.fields(&s.fields),
                span: sp(),
            })),
            T::UnionTypeDefinition(s) => Definition::TypeSystem(TypeSystemDefinition::Union(UnionTypeDefinition {
                description: None,
                name: self.name(&s.name),
                directives: self.const_directives(&s.directives),
                members: self.names(&s.members),
                span: sp(),
            })),
            T::UnionTypeExtension(s) => Definition::Extension(TypeSystemExtension::Union(UnionTypeDefinition {
                description: None,
                name: self.name(&s.name),
                directives: self.const_directives(&s.directives),
                members: self.names(&s.members),
                span: sp(),
            })),
            T::EnumTypeDefinition(s) => Definition::TypeSystem(TypeSystemDefinition::Enum(EnumTypeDefinition {
                description: None,
                name: self.name(&s.name),
                directives: self.const_directives(&s.directives),
                values: self.enum_values(&s.values),
                span: sp(),
            })),
            T::EnumTypeExtension(s) => Definition::Extension(TypeSystemExtension::Enum(EnumTypeDefinition {
                description: None,
                name: self.name(&s.name),
                directives: self.const_directives(&s.directives),
                values: self.enum_values(&s.values),
                span: sp(),
            })),
            T::InputObjectTypeDefinition(s) => {
                Definition::TypeSystem(TypeSystemDefinition::InputObject(InputObjectTypeDefinition {
                    description: None,
                    name: self.name(&s.name),
                    directives: self.const_directives(&s.directives),
                    fields: self.input_values(&s.fields),
                    span: sp(),
                }))
            }
            T::InputObjectTypeExtension(s) => {
                Definition::Extension(TypeSystemExtension::InputObject(InputObjectTypeDefinition {
                    description: None,
                    name: self.name(&s.name),
                    directives: self.const_directives(&s.directives),
                    fields: self.input_values(&s.fields),
                    span: sp(),
                }))
            }
            T::DirectiveDefinition(s) => {
                if s.hack_source.is_some() {
                    self.extensions_seen.push("hack-source");
                }
                Definition::TypeSystem(TypeSystemDefinition::Directive(DirectiveDefinition {
                    description: s.description.as_ref().map(|d| self.string(d, true)),
                    name: self.name(&s.name),
                    arguments: self.input_values(&s.arguments),
                    repeatable: s.repeatable,
                    locations: s.locations.iter().map(|l| l.to_string()).collect(),
                    span: sp(),
                }))
            }
        }
    }

    pub fn schema_document(&mut self, d: &gs::SchemaDocument) -> Document {
        Document { definitions: d.definitions.iter().map(|x| self.type_system_definition(x)).collect() }
    }
}

/// Erase from a reference tree what relay's tree has no slot for: descriptions of everything
/// except field definitions and directive definitions.
pub fn erase_unrepresentable(doc: &mut Document) {
    fn ivs(vs: &mut [InputValueDefinition]) {
        for v in vs {
            v.description = None;
        }
    }
    fn fields(fs: &mut [FieldDefinition]) {
        for f in fs {
            ivs(&mut f.arguments);
        }
    }
    for d in &mut doc.definitions {
        match d {
            Definition::TypeSystem(TypeSystemDefinition::Schema(s)) | Definition::Extension(TypeSystemExtension::Schema(s)) => {
                s.description = None
            }
            Definition::TypeSystem(TypeSystemDefinition::Scalar(s)) | Definition::Extension(TypeSystemExtension::Scalar(s)) => {
                s.description = None
            }
            Definition::TypeSystem(TypeSystemDefinition::Object(s)) | Definition::Extension(TypeSystemExtension::Object(s)) => {
                s.description = None;
                fields(&mut s.fields);
            }
            Definition::TypeSystem(TypeSystemDefinition::Interface(s))
            | Definition::Extension(TypeSystemExtension::Interface(s)) => {
                s.description = None;
                fields(&mut s.fields);
            }
            Definition::TypeSystem(TypeSystemDefinition::Union(s)) | Definition::Extension(TypeSystemExtension::Union(s)) => {
                s.description = None
            }
            Definition::TypeSystem(TypeSystemDefinition::Enum(s)) | Definition::Extension(TypeSystemExtension::Enum(s)) => {
                s.description = None;
                for v in &mut s.values {
                    v.description = None;
                }
            }
            Definition::TypeSystem(TypeSystemDefinition::InputObject(s))
            | Definition::Extension(TypeSystemExtension::InputObject(s)) => {
                s.description = None;
                ivs(&mut s.fields);
            }
            Definition::TypeSystem(TypeSystemDefinition::Directive(s)) => ivs(&mut s.arguments),
            _ => {}
        }
    }
}
