//! C30 — isograph's `graphql_schema_parser` (`parse_schema`, `parse_schema_extensions`) accepts a
//! document exactly when it is valid SDL inside the subset it supports, and reads the types,
//! fields, arguments, type annotations, default values, directives and descriptions the
//! specification defines.
//!
//! Supported subset (read off `parse_schema.rs`): schema, scalar, type, interface, union, enum,
//! input and directive definitions; `extend type` only, and only through `parse_schema_extensions`.
//! Later-edition syntax the parser supports on purpose (`repeatable`, `implements` on interfaces,
//! `VARIABLE_DEFINITION`, a description on `schema`) is outside the compared domain.

use crate::c29::{self_check, Case};
use crate::ggen::{self, GenCfg};
use crate::iso_conv::{normalize_reference, IsoConv, Strings};
use crate::render;
use crate::shared::*;
use common_lang_types::TextSource;
use graphql_lang_types as gl;
use intern::string_key::Intern;
use proptest::prelude::*;
use refgql::*;
use serde_json::Value as Json;
use vcore::{Args, Fail, Report};

#[derive(Clone, Copy, PartialEq, Eq, Debug)]
pub enum Entry {
    /// `parse_schema`: definitions only.
    Schema,
    /// `parse_schema_extensions`: definitions and `extend type`.
    Extensions,
}

impl Entry {
    fn name(self) -> &'static str {
        match self {
            Entry::Schema => "iso-parse_schema",
            Entry::Extensions => "iso-parse_schema_extensions",
        }
    }
}

enum Sut {
    Schema(gl::GraphQLTypeSystemDocument),
    Extensions(gl::GraphQLTypeSystemExtensionDocument),
}

fn text_source() -> TextSource {
    TextSource { relative_path_to_source_file: "schema.graphql".intern().into(), span: None }
}

fn iso_parse(entry: Entry, text: &str) -> Result<Result<Sut, String>, String> {
    vcore::catch_panic(|| match entry {
        Entry::Schema => graphql_schema_parser::parse_schema(text, text_source()).map(Sut::Schema).map_err(|e| format!("{e:?}")),
        Entry::Extensions => graphql_schema_parser::parse_schema_extensions(text, text_source())
            .map(Sut::Extensions)
            .map_err(|e| format!("{e:?}")),
    })
}

fn convert(sut: &Sut, text: &str, strings: Strings) -> (Document, Vec<(String, String, bool, bool)>) {
    let mut conv = IsoConv::new(text, strings);
    let doc = match sut {
        Sut::Schema(d) => conv.document(d),
        Sut::Extensions(d) => conv.extension_document(d),
    };
    (doc, conv.string_nodes)
}

/// Is the (grammatical) document inside the subset the entry point supports by design?
fn in_subset(entry: Entry, doc: &Document) -> bool {
    doc.definitions.iter().all(|d| match d {
        Definition::TypeSystem(_) => true,
        Definition::Extension(TypeSystemExtension::Object(_)) => entry == Entry::Extensions,
        _ => false,
    })
}

fn duplicate_root_operation(doc: &Document) -> bool {
    doc.definitions.iter().any(|d| match d {
        Definition::TypeSystem(TypeSystemDefinition::Schema(s)) => {
            let mut kinds: Vec<_> = s.operation_types.iter().map(|(k, _)| *k).collect();
            kinds.sort();
            kinds.windows(2).any(|w| w[0] == w[1])
        }
        _ => false,
    })
}

/// Grammatical constructs (inside the subset) that the parser is known not to read.
fn unsupported_valid_constructs(doc: &Document) -> Vec<&'static str> {
    let mut out = vec![];
    let mut big = false;
    fn walk(v: &Value, big: &mut bool) {
        match v {
            Value::Int(t) => *big |= is_big_int(t),
            Value::List(l) => l.iter().for_each(|x| walk(x, big)),
            Value::Object(o) => o.iter().for_each(|(_, x)| walk(x, big)),
            _ => {}
        }
    }
    visit(doc, &mut |v| walk(v, &mut big), &mut |_| {}, &mut |_| {});
    if big {
        out.push("rejects-valid:int-beyond-i64");
    }
    out.sort();
    out.dedup();
    out
}

pub fn check_text(report: &Report, entry: Entry, text: &str) -> Result<bool, Fail> {
    let r = check_text_inner(report, entry, text);
    r.map_err(|f| attach_input(f, entry.name(), text))
}

fn check_text_inner(report: &Report, entry: Entry, text: &str) -> Result<bool, Fail> {
    if !in_spec_charset(text) {
        report.excluded("outside-the-June-2018-SourceCharacter-set");
        return Ok(false);
    }
    if edition_ambiguous(text, DocumentKind::TypeSystem) {
        report.excluded("edition-ambiguous:number-directly-followed-by-name-or-dot");
        return Ok(false);
    }
    let strict = parse_with(text, DocumentKind::TypeSystem, ParseOptions::default());
    match &strict {
        Err(e) if e.kind == SyntaxErrorKind::LoneSurrogate => {
            report.excluded("unrepresentable:lone-surrogate-escape");
            return Ok(false);
        }
        Err(e) if e.kind == SyntaxErrorKind::TooDeep => {
            report.excluded("nesting-deeper-than-200");
            return Ok(false);
        }
        Ok((doc, facts)) => {
            if !in_subset(entry, doc) {
                report.excluded("outside-the-supported-subset(extension-kind)");
                return Ok(false);
            }
            if facts.saw_surrogate_pair_escape {
                report.excluded("surrogate-pair-escape");
                return Ok(false);
            }
        }
        _ => {}
    }
    let sut = match iso_parse(entry, text) {
        Ok(r) => r,
        Err(p) => {
            // a listed panic is counted and then treated as a rejection, so that acceptance is still compared
            let sig = panic_signature(&p);
            soft(report, &sig, || format!("the schema parser panicked: {p}\ntext: {text:?}"))?;
            Err(format!("panic: {p}"))
        }
    };
    match (strict, sut) {
        (Err(_), Err(_)) => Ok(false),
        (Ok((reference, _)), Err(msg)) => {
            if duplicate_root_operation(&reference) {
                report.excluded("not-a-valid-schema:root-operation-type-given-twice");
                return Ok(false);
            }
            let causes = unsupported_valid_constructs(&reference);
            if causes.is_empty() {
                return Err(Fail::new(
                    "accept-mismatch:rejects-valid",
                    format!("valid SDL inside the supported subset is rejected: {msg}\ntext: {text:?}"),
                ));
            }
            for c in causes {
                soft(report, c, || format!("valid SDL is rejected ({c}): {msg}\ntext: {text:?}"))?;
            }
            Ok(false)
        }
        (Err(e), Ok(_)) => {
            let lenient = Leniency { empty_document: true, empty_extension: true, ..Default::default() };
            let opts = ParseOptions { post_2018: true, lenient, ..Default::default() };
            match parse_with(text, DocumentKind::TypeSystem, opts) {
                Ok((doc, facts)) if in_subset(entry, &doc) => {
                    if facts.used_leniencies.is_empty() {
                        report.excluded("supported-later-edition-syntax");
                        return Ok(false);
                    }
                    for f in &facts.used_leniencies {
                        soft(report, &format!("accepts-invalid:{f}"), || {
                            format!("the schema parser accepts a document the grammar rejects ({e}); leniency: {f}\ntext: {text:?}")
                        })?;
                    }
                    Ok(false)
                }
                _ => Err(Fail::new(
                    "accept-mismatch:accepts-invalid",
                    format!("the grammar rejects this document ({e}), the schema parser accepts it\ntext: {text:?}"),
                )),
            }
        }
        (Ok((mut reference, _)), Ok(sut)) => {
            normalize_reference(&mut reference);
            let (got, nodes) = convert(&sut, text, Strings::AsParsed);
            if got == reference {
                return Ok(true);
            }
            let (got2, _) = convert(&sut, text, Strings::SpecValueOfToken);
            if got2 != reference {
                return Err(Fail::new("tree:mismatch", format!("{}\ntext: {text:?}", first_diff(&got2, &reference))));
            }
            let mut sigs: Vec<(String, String)> = vec![];
            for (raw, value, block, description) in &nodes {
                let spec = match parse_value(raw) {
                    Ok(Value::String(s)) => s.value,
                    _ => continue,
                };
                if &spec != value {
                    let causes = classify_string_mismatch(raw, *block);
                    if causes.is_empty() {
                        return Err(Fail::new(
                            "value:string-unexplained",
                            format!("source {raw:?}: parsed value {value:?}, specification value {spec:?}\ntext: {text:?}"),
                        ));
                    }
                    for c in causes {
                        let s = format!("{}:{c}", if *description { "description" } else { "value" });
                        if !sigs.iter().any(|(x, _)| x == &s) {
                            sigs.push((s, format!("source {raw:?} is read as {value:?}, the specification says {spec:?}")));
                        }
                    }
                }
            }
            for (s, ex) in sigs {
                soft(report, &s, || format!("{ex}\ntext: {text:?}"))?;
            }
            Ok(true)
        }
    }
}

fn case_strategy(entry: Entry, mutants: usize) -> BoxedStrategy<Case> {
    let cfg = GenCfg::iso(entry == Entry::Extensions);
    (ggen::schema_document(cfg), ggen::tape(), prop::collection::vec(ggen::mutations(), mutants), ggen::tape())
        .prop_map(|(doc, tape, muts, mut_tape)| Case { doc, tape, muts, mut_tape })
        .boxed()
}

fn run_case(report: &Report, entry: Entry, case: &Case) -> Result<(), Fail> {
    let (toks, text) = render::render(&case.doc, &case.tape);
    let feats = features(&case.doc, Some(&toks));
    let nontrivial = feats.description || feats.nontrivial();
    let mut labels = feats.labels();
    labels.push(entry.name());
    report.case(if nontrivial { Some(text.as_str()) } else { None }, &labels);
    if let Err(f) = self_check(DocumentKind::TypeSystem, &case.doc, &toks, &text) {
        return Err(attach_input(f, entry.name(), &text));
    }
    check_text(report, entry, &text)?;
    for (k, m) in case.muts.iter().enumerate() {
        let mutated = render::mutate(&toks, m);
        let off = (k * 97) % case.mut_tape.len().max(1);
        let mut tape = render::Tape::new(&case.mut_tape[off.min(case.mut_tape.len())..]);
        let mtext = render::layout(&mutated, &mut tape);
        if mtext == text {
            report.label("mutant:identical-to-base");
            continue;
        }
        let compared = check_text(report, entry, &mtext)?;
        report.case(
            if nontrivial { Some(mtext.as_str()) } else { None },
            &[if compared { "mutant:accepted-by-both" } else { "mutant:rejected-or-excluded" }],
        );
    }
    Ok(())
}

pub fn run_input(report: &Report, input: &Json) -> Result<(), Fail> {
    let text = input["text"].as_str().unwrap_or_default();
    let entry = match input["target"].as_str() {
        Some("iso-parse_schema_extensions") => Entry::Extensions,
        _ => Entry::Schema,
    };
    check_text(report, entry, text).map(|_| ())
}

const RULE: &str = "grammar-generated type-system documents restricted to the subset graphql_schema_parser supports \
(all definition kinds; `extend type` for parse_schema_extensions) and token-level mutants; non-trivial = the document \
has a description, a block string, an escape sequence, a float, a nested list/object value or an extension; distinct \
by source text";

pub fn run(args: &Args) {
    let report = Report::new(args, "exploration", RULE);
    report.engine("pbt");
    report.assumption("refgql (hand-written June 2018 front end) is the reference; it is self-checked against the generator's trees on every case");
    report.assumption("numbers are compared by value (the parser's tree keeps i64/f64), root operation types as a set");
    report.assumption("a schema definition that names a root operation type twice is grammatical but not valid SDL: not judged");

    if let Some(path) = &args.replay {
        let v = vcore::read_replay(path);
        let r = run_input(&report, &v["input"]);
        report.case(Some(&v["input"].to_string()), &["replay"]);
        report.case(Some("replay-marker"), &[]);
        if let Err(f) = r {
            report.violation("replay", &f, v["input"].clone());
        }
        report.finish();
    }

    report.run_regressions(|input| run_input(&report, input));

    let workers = 8; // fixed: the result must not depend on the machine
    for (entry, name, cases) in [
        (Entry::Schema, "parse_schema", args.tier.pick(12000u32, 240_000)),
        (Entry::Extensions, "parse_schema_extensions", args.tier.pick(12000u32, 240_000)),
    ] {
        crate::c29::samples(&report, entry.name(), &case_strategy(entry, 4));
        let found = vcore::run_prop_parallel(
            &report,
            name,
            cases,
            workers,
            || case_strategy(entry, 4),
            |case| run_case(&report, entry, case),
        );
        if let Some((_case, fail)) = found {
            crate::report_failure(&report, name, &fail, entry.name());
        }
        report.unfreeze();
    }
    if args.tier == vcore::Tier::Thorough {
        crate::fuzz::campaign(&report, crate::fuzz::Target::Iso, 3_000_000);
    }
    crate::finish(report);
}
