//! Pieces shared by C29 and C30.
use crate::render::{Tok, TokKind};
use refgql::*;
use vcore::{Fail, Report};

/// `SourceCharacter :: /[\u0009\u000A\u000D -￿]/`
pub fn in_spec_charset(s: &str) -> bool {
    s.chars().all(|c| matches!(c, '\t' | '\n' | '\r') || (c >= ' ' && (c as u32) <= 0xFFFF))
}

/// A failure whose signature is a listed open finding is counted and the case goes on (so that the
/// rest of the document is still compared); anything else ends the case.
pub fn soft(report: &Report, signature: &str, message: impl FnOnce() -> String) -> Result<(), Fail> {
    if report.is_known(signature) {
        report.known_hit(signature);
        Ok(())
    } else {
        Err(Fail::new(signature, message()))
    }
}

pub fn panic_signature(p: &str) -> String {
    let msg = p.split(" @ ").next().unwrap_or(p);
    let msg: String = msg.chars().take(70).collect();
    format!("panic:{msg}")
}

/// First differing line of the pretty Debug forms (with some context).
pub fn first_diff(got: &Document, want: &Document) -> String {
    let a = format!("{got:#?}");
    let b = format!("{want:#?}");
    let (la, lb): (Vec<&str>, Vec<&str>) = (a.lines().collect(), b.lines().collect());
    let n = la.iter().zip(lb.iter()).take_while(|(x, y)| x == y).count();
    let ctx = |l: &[&str]| l[n.saturating_sub(4)..(n + 3).min(l.len())].join("\n      ");
    format!("first difference at line {n} of the tree dump\n  code under test:\n      {}\n  reference:\n      {}", ctx(&la), ctx(&lb))
}

#[derive(Default, Clone, Debug)]
pub struct Features {
    pub block_string: bool,
    pub escape: bool,
    pub float: bool,
    pub nested_value: bool,
    pub extension: bool,
    pub description: bool,
    pub big_int: bool,
    pub variable: bool,
    pub directive: bool,
}

impl Features {
    pub fn nontrivial(&self) -> bool {
        self.block_string || self.escape || self.float || self.nested_value || self.extension
    }
    pub fn labels(&self) -> Vec<&'static str> {
        let mut v = vec![];
        if self.block_string {
            v.push("has-block-string");
        }
        if self.escape {
            v.push("has-escape");
        }
        if self.float {
            v.push("has-float");
        }
        if self.nested_value {
            v.push("has-nested-list/object-value");
        }
        if self.extension {
            v.push("has-extension");
        }
        if self.description {
            v.push("has-description");
        }
        if self.big_int {
            v.push("has-int-beyond-i64");
        }
        if self.variable {
            v.push("has-variable");
        }
        if self.directive {
            v.push("has-directive");
        }
        v
    }
}

pub fn is_big_int(text: &str) -> bool {
    text.parse::<i64>().is_err()
}

fn value_features(v: &Value, depth: usize, f: &mut Features) {
    match v {
        Value::Int(t) => f.big_int |= is_big_int(t),
        Value::Float(_) => f.float = true,
        Value::String(s) => f.block_string |= s.block,
        Value::Variable(_) => f.variable = true,
        Value::List(l) => {
            if depth > 0 {
                f.nested_value = true;
            }
            l.iter().for_each(|x| value_features(x, depth + 1, f));
        }
        Value::Object(o) => {
            if depth > 0 {
                f.nested_value = true;
            }
            o.iter().for_each(|(_, x)| value_features(x, depth + 1, f));
        }
        _ => {}
    }
}

/// Visit every value of a document (arguments, defaults), every directive list and description.
pub fn visit(
    doc: &Document,
    on_value: &mut dyn FnMut(&Value),
    on_directives: &mut dyn FnMut(&[Directive]),
    on_description: &mut dyn FnMut(&StringValue),
) {
    fn dirs(ds: &[Directive], on_value: &mut dyn FnMut(&Value), on_directives: &mut dyn FnMut(&[Directive])) {
        on_directives(ds);
        for d in ds {
            for a in &d.arguments {
                on_value(&a.value);
            }
        }
    }
    fn sel(s: &SelectionSet, on_value: &mut dyn FnMut(&Value), on_directives: &mut dyn FnMut(&[Directive])) {
        for x in &s.items {
            match x {
                Selection::Field(f) => {
                    for a in &f.arguments {
                        on_value(&a.value);
                    }
                    dirs(&f.directives, on_value, on_directives);
                    if let Some(s) = &f.selection_set {
                        sel(s, on_value, on_directives);
                    }
                }
                Selection::FragmentSpread(f) => dirs(&f.directives, on_value, on_directives),
                Selection::InlineFragment(f) => {
                    dirs(&f.directives, on_value, on_directives);
                    sel(&f.selection_set, on_value, on_directives);
                }
            }
        }
    }
    fn ivs(
        vs: &[InputValueDefinition],
        on_value: &mut dyn FnMut(&Value),
        on_directives: &mut dyn FnMut(&[Directive]),
        on_description: &mut dyn FnMut(&StringValue),
    ) {
        for v in vs {
            if let Some(d) = &v.description {
                on_description(d);
            }
            if let Some(d) = &v.default_value {
                on_value(d);
            }
            dirs(&v.directives, on_value, on_directives);
        }
    }
    fn fields(
        fs: &[FieldDefinition],
        on_value: &mut dyn FnMut(&Value),
        on_directives: &mut dyn FnMut(&[Directive]),
        on_description: &mut dyn FnMut(&StringValue),
    ) {
        for f in fs {
            if let Some(d) = &f.description {
                on_description(d);
            }
            ivs(&f.arguments, on_value, on_directives, on_description);
            dirs(&f.directives, on_value, on_directives);
        }
    }
    for d in &doc.definitions {
        match d {
            Definition::Operation(op) => {
                for v in &op.variable_definitions {
                    if let Some(d) = &v.default_value {
                        on_value(d);
                    }
                    dirs(&v.directives, on_value, on_directives);
                }
                dirs(&op.directives, on_value, on_directives);
                sel(&op.selection_set, on_value, on_directives);
            }
            Definition::Fragment(f) => {
                dirs(&f.directives, on_value, on_directives);
                sel(&f.selection_set, on_value, on_directives);
            }
            Definition::TypeSystem(TypeSystemDefinition::Schema(s)) | Definition::Extension(TypeSystemExtension::Schema(s)) => {
                if let Some(d) = &s.description {
                    on_description(d);
                }
                dirs(&s.directives, on_value, on_directives);
            }
            Definition::TypeSystem(TypeSystemDefinition::Scalar(s)) | Definition::Extension(TypeSystemExtension::Scalar(s)) => {
                if let Some(d) = &s.description {
                    on_description(d);
                }
                dirs(&s.directives, on_value, on_directives);
            }
            Definition::TypeSystem(TypeSystemDefinition::Object(s)) | Definition::Extension(TypeSystemExtension::Object(s)) => {
                if let Some(d) = &s.description {
                    on_description(d);
                }
                dirs(&s.directives, on_value, on_directives);
                fields(&s.fields, on_value, on_directives, on_description);
            }
            Definition::TypeSystem(TypeSystemDefinition::Interface(s))
            | Definition::Extension(TypeSystemExtension::Interface(s)) => {
                if let Some(d) = &s.description {
                    on_description(d);
                }
                dirs(&s.directives, on_value, on_directives);
                fields(&s.fields, on_value, on_directives, on_description);
            }
            Definition::TypeSystem(TypeSystemDefinition::Union(s)) | Definition::Extension(TypeSystemExtension::Union(s)) => {
                if let Some(d) = &s.description {
                    on_description(d);
                }
                dirs(&s.directives, on_value, on_directives);
            }
            Definition::TypeSystem(TypeSystemDefinition::Enum(s)) | Definition::Extension(TypeSystemExtension::Enum(s)) => {
                if let Some(d) = &s.description {
                    on_description(d);
                }
                dirs(&s.directives, on_value, on_directives);
                for v in &s.values {
                    if let Some(d) = &v.description {
                        on_description(d);
                    }
                    dirs(&v.directives, on_value, on_directives);
                }
            }
            Definition::TypeSystem(TypeSystemDefinition::InputObject(s))
            | Definition::Extension(TypeSystemExtension::InputObject(s)) => {
                if let Some(d) = &s.description {
                    on_description(d);
                }
                dirs(&s.directives, on_value, on_directives);
                ivs(&s.fields, on_value, on_directives, on_description);
            }
            Definition::TypeSystem(TypeSystemDefinition::Directive(s)) => {
                if let Some(d) = &s.description {
                    on_description(d);
                }
                ivs(&s.arguments, on_value, on_directives, on_description);
            }
        }
    }
}

pub fn features(doc: &Document, toks: Option<&[Tok]>) -> Features {
    let mut f = Features::default();
    let (mut fv, mut fd, mut fs) = (Features::default(), false, (false, false));
    visit(
        doc,
        &mut |v| value_features(v, 0, &mut fv),
        &mut |ds| fd |= !ds.is_empty(),
        &mut |s| {
            fs.0 = true;
            fs.1 |= s.block;
        },
    );
    f.block_string = fv.block_string || fs.1;
    f.float = fv.float;
    f.nested_value = fv.nested_value;
    f.big_int = fv.big_int;
    f.variable = fv.variable;
    f.directive = fd;
    f.description = fs.0;
    f.extension = doc.definitions.iter().any(|d| matches!(d, Definition::Extension(_)));
    if let Some(toks) = toks {
        f.escape = toks.iter().any(|t| matches!(t.kind, TokKind::Str | TokKind::BlockStr) && t.text.contains('\\'));
    }
    f
}

pub fn has_big_int(doc: &Document) -> bool {
    features(doc, None).big_int
}

/// Does the strict/June-2018-text reading of numbers change whether the text is accepted?
pub fn edition_ambiguous(text: &str, kind: DocumentKind) -> bool {
    let strict = parse_with(text, kind, ParseOptions::default()).is_ok();
    let mut o = ParseOptions::default();
    o.lex.number_lookahead = false;
    let june = parse_with(text, kind, o).is_ok();
    strict != june
}

/// Attach the failing (target, text) to a failure so that the replay file can be written from the
/// failure alone (workers run in parallel; the message is the only thing that travels with it).
pub fn attach_input(mut f: Fail, target: &str, text: &str) -> Fail {
    if !f.message.contains("\nreplay-input: ") {
        f.message.push_str(&format!("\nreplay-input: {}", serde_json::json!({"target": target, "text": text})));
    }
    f
}

pub fn attached_input(message: &str) -> Option<serde_json::Value> {
    let line = message.rsplit("\nreplay-input: ").next()?;
    if line.len() == message.len() {
        return None;
    }
    serde_json::from_str(line.lines().next().unwrap_or("")).ok()
}

pub fn classify_string_mismatch(raw: &str, block: bool) -> Vec<&'static str> {
    let mut v = vec![];
    if !block {
        if raw.contains('\\') {
            v.push("quoted-not-unescaped");
        }
    } else {
        if raw.contains("\\\"\"\"") {
            v.push("block-escaped-triple-quote");
        }
        let b = raw.as_bytes();
        if (0..b.len()).any(|i| b[i] == b'\r' && b.get(i + 1) != Some(&b'\n')) {
            v.push("block-lone-cr");
        }
    }
    v
}
