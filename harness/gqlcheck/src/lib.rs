//! C29 (relay's graphql-syntax against the June 2018 grammar) and C30 (isograph's schema parser
//! against the same reference, inside its supported subset). Oracle: `refgql`.
//! Library so that the libFuzzer targets under `harness/fuzz` can call the same oracles.
use serde_json::json;
use vcore::{Fail, Report};

pub mod c29;
pub mod c30;
pub mod fixtures;
pub mod fuzz;
pub mod ggen;
pub mod iso_conv;
pub mod relay_conv;
pub mod render;
pub mod shared;

/// A failure of the generator/reference self-check is a harness problem (exit 2), anything else a
/// violation with a replay file that holds the failing text.
pub fn report_failure(report: &Report, name: &str, fail: &Fail, default_target: &str) {
    if fail.signature.starts_with("SELF-CHECK") {
        println!("{}", fail.message);
        vcore::inconclusive(&format!("generator and reference disagree ({}): fix the harness", fail.signature));
    }
    let input = shared::attached_input(&fail.message).unwrap_or_else(|| json!({"target": default_target, "text": ""}));
    report.violation(name, fail, input);
}

pub fn finish(report: Report) -> ! {
    report.finish()
}
