// see Cargo.toml
