//! C31 — diagnostic excerpts underline exactly the reported span.
//!
//! Domain: texts built from lines over an alphabet with ASCII, tab, CR, combining marks, CJK and
//! astral characters (never `^`), empty lines, with/without trailing newline; an outer offset on a
//! character boundary and a non-empty inner span on character boundaries inside the text.
//! Oracle (independent of the implementation): no panic; reported row = 1 + number of '\n' before
//! the span start; in the returned text every caret line sits under a source line of the text and
//! has `^` at exactly the character columns of that line's characters that lie in the span; every
//! line that has such characters is printed with its caret line; printed source lines are
//! consecutive lines of the text.
use common_lang_types::{text_with_carats, Span};
use proptest::prelude::*;
use serde_json::{json, Value};
use vcore::{Args, Fail, Report};

#[derive(Clone, Debug)]
pub struct Case {
    pub text: String,
    pub outer_start: Option<u32>,
    pub outer_end: u32,
    pub inner: (u32, u32),
}

fn line() -> impl Strategy<Value = String> {
    prop_oneof![
        3 => Just(String::new()),
        6 => "[a-z ]{1,8}",
        4 => "[a-zA-Z0-9 \\t(){}:.,\"]{1,16}",
        4 => "[a-zé漢😀\u{0301} ]{1,8}",
        1 => "[a-z]{0,4}\r",
        1 => "[ \\t]{1,4}",
    ]
}

fn case() -> impl Strategy<Value = Case> {
    (prop::collection::vec(line(), 1..8), any::<bool>(), any::<u16>(), any::<u16>(), any::<u16>(), any::<bool>())
        .prop_filter_map("text must have a character", |(lines, trailing, a, b, o, with_outer)| {
            let mut text = lines.join("\n");
            if trailing {
                text.push('\n');
            }
            if text.is_empty() {
                return None;
            }
            let mut bounds: Vec<usize> = text.char_indices().map(|(i, _)| i).collect();
            bounds.push(text.len());
            let n = bounds.len();
            // non-empty span: two distinct boundaries
            let i = vcore::pick_index(a, n - 1);
            let jj = i + 1 + vcore::pick_index(b, n - 1 - i);
            let (s, e) = (bounds[i], bounds[jj]);
            let (outer_start, outer_end) = if with_outer {
                let k = vcore::pick_index(o, i + 1);
                // outer span ends somewhere at or after the inner end
                (Some(bounds[k] as u32), bounds[(jj + vcore::pick_index(o, n - jj)).min(n - 1)] as u32)
            } else {
                (None, text.len() as u32)
            };
            let off = outer_start.unwrap_or(0);
            Some(Case { text, outer_start, outer_end, inner: (s as u32 - off, e as u32 - off) })
        })
}

struct Expected {
    row: u32,
    /// per text line: char columns that must carry a caret
    cols: Vec<Vec<usize>>,
}

fn expected(text: &str, s: usize, e: usize) -> Expected {
    let row = 1 + text[..s].matches('\n').count() as u32;
    let mut cols = vec![];
    let mut off = 0;
    for l in text.split('\n') {
        let mut c = vec![];
        for (k, (bi, _)) in l.char_indices().enumerate() {
            let abs = off + bi;
            if abs >= s && abs < e {
                c.push(k);
            }
        }
        cols.push(c);
        off += l.len() + 1;
    }
    Expected { row, cols }
}

fn is_caret_line(l: &str) -> bool {
    l.contains('^') && l.chars().all(|c| c == '^' || c == ' ')
}

pub fn check(c: &Case) -> Result<(), Fail> {
    let off = c.outer_start.unwrap_or(0);
    let (s, e) = ((off + c.inner.0) as usize, (off + c.inner.1) as usize);
    let outer = c.outer_start.map(|o| Span::new(o, c.outer_end));
    let inner = Span::new(c.inner.0, c.inner.1);
    let nonascii_involved = {
        // a non-ASCII char inside the span or before it on one of its lines
        let line_start = c.text[..s].rfind('\n').map(|i| i + 1).unwrap_or(0);
        !c.text[line_start..e].is_ascii()
    };
    let sig_suffix = if nonascii_involved { "non-ascii" } else { "ascii" };
    let (out, rc) = match vcore::catch_panic(|| {
        let (t, rc) = text_with_carats(&c.text, outer, inner, false);
        (t, rc.map(|(r, col)| (r.0.get(), col.0.get())))
    }) {
        Ok(v) => v,
        Err(p) => return Err(Fail::new(format!("panic:{sig_suffix}"), p)),
    };
    let exp = expected(&c.text, s, e);
    match rc {
        Some((row, _)) if row == exp.row => {}
        other => {
            return Err(Fail::new(
                format!("row:{sig_suffix}"),
                format!("reported (row,col)={other:?}, span starts on line {}", exp.row),
            ))
        }
    }
    let text_lines: Vec<&str> = c.text.split('\n').collect();
    let out_lines: Vec<&str> = if out.is_empty() { vec![] } else { out.split('\n').collect() };
    let first_needed = exp.cols.iter().position(|c| !c.is_empty());
    let Some(first_needed) = first_needed else {
        // the span covers line breaks only: nothing can be underlined
        if out_lines.iter().any(|l| is_caret_line(l)) {
            return Err(Fail::new(format!("carets-without-chars:{sig_suffix}"), format!("output={out:?}")));
        }
        return Ok(());
    };
    let Some(first_caret) = out_lines.iter().position(|l| is_caret_line(l)) else {
        return Err(Fail::new(format!("no-carets:{sig_suffix}"), format!("output={out:?}")));
    };
    if first_caret == 0 {
        return Err(Fail::new(format!("caret-line-first:{sig_suffix}"), format!("output={out:?}")));
    }
    // number of source lines printed before the first underlined source line
    let before = out_lines[..first_caret - 1].iter().filter(|l| !is_caret_line(l)).count();
    if before > first_needed {
        return Err(Fail::new(format!("lines-mismatch:{sig_suffix}"), format!("more context lines than the text has; output={out:?}")));
    }
    let mut ti = first_needed - before;
    let mut k = 0;
    let mut seen_lines = vec![];
    while k < out_lines.len() {
        let src = out_lines[k];
        if is_caret_line(src) {
            return Err(Fail::new(format!("stray-caret-line:{sig_suffix}"), format!("output={out:?}")));
        }
        if ti >= text_lines.len() || text_lines[ti] != src {
            return Err(Fail::new(
                format!("lines-mismatch:{sig_suffix}"),
                format!("printed line {k} = {src:?} is not line {ti} of the text; output={out:?}"),
            ));
        }
        let carets: Vec<usize> = if k + 1 < out_lines.len() && is_caret_line(out_lines[k + 1]) {
            let v = out_lines[k + 1].chars().enumerate().filter(|(_, c)| *c == '^').map(|(i, _)| i).collect();
            k += 1;
            v
        } else {
            vec![]
        };
        if carets != exp.cols[ti] {
            return Err(Fail::new(
                format!("carets:{sig_suffix}"),
                format!(
                    "line {ti} {src:?}: carets at char columns {carets:?}, span characters are at {:?}\noutput=\n{out}",
                    exp.cols[ti]
                ),
            ));
        }
        seen_lines.push(ti);
        ti += 1;
        k += 1;
    }
    for (li, cols) in exp.cols.iter().enumerate() {
        if !cols.is_empty() && !seen_lines.contains(&li) {
            return Err(Fail::new(format!("line-not-printed:{sig_suffix}"), format!("line {li} has span characters but is not printed; output={out:?}")));
        }
    }
    Ok(())
}

fn to_json(c: &Case) -> Value {
    json!({"text": c.text, "outer_start": c.outer_start, "outer_end": c.outer_end, "inner": [c.inner.0, c.inner.1]})
}

fn from_json(v: &Value) -> Case {
    Case {
        text: v["text"].as_str().unwrap_or_default().to_string(),
        outer_start: v["outer_start"].as_u64().map(|x| x as u32),
        outer_end: v["outer_end"].as_u64().unwrap_or(0) as u32,
        inner: (v["inner"][0].as_u64().unwrap_or(0) as u32, v["inner"][1].as_u64().unwrap_or(0) as u32),
    }
}

pub fn run(args: &Args) {
    let report = Report::new(
        args,
        "exploration",
        "texts of 1-7 generated lines (ASCII, tab, CR, combining, CJK, astral; empty lines; optional trailing \
         newline) x outer offset x non-empty inner span on char boundaries; non-trivial = the span covers or is \
         preceded on its line by a non-ASCII character, or covers more than one line; distinct by (text, span)",
    );
    report.engine("pbt");
    report.assumption("spans lie on character boundaries (the lexer produces no others)");
    if let Some(path) = &args.replay {
        let v = vcore::read_replay(path);
        let c = from_json(&v["input"]);
        report.case(Some(&c.text), &["replay"]);
        report.case(Some("replay-marker"), &[]);
        if let Err(f) = check(&c) {
            report.violation("replay", &f, to_json(&c));
        }
        report.finish();
    }
    report.run_regressions(|input| check(&from_json(input)));
    let cases = args.tier.pick(400_000, 4_000_000);
    crate::drive(
        &report,
        "excerpt",
        cases,
        case(),
        |c| {
            let off = c.outer_start.unwrap_or(0);
            let (s, e) = ((off + c.inner.0) as usize, (off + c.inner.1) as usize);
            let line_start = c.text[..s].rfind('\n').map(|i| i + 1).unwrap_or(0);
            let nonascii = !c.text[line_start..e].is_ascii();
            let multiline = c.text[s..e].contains('\n');
            let mut labels = vec![];
            if nonascii {
                labels.push("non-ascii-involved");
            }
            if multiline {
                labels.push("multi-line-span");
            }
            if c.outer_start.is_some() {
                labels.push("outer-offset");
            }
            if c.text[s..e].chars().all(|ch| ch == '\n') {
                labels.push("line-breaks-only");
            }
            let key = (c.text.as_str(), s, e);
            report.case(if nonascii || multiline { Some(&key) } else { None }, &labels);
            if nonascii {
                report.sample("non-ascii", 2, || to_json(c));
            } else if multiline {
                report.sample("multi-line", 2, || to_json(c));
            } else {
                report.sample("plain", 1, || to_json(c));
            }
            check(c)
        },
        to_json,
    );
    report.finish();
}
