//! C31 (diagnostic excerpts) and C33 (signed sources): pure-function properties.
use proptest::prelude::*;
use serde_json::Value;
use vcore::{Fail, Report};

mod c31;
mod c33;

fn main() {
    let args = vcore::parse_args();
    match args.property.as_str() {
        "C31" => c31::run(&args),
        "C33" => c33::run(&args),
        other => vcore::inconclusive(&format!("small: unknown property {other}")),
    }
}

/// Shared helper: run one property with proptest, report the first unknown failure.
pub fn drive<S, F, J>(report: &Report, name: &str, cases: u32, strategy: S, f: F, to_json: J)
where
    S: Strategy,
    S::Value: Clone,
    F: Fn(&S::Value) -> Result<(), Fail>,
    J: Fn(&S::Value) -> Value,
{
    if let Some((value, fail)) = vcore::run_prop(report, name, cases, strategy, f) {
        report.violation(name, &fail, to_json(&value));
    }
    report.unfreeze();
}

