//! C33 — signed generated files verify, and any edit outside the signature breaks verification.
//!
//! Domain: contents assembled from pieces (the signing token, the bare token without the
//! `@generated ` prefix, `@generated SignedSource<<hex>>` look-alikes, fragments of the token and
//! ordinary text) that contain the signing token at least once; then single-character
//! substitutions, insertions and deletions of the signed file at every position (exhaustive for
//! short files, sampled otherwise).
//! Oracle: round trip (`is_valid_signature(sign_file(c))`) and edit sensitivity: every edit that
//! leaves alone the 32 hex digits of the signature(s) that signing put into the file must make
//! verification fail. Nothing is assumed about how signing computes or places the signature.
use proptest::prelude::*;
use serde_json::{json, Value};
use signedsource::{is_valid_signature, try_sign_file, NEWTOKEN, SIGNING_TOKEN};
use vcore::{Args, Fail, Report};

#[derive(Clone, Debug)]
enum Piece {
    Token,
    BareToken,
    FakeSig(String),
    Text(String),
}

fn piece() -> impl Strategy<Value = Piece> {
    let frag = prop_oneof![
        Just("@generated ".to_string()),
        Just("<<SignedSource::".to_string()),
        Just("SignedSource<<".to_string()),
        Just(">>".to_string()),
        Just("*O*zOeWoEQle#+L!plEphiEmie@IsG".to_string()),
        Just("\n".to_string()),
        Just("// ".to_string()),
        "[a-f0-9]{1,33}",
        "[ -~]{0,12}",
        "[a-zé漢😀\\n ]{0,6}",
    ];
    prop_oneof![
        3 => Just(Piece::Token),
        1 => Just(Piece::BareToken),
        1 => "[a-f0-9]{32}".prop_map(Piece::FakeSig),
        8 => frag.prop_map(Piece::Text),
    ]
}

fn content() -> impl Strategy<Value = Vec<Piece>> {
    (prop::collection::vec(piece(), 0..10), any::<u16>()).prop_map(|(mut v, at)| {
        // the domain is "content containing the signing token": guaranteed by construction
        let i = vcore::pick_index(at, v.len() + 1);
        v.insert(i, Piece::Token);
        v
    })
}

fn render(pieces: &[Piece]) -> String {
    let mut s = String::new();
    for p in pieces {
        match p {
            Piece::Token => s.push_str(SIGNING_TOKEN),
            Piece::BareToken => s.push_str(NEWTOKEN),
            Piece::FakeSig(h) => s.push_str(&format!("@generated SignedSource<<{h}>>")),
            Piece::Text(t) => s.push_str(t),
        }
    }
    s
}

/// All `SignedSource<<hex32>>` occurrences: (byte offset of the first digit, the 32 digits).
fn signature_like(text: &str) -> Vec<(usize, &str)> {
    let pre = "SignedSource<<";
    let mut out = vec![];
    for (i, _) in text.match_indices(pre) {
        let d = i + pre.len();
        if let Some(hex) = text.get(d..d + 32) {
            if hex.bytes().all(|b| b.is_ascii_digit() || (b'a'..=b'f').contains(&b)) && text[d + 32..].starts_with(">>") {
                out.push((d, hex));
            }
        }
    }
    out
}

/// Byte ranges of the 32 hex digits of every occurrence of the signature that signing put into the
/// file: the `SignedSource<<hex>>` values that occur more often in the signed file than in the
/// content (no assumption on how many tokens signing replaces or which hash it uses).
fn signature_digit_ranges(signed: &str, content: &str) -> Vec<(usize, usize)> {
    let before = signature_like(content);
    let after = signature_like(signed);
    after
        .iter()
        .filter(|(_, hex)| {
            after.iter().filter(|(_, h)| h == hex).count() > before.iter().filter(|(_, h)| h == hex).count()
        })
        .map(|(d, _)| (*d, *d + 32))
        .collect()
}

#[derive(Clone, Debug)]
pub enum Edit {
    Subst(usize, char),
    Insert(usize, char),
    Delete(usize),
}

fn apply_edit(s: &str, e: &Edit) -> Option<String> {
    let chars: Vec<(usize, char)> = s.char_indices().collect();
    match *e {
        Edit::Subst(i, c) => {
            let (b, old) = *chars.get(i)?;
            if old == c {
                return None;
            }
            let mut out = String::with_capacity(s.len() + 4);
            out.push_str(&s[..b]);
            out.push(c);
            out.push_str(&s[b + old.len_utf8()..]);
            Some(out)
        }
        Edit::Insert(i, c) => {
            let b = if i == chars.len() { s.len() } else { chars.get(i)?.0 };
            let mut out = String::with_capacity(s.len() + 4);
            out.push_str(&s[..b]);
            out.push(c);
            out.push_str(&s[b..]);
            Some(out)
        }
        Edit::Delete(i) => {
            let (b, old) = *chars.get(i)?;
            let mut out = String::with_capacity(s.len());
            out.push_str(&s[..b]);
            out.push_str(&s[b + old.len_utf8()..]);
            Some(out)
        }
    }
}

/// Does the edit touch (or sit strictly inside) the hex digits of the signature?
fn edit_touches(e: &Edit, s: &str, ranges: &[(usize, usize)]) -> bool {
    let chars: Vec<(usize, char)> = s.char_indices().collect();
    let byte = |i: usize| if i >= chars.len() { s.len() } else { chars[i].0 };
    match *e {
        Edit::Subst(i, _) | Edit::Delete(i) => {
            let b = byte(i);
            ranges.iter().any(|&(a, z)| b >= a && b < z)
        }
        // inserting at either edge of the digit run changes the digit run too
        Edit::Insert(i, _) => {
            let b = byte(i);
            ranges.iter().any(|&(a, z)| b >= a && b <= z)
        }
    }
}

fn classify(pieces: &[Piece]) -> (usize, usize, usize) {
    let t = pieces.iter().filter(|p| matches!(p, Piece::Token)).count();
    let b = pieces.iter().filter(|p| matches!(p, Piece::BareToken)).count();
    let f = pieces.iter().filter(|p| matches!(p, Piece::FakeSig(_))).count();
    (t, b, f)
}

fn root_cause(pieces: &[Piece]) -> &'static str {
    let (t, b, f) = classify(pieces);
    if f > 0 {
        "preexisting-signature"
    } else if b > 0 {
        "bare-token"
    } else if t > 1 {
        "multiple-tokens"
    } else {
        "single-token"
    }
}

/// Sign + verify. Returns the signed text.
fn check_sign(content: &str, cause: &str) -> Result<String, Fail> {
    let signed = match vcore::catch_panic(|| try_sign_file(content)) {
        Ok(Some(s)) => s,
        Ok(None) => {
            return Err(Fail::new(
                format!("sign-refused:{cause}"),
                format!("try_sign_file returned None for content containing the token: {content:?}"),
            ))
        }
        Err(p) => return Err(Fail::new(format!("sign-panic:{cause}"), format!("{p}\ncontent={content:?}"))),
    };
    match vcore::catch_panic(|| is_valid_signature(&signed)) {
        Ok(true) => Ok(signed),
        Ok(false) => Err(Fail::new(
            format!("fresh-signature-rejected:{cause}"),
            format!("is_valid_signature(sign_file(c)) == false\ncontent={content:?}\nsigned={signed:?}"),
        )),
        Err(p) => Err(Fail::new(format!("verify-panic:{cause}"), format!("{p}\nsigned={signed:?}"))),
    }
}

fn check_edit(signed: &str, content: &str, e: &Edit, cause: &str) -> Result<bool, Fail> {
    let ranges = signature_digit_ranges(signed, content);
    if edit_touches(e, signed, &ranges) {
        return Ok(false);
    }
    let Some(edited) = apply_edit(signed, e) else { return Ok(false) };
    if edited == signed {
        return Ok(false);
    }
    match vcore::catch_panic(|| is_valid_signature(&edited)) {
        Ok(false) => Ok(true),
        Ok(true) => Err(Fail::new(
            format!("edit-accepted:{cause}"),
            format!("edit {e:?} outside the signature still verifies\nsigned={signed:?}\nedited={edited:?}"),
        )),
        Err(p) => Err(Fail::new(format!("verify-panic:{cause}"), format!("{p}\nedited={edited:?}"))),
    }
}

fn run_input(input: &Value) -> Result<(), Fail> {
    let content = input["content"].as_str().unwrap_or_default().to_string();
    check_sign(&content, "replay").and_then(|signed| {
        if let Some(e) = input.get("edit").and_then(|e| e.as_array()) {
            let kind = e[0].as_str().unwrap_or("");
            let at = e[1].as_u64().unwrap_or(0) as usize;
            let ch = e.get(2).and_then(|c| c.as_str()).and_then(|s| s.chars().next()).unwrap_or('x');
            let edit = match kind {
                "subst" => Edit::Subst(at, ch),
                "insert" => Edit::Insert(at, ch),
                _ => Edit::Delete(at),
            };
            check_edit(&signed, &content, &edit, "replay").map(|_| ())
        } else {
            Ok(())
        }
    })
}

const EDIT_CHARS: &[char] = &['a', 'f', '0', '9', 'g', 'S', '<', '>', '@', ' ', '\n', 'é', '😀', '*'];

fn pieces_json(pieces: &[Piece]) -> Value {
    json!({"content": render(pieces), "pieces": format!("{pieces:?}")})
}

pub fn run(args: &Args) {
    let report = Report::new(
        args,
        "exploration",
        "contents built from pieces {signing token, bare token, SignedSource<<hex>> look-alike, token \
         fragments, text} with >=1 signing token, then single-character substitute/insert/delete edits of the \
         signed file; non-trivial = the content has >=2 tokens, a bare token or a pre-existing \
         SignedSource<<..>>-like string, or the case is an (content, edit) pair whose edit lies outside the \
         signature digits; distinct by (content, edit)",
    );
    report.engine("pbt");
    report.assumption("an edited file that still verifies by an MD5 collision is out of scope");

    if let Some(path) = &args.replay {
        let v = vcore::read_replay(path);
        let r = run_input(&v["input"]);
        report.case(Some(&v["input"].to_string()), &["replay"]);
        report.case(Some("replay-marker"), &[]);
        if let Err(f) = r {
            report.violation("replay", &f, v["input"].clone());
        }
        report.finish();
    }

    report.run_regressions(run_input);

    // (a) sign → verify, plus the exhaustive / sampled single-character edits of each signed file
    let cases = args.tier.pick(3000, 60000);
    let full_edit_limit = args.tier.pick(160usize, 400usize);
    let strat = (content(), any::<u64>());
    crate::drive(
        &report,
        "sign-verify-edit",
        cases,
        strat,
        |(pieces, salt)| {
            let content = render(pieces);
            let cause = root_cause(pieces);
            let (t, b, f) = classify(pieces);
            let nontrivial = t > 1 || b > 0 || f > 0;
            let mut labels = vec![cause];
            if !content.is_ascii() {
                labels.push("non-ascii");
            }
            report.case(if nontrivial { Some(content.as_str()) } else { None }, &labels);
            report.sample(cause, 2, || json!({"content": content}));
            let signed = check_sign(&content, cause)?;
            let n = signed.chars().count();
            // positions: all when short, else a deterministic sample derived from the generated salt
            let positions: Vec<usize> = if n <= full_edit_limit {
                (0..=n).collect()
            } else {
                (0..full_edit_limit).map(|k| ((salt.wrapping_mul(6364136223846793005).wrapping_add((k as u64).wrapping_mul(1442695040888963407))) % (n as u64 + 1)) as usize).collect()
            };
            for (k, &pos) in positions.iter().enumerate() {
                let ch = EDIT_CHARS[(*salt as usize).wrapping_add(k) % EDIT_CHARS.len()];
                for e in [Edit::Subst(pos, ch), Edit::Insert(pos, ch), Edit::Delete(pos)] {
                    if check_edit(&signed, &content, &e, cause)? {
                        report.case(Some(&(content.as_str(), format!("{e:?}"))), &["edit-outside-signature"]);
                    } else {
                        report.label("edit-skipped(inside signature digits / no-op)");
                    }
                }
            }
            Ok(())
        },
        |(pieces, _)| pieces_json(pieces),
    );

    // (b) targeted: hex-digit substitutions everywhere outside the signature (digits are what a
    // verifier that mis-locates the signature would overlook)
    let cases_b = args.tier.pick(1500, 30000);
    let strat_b = (content(), any::<u16>(), prop::sample::select(vec!['0', 'a', 'f', '7']), 0..3u8);
    crate::drive(
        &report,
        "targeted-edit",
        cases_b,
        strat_b,
        |(pieces, at, ch, kind)| {
            let content = render(pieces);
            let cause = root_cause(pieces);
            let signed = match check_sign(&content, cause) {
                Ok(s) => s,
                Err(f) if report.is_known(&f.signature) => {
                    report.known_hit(&f.signature);
                    return Ok(());
                }
                Err(f) => return Err(f),
            };
            let n = signed.chars().count();
            let pos = vcore::pick_index(*at, n + 1);
            let e = match kind {
                0 => Edit::Subst(pos, *ch),
                1 => Edit::Insert(pos, *ch),
                _ => Edit::Delete(pos),
            };
            if check_edit(&signed, &content, &e, cause)? {
                report.case(Some(&(content.as_str(), format!("{e:?}"))), &["targeted-edit"]);
            } else {
                report.case::<str>(None, &["targeted-edit-skipped"]);
            }
            Ok(())
        },
        |(pieces, at, ch, kind)| {
            let content = render(pieces);
            let n = try_sign_file(&content).map(|s| s.chars().count()).unwrap_or(0);
            let kind_name = ["subst", "insert", "delete"][*kind as usize % 3];
            json!({"content": content, "edit": [kind_name, vcore::pick_index(*at, n + 1), ch.to_string()]})
        },
    );
    report.finish();
}
