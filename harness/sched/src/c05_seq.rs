//! C05 — interning is a faithful bijection (sequential part + driver of the schedule / Miri legs).
//!
//! Sequential domain: cases of 1–8 operations over byte strings (length 0..=64, biased to the
//! 21/22/23 inline boundary, families that differ only by trailing NULs / last byte), strings (empty,
//! ASCII, multi-byte, byte length around the boundary), `StringKey`s, paths (1–6 components, repeated
//! components, absolute / doubled separators / trailing separator / interned in two steps), a custom
//! interned struct holding interned strings, a recursive custom struct, and a custom type with a zero
//! element and a lookup type; plus serde trees with repeated ids.
//! Oracle: the reference model of `model.rs` (value -> index, index -> value) for every intern call,
//! then for every pair of ids of a case: `==` iff the values are equal, `Ord` of `StringId` /
//! `StringKey` / `BytesId` / `PathId` = order of text / bytes / component lists, interned
//! `SmallBytes` values compare and hash like their bytes; `from_index_checked` against the model;
//! serde: `WithIntern` round trips through bincode and serde_json give back an equal tree and do
//! not grow any table.
use crate::model::{BytesVia, ItemId, Model, NodeId, StrVia, TagId};
use intern::path::PathId;
use intern::string::{BytesId, StringId};
use intern::string_key::StringKey;
use intern::{InternId, Lookup, WithIntern};
use proptest::prelude::*;
use serde_derive::{Deserialize, Serialize};
use serde_json::{json, Value};
use std::cell::RefCell;
use std::cmp::Ordering;
use std::hash::{Hash, Hasher};
use vcore::{Args, Fail, Report};

// ------------------------------------------------------------------------------------ generators

#[derive(Clone, Debug)]
pub enum BytesVariant {
    Same,
    AppendNul(u8),
    DropLast(u8),
    FlipLast,
    Prefix(Vec<u8>),
}

fn apply_variant(base: &[u8], v: &BytesVariant) -> Vec<u8> {
    let mut out = base.to_vec();
    match v {
        BytesVariant::Same => {}
        BytesVariant::AppendNul(k) => out.extend(std::iter::repeat(0u8).take(*k as usize)),
        BytesVariant::DropLast(k) => {
            let n = out.len().saturating_sub(*k as usize);
            out.truncate(n);
        }
        BytesVariant::FlipLast => {
            if let Some(l) = out.last_mut() {
                *l ^= 0x01;
            }
        }
        BytesVariant::Prefix(p) => {
            let mut q = p.clone();
            q.extend_from_slice(&out);
            out = q;
        }
    }
    out
}

fn byte_len() -> impl Strategy<Value = usize> {
    prop_oneof![
        3 => 0usize..=8,
        2 => Just(21usize),
        3 => Just(22usize),
        2 => Just(23usize),
        3 => 19usize..=25,
        2 => 9usize..=64,
        1 => Just(64usize),
    ]
}

fn bytes_base() -> impl Strategy<Value = Vec<u8>> {
    let small_alphabet = prop::sample::select(vec![0u8, b'a', b'b', b'/', 0xff, 0x80, b' ']);
    byte_len().prop_flat_map(move |n| {
        prop_oneof![
            3 => prop::collection::vec(any::<u8>(), n..=n),
            2 => prop::collection::vec(small_alphabet.clone(), n..=n),
            1 => prop::collection::vec(Just(0u8), n..=n),
        ]
    })
}

fn bytes_variant() -> impl Strategy<Value = BytesVariant> {
    prop_oneof![
        4 => Just(BytesVariant::Same),
        2 => (1u8..=3).prop_map(BytesVariant::AppendNul),
        2 => (1u8..=2).prop_map(BytesVariant::DropLast),
        1 => Just(BytesVariant::FlipLast),
        1 => prop::collection::vec(any::<u8>(), 1..=2).prop_map(BytesVariant::Prefix),
    ]
}

fn text_value() -> impl Strategy<Value = String> {
    prop_oneof![
        1 => Just(String::new()),
        3 => "[a-c]{0,6}",
        3 => "[a-z0-9_]{19,25}",
        3 => "[aé漢😀 b]{5,24}",
        1 => "[a-zé漢😀\\x00\\n ]{0,40}",
        1 => "\\PC{0,12}",
    ]
}

fn component() -> impl Strategy<Value = Vec<u8>> {
    prop_oneof![
        5 => prop::sample::select(vec!["a", "b", "src", "lib.rs", "..", "a.b", "_"]).prop_map(|s| s.as_bytes().to_vec()),
        2 => "[a-c]{1,3}".prop_map(|s| s.into_bytes()),
        1 => "[a-zé漢 ]{20,24}".prop_map(|s| s.into_bytes()),
        1 => prop::collection::vec(prop::sample::select(vec![b'x', 0xffu8, 0x80, b'.', b' ']), 2..=4),
    ]
    .prop_filter("a path component is neither empty nor '.'", |c| !c.is_empty() && c != b".")
}

#[derive(Clone, Debug)]
pub struct PathSpec {
    pub absolute: bool,
    pub comps: Vec<Vec<u8>>,
    pub double_sep: bool,
    pub trailing: bool,
    pub split: Option<usize>,
}

fn path_spec() -> impl Strategy<Value = PathSpec> {
    (any::<bool>(), prop::collection::vec(component(), 1..=6), prop::bool::weighted(0.2), prop::bool::weighted(0.2), prop::option::weighted(0.3, 1usize..=5)).prop_map(
        |(absolute, comps, double_sep, trailing, split)| PathSpec { absolute: absolute && comps.len() < 6, comps, double_sep, trailing, split },
    )
}

#[derive(Clone, Debug)]
pub struct NodeSpec {
    pub label: String,
    pub kids: Vec<NodeSpec>,
}

fn label() -> impl Strategy<Value = String> {
    prop_oneof![
        4 => prop::sample::select(vec!["x", "y", "", "node-label-of-22-bytes", "node-label-of-23-bytes!", "é漢"]).prop_map(String::from),
        1 => "[a-c]{0,3}",
    ]
}

fn node_spec() -> impl Strategy<Value = NodeSpec> {
    let leaf = label().prop_map(|label| NodeSpec { label, kids: vec![] });
    leaf.prop_recursive(3, 8, 3, |inner| {
        (label(), prop::collection::vec(inner, 0..=3), any::<bool>()).prop_map(|(label, mut kids, dup)| {
            if dup && !kids.is_empty() {
                let k = kids[0].clone();
                kids.push(k);
            }
            NodeSpec { label, kids }
        })
    })
}

#[derive(Clone, Debug)]
pub enum SeqOp {
    Bytes { base: u8, variant: BytesVariant, via: u8 },
    Str { text: String, via: u8 },
    PoolStr { i: u8, via: u8 },
    Key { text: String },
    Tag { text: String, owned: bool },
    Path(PathSpec),
    Item { name: u8, blob: u8, n: i64 },
    Node(NodeSpec),
    FromIndex(u16),
}

fn seq_op() -> impl Strategy<Value = SeqOp> {
    prop_oneof![
        6 => (0u8..3, bytes_variant(), 0u8..3).prop_map(|(base, variant, via)| SeqOp::Bytes { base, variant, via }),
        3 => (text_value(), 0u8..4).prop_map(|(text, via)| SeqOp::Str { text, via }),
        2 => (0u8..4, 0u8..4).prop_map(|(i, via)| SeqOp::PoolStr { i, via }),
        1 => text_value().prop_map(|text| SeqOp::Key { text }),
        1 => (prop_oneof![Just(String::new()), "[a-c]{0,3}", "[a-z]{20,24}"], any::<bool>()).prop_map(|(text, owned)| SeqOp::Tag { text, owned }),
        3 => path_spec().prop_map(SeqOp::Path),
        2 => (0u8..4, 0u8..3, -2i64..=2).prop_map(|(name, blob, n)| SeqOp::Item { name, blob, n }),
        1 => node_spec().prop_map(SeqOp::Node),
        1 => any::<u16>().prop_map(SeqOp::FromIndex),
    ]
}

#[derive(Clone, Debug)]
pub struct SeqCase {
    pub bases: Vec<Vec<u8>>,
    pub pool: Vec<String>,
    pub ops: Vec<SeqOp>,
}

fn seq_case() -> impl Strategy<Value = SeqCase> {
    (prop::collection::vec(bytes_base(), 3..=3), prop::collection::vec(text_value(), 4..=4), prop::collection::vec(seq_op(), 1..=8))
        .prop_map(|(bases, pool, ops)| SeqCase { bases, pool, ops })
}

fn bytes_json(b: &[u8]) -> Value {
    json!(b)
}

fn path_json(p: &PathSpec) -> Value {
    json!({"absolute": p.absolute, "comps": p.comps, "double_sep": p.double_sep, "trailing": p.trailing, "split": p.split})
}

fn node_json(n: &NodeSpec) -> Value {
    json!({"label": n.label, "kids": n.kids.iter().map(node_json).collect::<Vec<_>>()})
}

/// The concrete operations of a case (what a replay runs).
fn case_json(c: &SeqCase) -> Value {
    let ops: Vec<Value> = c
        .ops
        .iter()
        .map(|op| match op {
            SeqOp::Bytes { base, variant, via } => json!({"op": "bytes", "value": bytes_json(&apply_variant(&c.bases[*base as usize % c.bases.len()], variant)), "via": via}),
            SeqOp::Str { text, via } => json!({"op": "str", "text": text, "via": via}),
            SeqOp::PoolStr { i, via } => json!({"op": "str", "text": c.pool[*i as usize % c.pool.len()], "via": via}),
            SeqOp::Key { text } => json!({"op": "key", "text": text}),
            SeqOp::Tag { text, owned } => json!({"op": "tag", "text": text, "owned": owned}),
            SeqOp::Path(p) => json!({"op": "path", "path": path_json(p)}),
            SeqOp::Item { name, blob, n } => json!({"op": "item", "name": c.pool[*name as usize % c.pool.len()], "blob": bytes_json(&c.bases[*blob as usize % c.bases.len()]), "n": n}),
            SeqOp::Node(n) => json!({"op": "node", "node": node_json(n)}),
            SeqOp::FromIndex(i) => json!({"op": "from_index", "i": i}),
        })
        .collect();
    json!({"kind": "seq", "ops": ops})
}

// ------------------------------------------------------------------------------------ execution

thread_local! {
    static MODEL: RefCell<Model> = RefCell::new(Model::new());
}

fn via_bytes(v: u64) -> BytesVia {
    [BytesVia::Slice, BytesVia::Vec, BytesVia::Boxed][(v % 3) as usize]
}

fn via_str(v: u64) -> StrVia {
    [StrVia::Str, StrVia::String, StrVia::Boxed, StrVia::Cow][(v % 4) as usize]
}

fn std_hash<T: Hash + ?Sized>(t: &T) -> u64 {
    let mut h = std::collections::hash_map::DefaultHasher::new();
    t.hash(&mut h);
    h.finish()
}

fn node_from_json(m: &mut Model, v: &Value) -> Result<NodeId, Fail> {
    let mut kids = vec![];
    for k in v["kids"].as_array().cloned().unwrap_or_default() {
        kids.push(node_from_json(m, &k)?);
    }
    m.node(v["label"].as_str().unwrap_or(""), &kids)
}

fn bytes_of(v: &Value) -> Vec<u8> {
    v.as_array().map(|a| a.iter().map(|x| x.as_u64().unwrap_or(0) as u8).collect()).unwrap_or_default()
}

fn path_from_json(m: &mut Model, p: &Value) -> Result<(PathId, Vec<Vec<u8>>), Fail> {
    let comps: Vec<Vec<u8>> = p["comps"].as_array().map(|a| a.iter().map(bytes_of).collect()).unwrap_or_default();
    let absolute = p["absolute"].as_bool().unwrap_or(false);
    let sep = if p["double_sep"].as_bool().unwrap_or(false) { "//" } else { "/" };
    let id = m.path(absolute, &comps, sep, p["trailing"].as_bool().unwrap_or(false), p["split"].as_u64().map(|k| k as usize))?;
    let mut full = vec![];
    if absolute {
        full.push(b"/".to_vec());
    }
    full.extend(comps);
    Ok((id, full))
}

#[derive(Default)]
struct Produced {
    bytes: Vec<(BytesId, Vec<u8>)>,
    strings: Vec<(StringId, String)>,
    keys: Vec<(StringKey, String)>,
    paths: Vec<(PathId, Vec<Vec<u8>>)>,
    tags: Vec<(TagId, String)>,
    items: Vec<(ItemId, (String, Vec<u8>, i64))>,
    new_values: u64,
}

fn ord_fail(kind: &str, a: String, b: String, got: Ordering, want: Ordering) -> Fail {
    Fail::new(format!("{kind}:order-differs"), format!("{kind}: cmp({a}, {b}) = {got:?} but the values compare {want:?}"))
}

fn eq_fail(kind: &str, a: String, b: String, ids_equal: bool) -> Fail {
    let sig = if ids_equal { "different-values-same-id" } else { "equal-values-different-ids" };
    Fail::new(format!("{kind}:{sig}"), format!("{kind}: ids of {a} and {b} are {}equal", if ids_equal { "" } else { "not " }))
}

/// Pairwise id-vs-value comparisons over everything a case produced.
fn check_pairs(p: &Produced) -> Result<(), Fail> {
    for (i, (a, va)) in p.bytes.iter().enumerate() {
        for (b, vb) in &p.bytes[i..] {
            if (a == b) != (va == vb) {
                return Err(eq_fail("bytes", format!("{va:?}"), format!("{vb:?}"), a == b));
            }
            if a.cmp(b) != va.cmp(vb) || a.partial_cmp(b) != Some(va.cmp(vb)) {
                return Err(ord_fail("bytes", format!("{va:?}"), format!("{vb:?}"), a.cmp(b), va.cmp(vb)));
            }
            // the interned values themselves (SmallBytes): equality and hash follow the bytes
            let (sa, sb) = (a.get(), b.get());
            if (sa == sb) != (va == vb) {
                return Err(Fail::new("bytes:interned-value-eq-differs", format!("interned values of {va:?} and {vb:?}: == is {}", sa == sb)));
            }
            if va == vb && std_hash(sa) != std_hash(sb) {
                return Err(Fail::new("bytes:interned-value-hash-differs", format!("equal interned values {va:?} hash differently")));
            }
            if std_hash(sa) != std_hash(va.as_slice()) {
                return Err(Fail::new("bytes:interned-value-hash-differs", format!("interned value of {va:?} does not hash like its bytes")));
            }
        }
        let utf8 = std::str::from_utf8(va);
        match (StringId::from_bytes(*a), utf8) {
            (Ok(s), Ok(t)) if s.as_str() == t && s.as_bytes() == *a => {}
            (Err(_), Err(_)) => {}
            (got, _) => return Err(Fail::new("bytes:from_bytes-differs", format!("StringId::from_bytes of {va:?}: {:?}, utf-8 valid: {}", got.map(|s| s.as_str()), utf8.is_ok()))),
        }
    }
    for (i, (a, va)) in p.strings.iter().enumerate() {
        for (b, vb) in &p.strings[i..] {
            if (a == b) != (va == vb) {
                return Err(eq_fail("string", format!("{va:?}"), format!("{vb:?}"), a == b));
            }
            if a.cmp(b) != va.cmp(vb) {
                return Err(ord_fail("string", format!("{va:?}"), format!("{vb:?}"), a.cmp(b), va.cmp(vb)));
            }
        }
        // a string and the byte string with the same bytes are the same interned value
        for (b, vb) in &p.bytes {
            if (a.as_bytes() == *b) != (va.as_bytes() == vb.as_slice()) {
                return Err(eq_fail("string-vs-bytes", format!("{va:?}"), format!("{vb:?}"), a.as_bytes() == *b));
            }
        }
    }
    for (i, (a, va)) in p.keys.iter().enumerate() {
        for (b, vb) in &p.keys[i..] {
            if (a == b) != (va == vb) {
                return Err(eq_fail("string_key", format!("{va:?}"), format!("{vb:?}"), a == b));
            }
            if a.cmp(b) != va.cmp(vb) {
                return Err(ord_fail("string_key", format!("{va:?}"), format!("{vb:?}"), a.cmp(b), va.cmp(vb)));
            }
        }
    }
    for (i, (a, va)) in p.paths.iter().enumerate() {
        for (b, vb) in &p.paths[i..] {
            if (a == b) != (va == vb) {
                return Err(eq_fail("path", format!("{va:?}"), format!("{vb:?}"), a == b));
            }
            if a.cmp(b) != va.cmp(vb) {
                return Err(ord_fail("path", format!("{va:?}"), format!("{vb:?}"), a.cmp(b), va.cmp(vb)));
            }
        }
    }
    for (i, (a, va)) in p.tags.iter().enumerate() {
        for (b, vb) in &p.tags[i..] {
            if (a == b) != (va == vb) {
                return Err(eq_fail("tag", format!("{va:?}"), format!("{vb:?}"), a == b));
            }
        }
    }
    for (i, (a, va)) in p.items.iter().enumerate() {
        for (b, vb) in &p.items[i..] {
            if (a == b) != (va == vb) {
                return Err(eq_fail("item", format!("{va:?}"), format!("{vb:?}"), a == b));
            }
        }
    }
    Ok(())
}

/// Run the concrete operations of one case (generator output or replay file) against the model.
fn run_seq_ops(ops: &Value) -> Result<Produced, Fail> {
    MODEL.with(|m| {
        let m = &mut *m.borrow_mut();
        let mut p = Produced::default();
        let before = m.new_values;
        for op in ops.as_array().cloned().unwrap_or_default() {
            let via = op["via"].as_u64().unwrap_or(0);
            match op["op"].as_str().unwrap_or("") {
                "bytes" => {
                    let v = bytes_of(&op["value"]);
                    let id = m.bytes(&v, via_bytes(via))?;
                    p.bytes.push((id, v));
                }
                "str" => {
                    let t = op["text"].as_str().unwrap_or("").to_string();
                    let id = m.string(&t, via_str(via))?;
                    p.strings.push((id, t));
                }
                "key" => {
                    let t = op["text"].as_str().unwrap_or("").to_string();
                    let k = m.key(&t)?;
                    p.keys.push((k, t));
                }
                "tag" => {
                    let t = op["text"].as_str().unwrap_or("").to_string();
                    let id = m.tag(&t, op["owned"].as_bool().unwrap_or(false))?;
                    p.tags.push((id, t));
                }
                "path" => {
                    let (id, full) = path_from_json(m, &op["path"])?;
                    p.paths.push((id, full));
                }
                "item" => {
                    let name = op["name"].as_str().unwrap_or("").to_string();
                    let blob = bytes_of(&op["blob"]);
                    let n = op["n"].as_i64().unwrap_or(0);
                    let id = m.item(&name, &blob, n)?;
                    p.items.push((id, (name, blob, n)));
                }
                "node" => {
                    node_from_json(m, &op["node"])?;
                }
                "from_index" => {
                    // map the generated number onto [0, len + 3): mostly valid indices, sometimes beyond
                    let span = m.bytes.len() as u64 + 3;
                    let i = (op["i"].as_u64().unwrap_or(0) * span) >> 16;
                    m.check_bytes_index(i as u32)?;
                }
                _ => {}
            }
        }
        p.new_values = m.new_values - before;
        check_pairs(&p)?;
        Ok(p)
    })
}

// ------------------------------------------------------------------------------------ serde

#[derive(Clone, Debug)]
pub enum TreeSpec {
    S(u8),
    B(u8),
    K(u8),
    T(u8),
    P(PathSpec),
    I(u8, u8, i64),
    N(NodeSpec),
    U(u32),
    List(Vec<TreeSpec>),
    Pair(Box<TreeSpec>, Box<TreeSpec>),
    Opt(Option<Box<TreeSpec>>),
    Map(Vec<(u8, TreeSpec)>),
}

#[derive(Clone, Debug, PartialEq, Serialize, Deserialize)]
pub enum Tree {
    S(StringId),
    B(BytesId),
    K(StringKey),
    T(TagId),
    P(PathId),
    I(ItemId),
    N(NodeId),
    U(u32),
    List(Vec<Tree>),
    Pair(Box<Tree>, Box<Tree>),
    Opt(Option<Box<Tree>>),
    Map(Vec<(StringId, Tree)>),
}

fn tree_spec() -> impl Strategy<Value = TreeSpec> {
    let leaf = prop_oneof![
        4 => (0u8..4).prop_map(TreeSpec::S),
        3 => (0u8..3).prop_map(TreeSpec::B),
        1 => (0u8..4).prop_map(TreeSpec::K),
        1 => (0u8..4).prop_map(TreeSpec::T),
        2 => path_spec().prop_map(TreeSpec::P),
        2 => (0u8..4, 0u8..3, 0i64..2).prop_map(|(a, b, n)| TreeSpec::I(a, b, n)),
        2 => node_spec().prop_map(TreeSpec::N),
        1 => any::<u32>().prop_map(TreeSpec::U),
    ];
    let nested = leaf.prop_recursive(3, 16, 5, |inner| {
        prop_oneof![
            3 => prop::collection::vec(inner.clone(), 0..=5).prop_map(TreeSpec::List),
            2 => (inner.clone(), inner.clone()).prop_map(|(a, b)| TreeSpec::Pair(Box::new(a), Box::new(b))),
            1 => prop::option::of(inner.clone()).prop_map(|o| TreeSpec::Opt(o.map(Box::new))),
            1 => prop::collection::vec((0u8..4, inner), 0..=3).prop_map(TreeSpec::Map),
        ]
    });
    // the top level is a list, so that ids drawn from the small pools repeat
    prop_oneof![
        1 => nested.clone(),
        5 => prop::collection::vec(nested, 2..=8).prop_map(TreeSpec::List),
    ]
}

#[derive(Clone, Debug)]
pub struct SerdeCase {
    pub bases: Vec<Vec<u8>>,
    pub pool: Vec<String>,
    pub tree: TreeSpec,
}

fn serde_case() -> impl Strategy<Value = SerdeCase> {
    (prop::collection::vec(bytes_base(), 3..=3), prop::collection::vec(text_value(), 4..=4), tree_spec()).prop_map(|(bases, pool, tree)| SerdeCase { bases, pool, tree })
}

fn tree_json(c: &SerdeCase, t: &TreeSpec) -> Value {
    let s = |i: &u8| c.pool[*i as usize % c.pool.len()].clone();
    let b = |i: &u8| c.bases[*i as usize % c.bases.len()].clone();
    match t {
        TreeSpec::S(i) => json!({"S": s(i)}),
        TreeSpec::B(i) => json!({"B": b(i)}),
        TreeSpec::K(i) => json!({"K": s(i)}),
        TreeSpec::T(i) => json!({"T": s(i)}),
        TreeSpec::P(p) => json!({"P": path_json(p)}),
        TreeSpec::I(a, bb, n) => json!({"I": {"name": s(a), "blob": b(bb), "n": n}}),
        TreeSpec::N(n) => json!({"N": node_json(n)}),
        TreeSpec::U(u) => json!({"U": u}),
        TreeSpec::List(l) => json!({"List": l.iter().map(|x| tree_json(c, x)).collect::<Vec<_>>()}),
        TreeSpec::Pair(a, bb) => json!({"Pair": [tree_json(c, a), tree_json(c, bb)]}),
        TreeSpec::Opt(o) => json!({"Opt": o.as_ref().map(|x| tree_json(c, x))}),
        TreeSpec::Map(m) => json!({"Map": m.iter().map(|(k, v)| json!([s(k), tree_json(c, v)])).collect::<Vec<_>>()}),
    }
}

/// Build the tree of ids from its JSON description (through the model), counting how often each id
/// occurs at the top level of the tree.
fn build_tree(m: &mut Model, v: &Value, occ: &mut std::collections::HashMap<(u8, u32), u32>) -> Result<Tree, Fail> {
    let (tag, body) = v.as_object().and_then(|o| o.iter().next()).map(|(k, b)| (k.as_str(), b)).unwrap_or(("U", &Value::Null));
    let mut seen = |table: u8, ix: u32| *occ.entry((table, ix)).or_insert(0) += 1;
    Ok(match tag {
        "S" => {
            let id = m.string(body.as_str().unwrap_or(""), StrVia::Str)?;
            seen(0, id.index());
            Tree::S(id)
        }
        "B" => {
            let id = m.bytes(&bytes_of(body), BytesVia::Slice)?;
            seen(0, id.index());
            Tree::B(id)
        }
        "K" => Tree::K(m.key(body.as_str().unwrap_or(""))?),
        "T" => {
            let id = m.tag(body.as_str().unwrap_or(""), true)?;
            seen(1, id.index());
            Tree::T(id)
        }
        "P" => {
            let (id, _) = path_from_json(m, body)?;
            seen(2, id.index());
            Tree::P(id)
        }
        "I" => {
            let id = m.item(body["name"].as_str().unwrap_or(""), &bytes_of(&body["blob"]), body["n"].as_i64().unwrap_or(0))?;
            seen(3, id.index());
            Tree::I(id)
        }
        "N" => {
            let id = node_from_json(m, body)?;
            seen(4, id.index());
            Tree::N(id)
        }
        "List" => {
            let mut out = vec![];
            for x in body.as_array().cloned().unwrap_or_default() {
                out.push(build_tree(m, &x, occ)?);
            }
            Tree::List(out)
        }
        "Pair" => Tree::Pair(Box::new(build_tree(m, &body[0], occ)?), Box::new(build_tree(m, &body[1], occ)?)),
        "Opt" => Tree::Opt(if body.is_null() { None } else { Some(Box::new(build_tree(m, body, occ)?)) }),
        "Map" => {
            let mut out = vec![];
            for kv in body.as_array().cloned().unwrap_or_default() {
                let k = m.string(kv[0].as_str().unwrap_or(""), StrVia::Str)?;
                *occ.entry((0, k.index())).or_insert(0) += 1;
                out.push((k, build_tree(m, &kv[1], occ)?));
            }
            Tree::Map(out)
        }
        _ => Tree::U(body.as_u64().unwrap_or(0) as u32),
    })
}

/// Project a tree of ids back to plain values (what "deserializes to equal values" compares).
fn project(t: &Tree) -> Value {
    fn node(n: NodeId) -> Value {
        json!({"label": n.get().label.as_str(), "kids": n.get().kids.iter().map(|k| node(*k)).collect::<Vec<_>>()})
    }
    match t {
        Tree::S(s) => json!({"S": s.as_str()}),
        Tree::B(b) => json!({"B": b.as_bytes()}),
        Tree::K(k) => json!({"K": k.lookup()}),
        Tree::T(t) => json!({"T": t.get().0}),
        Tree::P(p) => json!({"P": p.to_path_buf().iter().map(|c| std::os::unix::ffi::OsStrExt::as_bytes(c).to_vec()).collect::<Vec<_>>()}),
        Tree::I(i) => json!({"I": {"name": i.get().name.as_str(), "blob": i.get().blob.as_bytes(), "n": i.get().n}}),
        Tree::N(n) => json!({"N": node(*n)}),
        Tree::U(u) => json!({"U": u}),
        Tree::List(l) => json!({"List": l.iter().map(project).collect::<Vec<_>>()}),
        Tree::Pair(a, b) => json!({"Pair": [project(a), project(b)]}),
        Tree::Opt(o) => json!({"Opt": o.as_ref().map(|x| project(x))}),
        Tree::Map(m) => json!({"Map": m.iter().map(|(k, v)| json!([k.as_str(), project(v)])).collect::<Vec<_>>()}),
    }
}

fn table_lens() -> [usize; 5] {
    [BytesId::table().len(), TagId::table().len(), PathId::table().len(), ItemId::table().len(), NodeId::table().len()]
}

/// Returns the number of top-level back-references of the tree.
fn run_serde_tree(tree_json: &Value) -> Result<u32, Fail> {
    let (tree, backrefs) = MODEL.with(|m| -> Result<(Tree, u32), Fail> {
        let m = &mut *m.borrow_mut();
        let mut occ = Default::default();
        let tree = build_tree(m, tree_json, &mut occ)?;
        Ok((tree, occ.values().map(|c| c.saturating_sub(1)).sum()))
    })?;
    let lens = table_lens();
    let want = project(&tree);
    let check = |codec: &str, back: Result<Tree, String>| -> Result<(), Fail> {
        let back = back.map_err(|e| Fail::new(format!("serde:{codec}:error"), format!("{codec} round trip failed: {e}\ntree = {tree:?}")))?;
        if back != tree {
            return Err(Fail::new(format!("serde:{codec}:ids-differ"), format!("{codec} round trip of {tree:?}\n gave {back:?}")));
        }
        let got = project(&back);
        if got != want {
            return Err(Fail::new(format!("serde:{codec}:values-differ"), format!("{codec} round trip values differ:\n want {want}\n got  {got}")));
        }
        let after = table_lens();
        if after != lens {
            return Err(Fail::new(format!("serde:{codec}:tables-grew"), format!("{codec} round trip of already interned values changed table lens {lens:?} -> {after:?}")));
        }
        Ok(())
    };
    let r = vcore::catch_panic(|| {
        let bin = bincode::serialize(&WithIntern(&tree)).map_err(|e| e.to_string());
        bin.and_then(|b| WithIntern::strip(bincode::deserialize::<WithIntern<Tree>>(&b)).map_err(|e| e.to_string()))
    })
    .unwrap_or_else(|p| Err(format!("panic: {p}")));
    check("bincode", r)?;
    let r = vcore::catch_panic(|| {
        let js = serde_json::to_string(&WithIntern(&tree)).map_err(|e| e.to_string());
        js.and_then(|s| WithIntern::strip(serde_json::from_str::<WithIntern<Tree>>(&s)).map_err(|e| e.to_string()))
    })
    .unwrap_or_else(|p| Err(format!("panic: {p}")));
    check("json", r)?;
    Ok(backrefs)
}

// ------------------------------------------------------------------------------------ driver

/// First use of every table (lazy shard initialisation), through the model.
pub fn warm_up() -> Result<(), Fail> {
    MODEL.with(|m| {
        let m = &mut *m.borrow_mut();
        m.adopt_foreign();
        m.bytes(b"warm-up", BytesVia::Slice)?;
        m.tag("warm-up", true)?;
        m.path(false, &[b"warm".to_vec(), b"up".to_vec()], "/", false, None)?;
        m.item("warm", b"up", 0)?;
        let k = m.node("warm", &[])?;
        m.node("up", &[k])?;
        Ok(())
    })
}

pub const RULE: &str = "sequential cases: non-trivial = the case interned at least one value that was new to its table \
and compared at least two ids (distinct by operations); serde cases: non-trivial = the tree repeats already \
serialized ids at least twice (>=2 back-references; distinct by tree); schedule executions: non-trivial = two \
threads were interning the same new value and one of them found the shard lock held by the other (try_write \
failed or a lock attempt had to be retried while the holder was interning the same value; shim event log; \
distinct by (program, schedule))";

pub fn run_input(report: &Report, input: &Value) -> Result<(), Fail> {
    match input["kind"].as_str().unwrap_or("") {
        "seq" => run_seq_ops(&input["ops"]).map(|_| ()),
        "serde" => run_serde_tree(&input["tree"]).map(|_| ()),
        _ => match input["engine"].as_str().unwrap_or("") {
            "miri" => crate::miri::replay(report, "C05", input),
            _ => crate::c05_sched::replay(report, input),
        },
    }
}

pub fn run(args: &Args) {
    let report = Report::new(args, "exploration", RULE);
    report.engine("pbt (proptest, reference model of the intern tables)");
    report.engine("sched (shuttle 0.9: random + PCT depth 2/3 over the verif_sync shims)");
    report.assumption("shuttle explores sampled, sequentially consistent interleavings only (switch points: every atomic/lock operation of sharded_set, atomic_arena, intern)");
    report.assumption("Miri adds randomized schedules with weak-memory emulation (few small programs, real std/parking_lot primitives)");
    report.assumption("the lazy OnceCell initialisation of a table's shards is done before the scheduled threads start (once_cell is not shimmed; Miri programs do race on it)");
    report.assumption("serde round trips happen inside one process (ids are compared, and values through lookup)");
    report.assumption("paths: components are non-empty, contain no '/' and are not '.', as Path::iter produces them; the empty path is a documented panic");
    crate::explore::install_hooks();
    // make sure every table's shards exist before anything else (and before shuttle runs)
    if let Err(f) = warm_up() {
        report.violation("warm-up", &f, json!({"kind": "seq", "ops": []}));
        report.finish();
    }

    if let Some(path) = &args.replay {
        let v = vcore::read_replay(path);
        let r = run_input(&report, &v["input"]);
        crate::explore::finish_replay(&report, &v["input"], r);
    }
    report.run_regressions(|input| run_input(&report, input));
    // schedule replays intern values the sequential model has not seen
    MODEL.with(|m| m.borrow_mut().adopt_foreign());

    // (a) sequential model-based cases
    let cases = args.tier.pick(20_000u32, 400_000);
    if let Some((case, fail)) = vcore::run_prop(&report, "c05-seq", cases, seq_case(), |c| {
        let js = case_json(c);
        match run_seq_ops(&js["ops"]) {
            Ok(p) => {
                let compared = p.bytes.len() + p.strings.len() + p.keys.len() + p.paths.len() + p.tags.len() + p.items.len();
                let nt = p.new_values > 0 && compared >= 2;
                let mut labels = vec!["seq"];
                if p.bytes.iter().any(|(_, v)| (21..=23).contains(&v.len())) || p.strings.iter().any(|(_, s)| (21..=23).contains(&s.len())) {
                    labels.push("seq:inline-boundary-21..23");
                }
                if !p.paths.is_empty() {
                    labels.push("seq:path");
                }
                if !p.items.is_empty() {
                    labels.push("seq:custom-struct");
                }
                if p.new_values == 0 {
                    labels.push("seq:only-known-values");
                }
                let key = js.to_string();
                report.case(if nt { Some(&key) } else { None }, &labels);
                report.sample("seq", 2, || js.clone());
                Ok(())
            }
            Err(f) => Err(f),
        }
    }) {
        report.violation("c05-seq", &fail, case_json(&case));
    }
    report.unfreeze();

    // (b) serde round trips
    if report.violation_count() == 0 {
        let cases = args.tier.pick(4_000u32, 80_000);
        if let Some((case, fail)) = vcore::run_prop(&report, "c05-serde", cases, serde_case(), |c| {
            let js = tree_json(c, &c.tree);
            let backrefs = run_serde_tree(&js)?;
            let labels: &[&str] = if backrefs >= 2 { &["serde", "serde:>=2-backrefs"] } else { &["serde"] };
            let key = js.to_string();
            report.case(if backrefs >= 2 { Some(&key) } else { None }, labels);
            report.sample("serde", 1, || js.clone());
            Ok(())
        }) {
            report.violation("c05-serde", &fail, json!({"kind": "serde", "tree": tree_json(&case, &case.tree)}));
        }
        report.unfreeze();
    }

    // (c) schedules, (d) Miri
    if report.violation_count() == 0 {
        crate::c05_sched::run(&report, args);
    }
    if report.violation_count() == 0 {
        crate::miri::run(&report, args, "C05");
    }
    report.finish();
}
