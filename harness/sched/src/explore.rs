//! Glue between the intern crate's `verif_sync` shims and shuttle.
//!
//! * schedule hook: `Point::Op` -> a plain shuttle scheduling point (`switch`), `Point::Spin` (a lock
//!   acquisition failed) -> `yield_now`, so PCT de-prioritises the spinner and the random scheduler
//!   simply picks again.  Outside a shuttle execution (sequential checks, pre-fills) both are no-ops.
//! * event hook: appends (task, event) to a per-execution log the checks analyse after the join.
//! * `Rec`: scheduler wrapper that records the task chosen at every step; the recorded list is the
//!   replay (fed back through shuttle's `ReplayScheduler`).
use intern::verif_sync::{self, Event, Point};
use serde_json::{json, Value};
use shuttle::scheduler::{PctScheduler, RandomScheduler, ReplayScheduler, Schedule, Scheduler, Task, TaskId};
use std::sync::atomic::{AtomicBool, AtomicU64, Ordering};
use std::sync::{Arc, Mutex};
use vcore::Fail;

static ACTIVE: AtomicBool = AtomicBool::new(false);

#[derive(Clone, Copy, Debug)]
pub enum Entry {
    Sync { task: usize, ev: Event },
    /// harness marker: `task` starts / ends an intern call on value `val`
    Begin { task: usize, val: u32 },
    End { task: usize },
}

static LOG: Mutex<Vec<Entry>> = Mutex::new(Vec::new());

fn schedule_hook(p: Point) {
    if !ACTIVE.load(Ordering::Relaxed) || current_task().is_none() {
        return;
    }
    match p {
        Point::Op => shuttle_engine::runtime::thread::switch(),
        Point::Spin => shuttle::thread::yield_now(),
    }
}

/// The running shuttle task, if this code runs inside an intact execution (not while an execution
/// is being torn down after a panic or a diverged replay).
fn current_task() -> Option<usize> {
    if std::thread::panicking() {
        return None;
    }
    shuttle_engine::runtime::execution::ExecutionState::try_with(|s| s.try_current().map(|t| usize::from(t.id()))).ok().flatten()
}

fn event_hook(ev: Event) {
    if !ACTIVE.load(Ordering::Relaxed) {
        return;
    }
    let Some(task) = current_task() else { return };
    let mut g = LOG.lock().unwrap_or_else(|e| e.into_inner());
    if g.len() < 100_000 {
        g.push(Entry::Sync { task, ev });
    }
}

pub fn install_hooks() {
    verif_sync::set_hooks(Some(schedule_hook), Some(event_hook));
}

/// Shim operations become scheduling points / get logged only while active (inside an execution,
/// between `activate` and `deactivate`).
pub fn activate() {
    LOG.lock().unwrap().clear();
    ACTIVE.store(true, Ordering::SeqCst);
}

pub fn deactivate() {
    ACTIVE.store(false, Ordering::SeqCst);
}

pub fn me() -> usize {
    usize::from(shuttle::current::me())
}

pub fn mark_begin(val: u32) {
    let task = me();
    LOG.lock().unwrap().push(Entry::Begin { task, val });
}

pub fn mark_end() {
    let task = me();
    LOG.lock().unwrap().push(Entry::End { task });
}

pub fn take_log() -> Vec<Entry> {
    std::mem::take(&mut *LOG.lock().unwrap())
}

/// What one execution (one schedule of one program) found.
pub struct IterResult {
    pub fail: Option<Fail>,
    /// is the execution non-trivial by the property's rule?
    pub nontrivial: bool,
    /// the program without per-execution decoration: (key, schedule) identifies a distinct case
    pub key: String,
    pub labels: Vec<&'static str>,
    /// the concrete program (with this iteration's values) — what a replay needs besides the schedule
    pub concrete: Value,
}

pub trait Program: Send + Sync + 'static {
    /// Runs as the main task of one shuttle execution. `iter` is unique per process.
    fn run_iteration(&self, iter: u64) -> IterResult;
}

#[derive(Clone, Copy, Debug, PartialEq, Eq)]
pub enum Kind {
    Random,
    Pct(usize),
}

impl Kind {
    pub fn name(self) -> &'static str {
        match self {
            Kind::Random => "random",
            Kind::Pct(2) => "pct2",
            Kind::Pct(3) => "pct3",
            Kind::Pct(_) => "pct",
        }
    }
}

#[derive(Default)]
struct Shared {
    current: Vec<u32>,
    completed: Vec<u32>,
    stop: bool,
}

struct Rec<S> {
    /// never dropped: shuttle's random scheduler prints a "failing seed" banner when it is dropped
    /// after a run that was stopped early, which would be misleading next to our own replay file
    inner: std::mem::ManuallyDrop<S>,
    shared: Arc<Mutex<Shared>>,
}

impl<S: Scheduler> Scheduler for Rec<S> {
    fn new_execution(&mut self) -> Option<Schedule> {
        let mut g = self.shared.lock().unwrap();
        g.completed = std::mem::take(&mut g.current);
        if g.stop {
            return None;
        }
        drop(g);
        self.inner.new_execution()
    }

    fn next_task(&mut self, runnable: &[&Task], current: Option<TaskId>, is_yielding: bool) -> Option<TaskId> {
        let r = self.inner.next_task(runnable, current, is_yielding);
        if let Some(t) = r {
            self.shared.lock().unwrap().current.push(usize::from(t) as u32);
        }
        r
    }

    fn next_u64(&mut self) -> u64 {
        self.inner.next_u64()
    }
}

pub struct Failure {
    pub fail: Fail,
    pub schedule: Vec<u32>,
    pub concrete: Value,
}

#[derive(Default)]
pub struct Outcome {
    pub executions: u64,
    pub nontrivial_keys: Vec<u64>,
    pub labels: Vec<(&'static str, u64)>,
    pub failure: Option<Failure>,
    pub sample: Option<Value>,
    /// replay only: the recorded schedule did not fit the execution (or ended before it)
    pub diverged: bool,
}

#[derive(Default)]
struct Acc {
    executions: u64,
    keys: Vec<u64>,
    labels: std::collections::BTreeMap<&'static str, u64>,
    fail: Option<(Fail, Value)>,
    sample: Option<Value>,
}

static ITER: AtomicU64 = AtomicU64::new(0);

fn config() -> shuttle::Config {
    let mut c = shuttle::Config::new();
    c.stack_size = 0x40000;
    c.failure_persistence = shuttle::FailurePersistence::None;
    c.max_steps = shuttle::MaxSteps::FailAfter(200_000);
    c.silence_warnings = true;
    c
}

fn panic_message(e: Box<dyn std::any::Any + Send>) -> String {
    if let Some(s) = e.downcast_ref::<&str>() {
        s.to_string()
    } else if let Some(s) = e.downcast_ref::<String>() {
        s.clone()
    } else {
        "non-string panic payload".into()
    }
}

fn drive<S: Scheduler + 'static, P: Program>(sched: S, program: Arc<P>, fixed_iter: Option<u64>) -> Outcome {
    let shared = Arc::new(Mutex::new(Shared::default()));
    let acc = Arc::new(Mutex::new(Acc::default()));
    let rec = Rec { inner: std::mem::ManuallyDrop::new(sched), shared: shared.clone() };
    let runner = shuttle::Runner::new(rec, config());
    let (acc2, shared2) = (acc.clone(), shared.clone());
    let r = std::panic::catch_unwind(std::panic::AssertUnwindSafe(move || {
        runner.run(move || {
            let iter = fixed_iter.unwrap_or_else(|| ITER.fetch_add(1, Ordering::Relaxed));
            let res = program.run_iteration(iter);
            deactivate();
            let mut a = acc2.lock().unwrap();
            a.executions += 1;
            for l in &res.labels {
                *a.labels.entry(l).or_insert(0) += 1;
            }
            if res.nontrivial {
                let steps = shared2.lock().unwrap().current.clone();
                a.keys.push(vcore::hash_of(&(res.key.as_str(), steps)));
            }
            if a.sample.is_none() {
                a.sample = Some(res.concrete.clone());
            }
            if let Some(f) = res.fail {
                if a.fail.is_none() {
                    a.fail = Some((f, res.concrete));
                }
                shared2.lock().unwrap().stop = true;
            }
        })
    }));
    deactivate();
    let mut a = std::mem::take(&mut *acc.lock().unwrap());
    let mut out = Outcome {
        executions: a.executions,
        nontrivial_keys: std::mem::take(&mut a.keys),
        labels: a.labels.iter().map(|(k, v)| (*k, *v)).collect(),
        failure: None,
        sample: a.sample.take(),
        diverged: false,
    };
    let g = shared.lock().unwrap();
    let a_fail = a.fail.take();
    match (r, a_fail) {
        (Ok(_), Some((fail, concrete))) => {
            // the failing execution completed; `completed` holds its full schedule
            let schedule = if g.completed.is_empty() { g.current.clone() } else { g.completed.clone() };
            out.failure = Some(Failure { fail, schedule, concrete });
        }
        (Ok(_), None) => {}
        (Err(e), fail) => {
            // a task panicked (assertion inside the code under test, shuttle step bound, ...)
            let msg = panic_message(e);
            if msg.contains("no task was scheduled") || msg.contains("schedule ended early") || msg.contains("scheduled task is not runnable") {
                out.diverged = true;
                if let Some((fail, concrete)) = fail {
                    out.failure = Some(Failure { fail, schedule: g.current.clone(), concrete });
                }
                return out_unlock(out, g);
            }
            let (fail, concrete) = match fail {
                Some((f, c)) => (f, c),
                None => {
                    let sig = if msg.contains("exceeded max_steps") {
                        "schedule:step-bound-exceeded"
                    } else if msg.contains("deadlock") {
                        "schedule:deadlock"
                    } else {
                        "panic-in-thread"
                    };
                    (Fail::new(sig, format!("panic inside a scheduled execution: {msg}")), LAST_CONCRETE.lock().unwrap().clone())
                }
            };
            out.failure = Some(Failure { fail, schedule: g.current.clone(), concrete });
        }
    }
    out
}

fn out_unlock(out: Outcome, g: std::sync::MutexGuard<'_, Shared>) -> Outcome {
    drop(g);
    out
}

/// Programs store their concrete form here before they start their threads, so that a panic inside
/// the execution can still be reported with a replayable input.
pub static LAST_CONCRETE: Mutex<Value> = Mutex::new(Value::Null);

pub fn explore<P: Program>(kind: Kind, seed: u64, executions: usize, program: Arc<P>) -> Outcome {
    match kind {
        Kind::Random => drive(RandomScheduler::new_from_seed(seed, executions), program, None),
        Kind::Pct(d) => drive(PctScheduler::new_from_seed(seed, d, executions), program, None),
    }
}

/// Re-run one execution under a recorded schedule.
pub fn replay<P: Program>(schedule: &[u32], program: Arc<P>) -> Outcome {
    let sched = Schedule::new_from_task_ids(0, schedule.iter().map(|&t| t as usize));
    let mut rs = ReplayScheduler::new_from_schedule(sched);
    rs.set_allow_incomplete();
    drive(rs, program, Some(u64::MAX))
}

/// Set when a replay could not follow its recorded schedule (or a Miri replay gave no verdict).
pub static REPLAY_INCONCLUSIVE: AtomicBool = AtomicBool::new(false);

/// End of a `--replay` run: a replay that could not be followed is inconclusive (exit 2), never "held".
pub fn finish_replay(report: &vcore::Report, input: &Value, r: Result<(), Fail>) -> ! {
    match r {
        Err(f) => {
            report.case(Some(&input.to_string()), &["replay"]);
            report.case(Some("replay-marker"), &[]);
            report.violation("replay", &f, input.clone());
        }
        Ok(()) if REPLAY_INCONCLUSIVE.load(Ordering::SeqCst) => {
            vcore::inconclusive("the replay could not be followed: the recorded schedule does not fit the code under test any more (its sequence of synchronisation operations changed), or the Miri run gave no verdict");
        }
        Ok(()) => {
            report.case(Some(&input.to_string()), &["replay"]);
            report.case(Some("replay-marker"), &[]);
        }
    }
    report.finish()
}

pub fn failure_json(f: &Failure, engine: &str) -> Value {
    json!({"engine": engine, "schedule": f.schedule, "program": f.concrete})
}
