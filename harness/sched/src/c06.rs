//! C06 — the lock-free arena hands out each slot once and reads back what was added.
//!
//! Domain: thread programs over a fresh `AtomicArena<Tracked>` per execution: a pre-fill that stops
//! just before (or at) a bucket boundary, 2–3 adder threads (1–3 adds each, `add` or `add_get`) that
//! publish every ref through a Release store into a slot, and one reader thread that polls the slots
//! with Acquire loads and dereferences whatever it finds. shuttle explores the interleavings at every
//! atomic / mutex operation of the arena (the crate's `verif_sync` shims are the scheduling points).
//! Oracle (model = the list of elements each thread added):
//!   * returned refs are pairwise distinct and lie in [prefill, prefill+adds);
//!   * `get(ref)` is the added element: for the adder at once (also the `&T` of `add_get`), for the
//!     reader after publication, for the main thread after the join;
//!   * every thread's `len()` samples are monotone, never below what that thread knows to be
//!     completed, never above prefill+adds, and `len()` is prefill+adds after the join;
//!   * after dropping the arena every element (pre-fill included) was dropped exactly once and nothing
//!     that was never added was dropped.
//! The same programs run under Miri (real std / parking_lot primitives, `Box` elements) in `miri.rs`.
use crate::explore::{self, Entry, IterResult, Kind, Program};
use intern::verif::{AtomicArena, Ref};
use intern::verif_sync::{AtomicU32 as ShimU32, EventKind};
use proptest::prelude::*;
use serde_json::{json, Value};
use std::collections::{BTreeMap, BTreeSet};
use std::sync::atomic::Ordering;
use std::sync::{Arc, Mutex};
use vcore::{Args, Fail, Report};

const MAGIC: u64 = 0x7a3c_15e9_d00d_f00d;

/// Plain data (no pointers): if a broken arena hands back memory that was never written, reading it
/// yields garbage that the oracle reports, instead of crashing the harness.
#[repr(C)]
pub struct Tracked {
    magic: u64,
    id: u64,
    check: u64,
}

impl Tracked {
    fn new(id: u64) -> Tracked {
        Tracked { magic: MAGIC, id, check: !id }
    }
    fn is(&self, id: u64) -> bool {
        self.magic == MAGIC && self.id == id && self.check == !id
    }
    fn show(&self) -> String {
        if self.magic == MAGIC && self.check == !self.id {
            format!("element #{}", self.id)
        } else {
            format!("garbage (magic={:#x} id={:#x})", self.magic, self.id)
        }
    }
}

#[derive(Default)]
struct Drops {
    counts: Vec<u32>,
    bad: u32,
}

static DROPS: Mutex<Drops> = Mutex::new(Drops { counts: Vec::new(), bad: 0 });

impl Drop for Tracked {
    fn drop(&mut self) {
        let mut d = DROPS.lock().unwrap_or_else(|e| e.into_inner());
        if self.magic == MAGIC && self.check == !self.id && (self.id as usize) < d.counts.len() {
            d.counts[self.id as usize] += 1;
        } else {
            d.bad += 1;
        }
    }
}

#[derive(Clone, Debug)]
pub struct Adder {
    pub adds: u8,
    pub add_get: bool,
}

#[derive(Clone, Debug)]
pub struct ArenaProg {
    pub prefill: u32,
    pub adders: Vec<Adder>,
    /// slots the reader polls, in order
    pub polls: Vec<u8>,
}

impl ArenaProg {
    fn total_adds(&self) -> u32 {
        self.adders.iter().map(|a| a.adds as u32).sum()
    }
    pub fn to_json(&self) -> Value {
        json!({
            "prefill": self.prefill,
            "adders": self.adders.iter().map(|a| json!({"adds": a.adds, "add_get": a.add_get})).collect::<Vec<_>>(),
            "polls": self.polls,
        })
    }
    pub fn from_json(v: &Value) -> Option<ArenaProg> {
        Some(ArenaProg {
            prefill: v["prefill"].as_u64()? as u32,
            adders: v["adders"]
                .as_array()?
                .iter()
                .map(|a| Adder { adds: a["adds"].as_u64().unwrap_or(1) as u8, add_get: a["add_get"].as_bool().unwrap_or(false) })
                .collect(),
            polls: v["polls"].as_array()?.iter().map(|p| p.as_u64().unwrap_or(0) as u8).collect(),
        })
    }
}

/// Bucket k of the arena holds indices [128*(2^k - 1), 128*(2^(k+1) - 1)): the boundaries are at
/// index 0, 128, 384, 896 (biased 128, 256, 512, 1024).
pub const BOUNDARIES: [u32; 4] = [0, 128, 384, 896];

pub fn prefill_strategy() -> impl Strategy<Value = u32> {
    prop_oneof![
        3 => Just(0u32),
        3 => Just(126u32),
        3 => Just(127u32),
        1 => Just(125u32),
        1 => Just(128u32),
        1 => Just(254u32),
        2 => Just(382u32),
        2 => Just(383u32),
        1 => Just(5u32),
    ]
}

pub fn prog_strategy() -> impl Strategy<Value = ArenaProg> {
    (
        prefill_strategy(),
        prop::collection::vec((1u8..=3, any::<bool>()), 2..=3),
        prop::collection::vec(any::<u8>(), 1..=6),
    )
        .prop_map(|(prefill, adders, polls)| {
            let adders: Vec<Adder> = adders.into_iter().map(|(adds, add_get)| Adder { adds, add_get }).collect();
            let total: u32 = adders.iter().map(|a| a.adds as u32).sum();
            ArenaProg { prefill, adders, polls: polls.into_iter().map(|p| (p as u32 % total) as u8).collect() }
        })
}

struct ThreadOut {
    errors: Vec<String>,
    refs: Vec<u32>,
}

fn check_len_sample(who: &str, last: &mut usize, sample: usize, at_least: usize, at_most: usize, errors: &mut Vec<String>) {
    if sample < *last {
        errors.push(format!("len-decreased|{who}: len() went from {} to {sample}", *last));
    }
    if sample < at_least {
        errors.push(format!("len-below-completed|{who}: len() = {sample} but {at_least} additions are known to be complete"));
    }
    if sample > at_most {
        errors.push(format!("len-above-total|{who}: len() = {sample} > prefill + all additions = {at_most}"));
    }
    *last = sample;
}

impl Program for ArenaProg {
    fn run_iteration(&self, _iter: u64) -> IterResult {
        let prog = self.clone();
        let concrete = prog.to_json();
        *explore::LAST_CONCRETE.lock().unwrap() = concrete.clone();
        let prefill = prog.prefill;
        let total = prog.total_adds();
        let n_ids = (prefill + total) as usize;
        {
            let mut d = DROPS.lock().unwrap();
            d.counts = vec![0; n_ids];
            d.bad = 0;
        }
        // ---- pre-fill (no scheduling points: single task, shims inactive)
        let arena: Arc<AtomicArena<'static, Tracked>> = Arc::new(AtomicArena::new());
        let mut errors: Vec<String> = vec![];
        for i in 0..prefill {
            let r = arena.add(Tracked::new(i as u64));
            if r.index() != i {
                errors.push(format!("prefill-index|sequential add #{i} returned index {}", r.index()));
            }
        }
        let slots: Arc<Vec<ShimU32>> = Arc::new((0..total).map(|_| ShimU32::new(0)).collect());
        let slot_addrs: BTreeSet<usize> = slots.iter().map(|s| s as *const ShimU32 as usize).collect();

        explore::activate();
        let mut handles = vec![];
        let mut first_slot = 0u32;
        for (t, adder) in prog.adders.iter().enumerate() {
            let (arena, slots, adder) = (arena.clone(), slots.clone(), adder.clone());
            let base_slot = first_slot;
            first_slot += adder.adds as u32;
            handles.push(shuttle::thread::spawn(move || {
                let who = format!("adder{t}");
                let mut out = ThreadOut { errors: vec![], refs: vec![] };
                let mut last_len = 0usize;
                for j in 0..adder.adds as u32 {
                    let id = (prefill + base_slot + j) as u64;
                    let r: Ref<'static, Tracked> = if adder.add_get {
                        let (r, e) = arena.add_get(Tracked::new(id));
                        if !e.is(id) {
                            out.errors.push(format!("add_get-wrong-element|{who}: add_get(#{id}) handed back a reference to {}", e.show()));
                        }
                        r
                    } else {
                        arena.add(Tracked::new(id))
                    };
                    let got = arena.get(r);
                    if !got.is(id) {
                        out.errors.push(format!("get-wrong-element|{who}: get(ref {}) right after adding #{id} is {}", r.index(), got.show()));
                    }
                    out.refs.push(r.index());
                    let l = arena.len();
                    check_len_sample(&who, &mut last_len, l, (prefill + j + 1) as usize, (prefill + total) as usize, &mut out.errors);
                    // publication: Release store of index+1 (0 = nothing yet)
                    slots[(base_slot + j) as usize].store(r.index() + 1, Ordering::Release);
                }
                out
            }));
        }
        let reader = {
            let (arena, slots, polls) = (arena.clone(), slots.clone(), prog.polls.clone());
            shuttle::thread::spawn(move || {
                let mut out = ThreadOut { errors: vec![], refs: vec![] };
                let mut last_len = 0usize;
                let mut seen: BTreeSet<u8> = BTreeSet::new();
                for s in polls {
                    let v = slots[s as usize].load(Ordering::Acquire);
                    if v != 0 {
                        seen.insert(s);
                        let expect = (prefill + s as u32) as u64;
                        // SAFETY (as far as the property goes): the index was returned by `add` and
                        // was published with Release / observed with Acquire.
                        let r: Ref<'static, Tracked> = unsafe { Ref::from_index(v - 1) };
                        let got = arena.get(r);
                        if !got.is(expect) {
                            out.errors.push(format!(
                                "get-wrong-element|reader: get(published ref {}) should be #{expect} but is {}",
                                v - 1,
                                got.show()
                            ));
                        }
                    }
                    let l = arena.len();
                    check_len_sample("reader", &mut last_len, l, prefill as usize + seen.len(), (prefill + total) as usize, &mut out.errors);
                }
                out
            })
        };
        let mut all_refs: Vec<(usize, u32)> = vec![];
        let mut panicked = false;
        for (t, h) in handles.into_iter().enumerate() {
            match h.join() {
                Ok(o) => {
                    errors.extend(o.errors);
                    all_refs.extend(o.refs.into_iter().map(|r| (t, r)));
                }
                Err(_) => panicked = true,
            }
        }
        match reader.join() {
            Ok(o) => errors.extend(o.errors),
            Err(_) => panicked = true,
        }
        explore::deactivate();
        let log = explore::take_log();
        if panicked {
            errors.push("panic-in-thread|a thread of the program panicked".into());
        }

        // ---- after the join
        let mut seen_refs: BTreeMap<u32, usize> = BTreeMap::new();
        for (t, r) in &all_refs {
            if let Some(prev) = seen_refs.insert(*r, *t) {
                errors.push(format!("duplicate-ref|index {r} was returned to adder{prev} and to adder{t}"));
            }
            if *r < prefill || *r >= prefill + total {
                errors.push(format!("ref-out-of-range|index {r} outside [{prefill}, {})", prefill + total));
            }
        }
        if !panicked {
            if arena.len() != (prefill + total) as usize {
                errors.push(format!("len-final|len() = {} after all additions completed, expected {}", arena.len(), prefill + total));
            }
            let mut slot = 0u32;
            let mut k = 0usize;
            for adder in &prog.adders {
                for _ in 0..adder.adds {
                    let id = (prefill + slot) as u64;
                    if let Some((_, r)) = all_refs.get(k) {
                        if (*r as usize) < arena.len() {
                            let got = arena.get(unsafe { Ref::from_index(*r) });
                            if !got.is(id) {
                                errors.push(format!("get-wrong-element|main: get(ref {r}) after the join should be #{id} but is {}", got.show()));
                            }
                        }
                    }
                    slot += 1;
                    k += 1;
                }
            }
            for i in 0..prefill.min(arena.len() as u32) {
                let got = arena.get(unsafe { Ref::from_index(i) });
                if !got.is(i as u64) {
                    errors.push(format!("get-wrong-element|main: pre-filled element {i} reads back as {}", got.show()));
                    break;
                }
            }
        }
        // ---- drop accounting
        match Arc::try_unwrap(arena) {
            Ok(a) => drop(a),
            Err(_) => errors.push("harness|arena still shared after the join".into()),
        }
        if !panicked {
            let d = DROPS.lock().unwrap();
            if d.bad > 0 {
                errors.push(format!("drop-of-never-added|dropping the arena dropped {} slot(s) that never held an added element", d.bad));
            }
            for (id, c) in d.counts.iter().enumerate() {
                if *c != 1 {
                    errors.push(format!("drop-count|element #{id} was dropped {c} times when the arena was dropped"));
                    break;
                }
            }
        }

        // ---- evidence: non-trivial rule from the shim event log
        let mut null_seen: BTreeMap<usize, BTreeSet<usize>> = BTreeMap::new();
        for e in &log {
            if let Entry::Sync { task, ev } = e {
                if ev.kind == EventKind::Load && ev.value == 0 && !slot_addrs.contains(&ev.addr) {
                    null_seen.entry(ev.addr).or_default().insert(*task);
                }
            }
        }
        let both_null = null_seen.values().any(|tasks| tasks.len() >= 2);
        let crosses = all_refs.iter().any(|(_, r)| BOUNDARIES.contains(r));
        let mut labels = vec![];
        if both_null {
            labels.push("two-adders-saw-null-bucket");
        }
        if crosses {
            labels.push("add-at-bucket-boundary");
        }
        labels.push(match prefill {
            0 => "prefill=0",
            125..=128 => "prefill~128",
            382 | 383 => "prefill~384",
            _ => "prefill=mid-bucket",
        });
        let fail = errors.first().map(|first| {
            let sig = first.split('|').next().unwrap_or("violation").to_string();
            Fail::new(sig, errors.iter().take(8).cloned().collect::<Vec<_>>().join("\n"))
        });
        IterResult { fail, nontrivial: both_null || crosses, key: concrete.to_string(), labels, concrete }
    }
}

pub const RULE: &str = "one execution = one schedule of one arena program (pre-fill, 2-3 adders, 1 reader); \
non-trivial = two different adder threads loaded a null bucket pointer for the same bucket (shim event log), or an \
addition received the first slot of a bucket (index 0/128/384: the bucket had to be allocated during the run); \
distinct by (program, schedule)";

fn run_replay(report: &Report, input: &Value) -> Result<(), Fail> {
    match input["engine"].as_str().unwrap_or("shuttle") {
        "miri" => crate::miri::replay(report, "C06", input),
        _ => {
            let prog = ArenaProg::from_json(&input["program"]).ok_or_else(|| Fail::new("harness:bad-replay", "program does not parse"))?;
            let schedule: Vec<u32> = input["schedule"].as_array().map(|a| a.iter().map(|x| x.as_u64().unwrap_or(0) as u32).collect()).unwrap_or_default();
            let out = explore::replay(&schedule, Arc::new(prog));
            match out.failure {
                Some(f) => Err(f.fail),
                None if out.diverged => {
                    crate::explore::REPLAY_INCONCLUSIVE.store(true, std::sync::atomic::Ordering::SeqCst);
                    report.note_inconclusive("the recorded schedule no longer fits the program (the code under test changed its sequence of synchronisation operations)");
                    Ok(())
                }
                None => Ok(()),
            }
        }
    }
}

pub fn run(args: &Args) {
    let report = Report::new(args, "exploration", RULE);
    report.engine("sched (shuttle 0.9: random + PCT depth 2/3 over the verif_sync shims)");
    report.assumption("shuttle explores sampled, sequentially consistent interleavings only (switch points: every atomic/lock operation of the arena)");
    report.assumption("Miri adds randomized schedules with weak-memory emulation and detects data races, uninitialised reads, leaks and double frees, on few small programs");
    report.assumption("refs reach other threads only through Release/Acquire publication (the documented precondition of get)");
    explore::install_hooks();

    if let Some(path) = &args.replay {
        let v = vcore::read_replay(path);
        let r = run_replay(&report, &v["input"]);
        crate::explore::finish_replay(&report, &v["input"], r);
    }
    report.run_regressions(|input| run_replay(&report, input));

    let n_programs = args.tier.pick(160usize, 1600usize);
    let per = args.tier.pick((24usize, 10usize, 10usize), (120, 50, 50));
    let programs = vcore::generate_values(vcore::derive_seed(args.seed, "c06-programs", 0), n_programs, &prog_strategy());
    'outer: for (pi, prog) in programs.into_iter().enumerate() {
        let prog = Arc::new(prog);
        for (kind, n) in [(Kind::Random, per.0), (Kind::Pct(2), per.1), (Kind::Pct(3), per.2)] {
            let seed = vcore::derive_seed(args.seed, kind.name(), pi as u64);
            let out = explore::explore(kind, seed, n, prog.clone());
            crate::account(&report, &out, kind.name());
            if let Some(f) = &out.failure {
                if crate::handle_failure(&report, &format!("arena-{}", kind.name()), f, "shuttle") {
                    break 'outer;
                }
            }
        }
    }
    if report.violation_count() == 0 {
        crate::miri::run(&report, args, "C06");
    }
    report.finish();
}
