//! Interned types of the harness and the sequential reference model of the intern tables.
//!
//! The model mirrors every table the harness interns into: `by_value` (value -> index) and
//! `by_index` (index -> value). Every intern call of the sequential part goes through a method of
//! `Model`, which checks the table against the model before and after the call:
//!   * a known value returns the id it returned before and leaves `len()` alone,
//!   * a new value gets index == previous `len()` (dense) and `len()` grows by exactly one,
//!   * `lookup` of the returned id is the value, `index() < len()`, `get_interned` agrees.
use intern::intern_struct;
use intern::path::PathId;
use intern::string::{self, BytesId, StringId};
use intern::string_key::{Intern as _, StringKey};
use intern::{InternId, InternSerdes, Lookup};
use serde_derive::{Deserialize, Serialize};
use std::collections::HashMap;
use std::hash::Hash;
use vcore::Fail;

#[derive(Debug, PartialEq, Eq, Hash, Clone, Serialize, Deserialize)]
pub struct Item {
    pub name: StringId,
    pub blob: BytesId,
    pub n: i64,
}

intern_struct! {
    /// custom interned struct that contains interned strings
    pub struct ItemId = Intern<Item> {
        serdes("InternSerdes<ItemId>");
        type Set = ItemIdSet;
        type Map = ItemIdMap;
    }
}

#[derive(Debug, PartialEq, Eq, Hash, Clone, Serialize, Deserialize)]
pub struct Node {
    pub label: StringId,
    pub kids: Vec<NodeId>,
}

intern_struct! {
    /// custom interned struct that contains ids of its own type (recursive back-reference numbering)
    pub struct NodeId = Intern<Node> {
        serdes("InternSerdes<NodeId>");
    }
}

#[derive(Debug, PartialEq, Eq, Hash, Clone, Serialize, Deserialize)]
pub struct Tag(pub String);

intern_struct! {
    /// custom interned type with a pre-added zero element (a foreign `Lookup` type is not possible
    /// outside the intern crate: orphan rule on `Borrow<_> for AsInterned<_>`)
    pub struct TagId = Intern<Tag> {
        serdes("InternSerdes<TagId>");
        const EMPTY = Tag(String::new());
    }
}

pub struct TableModel<K> {
    pub name: &'static str,
    pub by_value: HashMap<K, u32>,
    /// None: an entry interned outside the model (schedule replays); those values carry a tag the
    /// sequential generators cannot produce
    pub by_index: Vec<Option<K>>,
}

impl<K: Hash + Eq + Clone + std::fmt::Debug> TableModel<K> {
    fn new(name: &'static str, zero: Option<K>) -> Self {
        let mut m = TableModel { name, by_value: HashMap::new(), by_index: vec![] };
        if let Some(z) = zero {
            m.by_value.insert(z.clone(), 0);
            m.by_index.push(Some(z));
        }
        m
    }

    pub fn len(&self) -> usize {
        self.by_index.len()
    }

    /// One intern call against the model. `table_len` reads the real table's `len()`.
    fn intern<Id: Copy>(
        &mut self,
        key: &K,
        table_len: impl Fn() -> usize,
        do_intern: impl FnOnce() -> Id,
        index_of: impl Fn(Id) -> u32,
    ) -> Result<(Id, bool), Fail> {
        let name = self.name;
        let len0 = table_len();
        if len0 != self.len() {
            return Err(Fail::new(
                format!("{name}:len-differs-from-model"),
                format!("table {name}: len() = {len0} but {} distinct values were interned so far", self.len()),
            ));
        }
        let id = do_intern();
        let len1 = table_len();
        let ix = index_of(id);
        if (ix as usize) >= len1 {
            return Err(Fail::new(format!("{name}:index-not-below-len"), format!("table {name}: intern({key:?}) has index {ix} but len() = {len1}")));
        }
        match self.by_value.get(key) {
            Some(&known) => {
                if ix != known {
                    return Err(Fail::new(
                        format!("{name}:equal-values-different-ids"),
                        format!("table {name}: {key:?} was interned with index {known} before and now got index {ix}"),
                    ));
                }
                if len1 != len0 {
                    return Err(Fail::new(
                        format!("{name}:len-grew-for-known-value"),
                        format!("table {name}: re-interning {key:?} changed len() from {len0} to {len1}"),
                    ));
                }
                Ok((id, false))
            }
            None => {
                if (ix as usize) < len0 {
                    let other = &self.by_index[ix as usize];
                    return Err(Fail::new(
                        format!("{name}:different-values-same-id"),
                        format!("table {name}: new value {key:?} got index {ix}, which belongs to {other:?}"),
                    ));
                }
                if ix as usize != len0 {
                    return Err(Fail::new(
                        format!("{name}:index-not-dense"),
                        format!("table {name}: new value {key:?} got index {ix}, expected the previous len() = {len0}"),
                    ));
                }
                if len1 != len0 + 1 {
                    return Err(Fail::new(
                        format!("{name}:len-growth"),
                        format!("table {name}: interning one new value {key:?} changed len() from {len0} to {len1}"),
                    ));
                }
                self.by_value.insert(key.clone(), ix);
                self.by_index.push(Some(key.clone()));
                Ok((id, true))
            }
        }
    }
}

pub type PathKey = Vec<Vec<u8>>;
pub type ItemKey = (String, Vec<u8>, i64);
pub type NodeKey = (String, Vec<u32>);

pub struct Model {
    pub bytes: TableModel<Vec<u8>>,
    pub paths: TableModel<PathKey>,
    pub items: TableModel<ItemKey>,
    pub nodes: TableModel<NodeKey>,
    pub tags: TableModel<String>,
    pub new_values: u64,
}

#[derive(Clone, Copy, Debug, PartialEq, Eq)]
pub enum BytesVia {
    Slice,
    Vec,
    Boxed,
}

#[derive(Clone, Copy, Debug, PartialEq, Eq)]
pub enum StrVia {
    Str,
    String,
    Boxed,
    Cow,
    Key,
}

fn lookup_fail(table: &str, what: String) -> Fail {
    Fail::new(format!("{table}:lookup-differs"), what)
}

impl Model {
    pub fn new() -> Model {
        Model {
            bytes: TableModel::new("bytes", Some(vec![])),
            paths: TableModel::new("path", None),
            items: TableModel::new("item", None),
            nodes: TableModel::new("node", None),
            tags: TableModel::new("tag", Some(String::new())),
            new_values: 0,
        }
    }

    /// Entries interned behind the model's back (schedule replays) become anonymous model entries.
    pub fn adopt_foreign(&mut self) {
        fn pad<K>(t: &mut TableModel<K>, len: usize) {
            while t.by_index.len() < len {
                t.by_index.push(None);
            }
        }
        pad(&mut self.bytes, BytesId::table().len());
        pad(&mut self.paths, PathId::table().len());
        pad(&mut self.items, ItemId::table().len());
        pad(&mut self.nodes, NodeId::table().len());
        pad(&mut self.tags, TagId::table().len());
    }

    pub fn bytes(&mut self, v: &[u8], via: BytesVia) -> Result<BytesId, Fail> {
        let key = v.to_vec();
        let (id, new) = self.bytes.intern(
            &key,
            || BytesId::table().len(),
            || match via {
                BytesVia::Slice => string::intern_bytes(v),
                BytesVia::Vec => string::intern_bytes(v.to_vec()),
                BytesVia::Boxed => string::intern_bytes(v.to_vec().into_boxed_slice()),
            },
            |id: BytesId| id.index(),
        )?;
        self.new_values += new as u64;
        if id.as_bytes() != v {
            return Err(lookup_fail("bytes", format!("intern_bytes({v:?}).as_bytes() = {:?}", id.as_bytes())));
        }
        if BytesId::get_interned(&v) != Some(id) {
            return Err(Fail::new("bytes:get_interned-differs", format!("get_interned({v:?}) is not the id intern returned")));
        }
        if v.is_empty() && id != BytesId::EMPTY {
            return Err(Fail::new("bytes:empty-is-not-EMPTY", "interning the empty byte string did not return BytesId::EMPTY"));
        }
        Ok(id)
    }

    pub fn string(&mut self, s: &str, via: StrVia) -> Result<StringId, Fail> {
        let key = s.as_bytes().to_vec();
        let (id, new) = self.bytes.intern(
            &key,
            || BytesId::table().len(),
            || match via {
                StrVia::Str => string::intern(s),
                StrVia::String => string::intern(s.to_string()),
                StrVia::Boxed => string::intern(s.to_string().into_boxed_str()),
                StrVia::Cow => string::intern(std::borrow::Cow::Borrowed(s)),
                StrVia::Key => {
                    let k: StringKey = s.intern();
                    // StringKey is a transparent wrapper: same index space as StringId
                    StringId::from_index_checked(k.index()).unwrap_or(StringId::EMPTY)
                }
            },
            |id: StringId| id.index(),
        )?;
        self.new_values += new as u64;
        if id.as_str() != s {
            return Err(lookup_fail("bytes", format!("intern({s:?}).as_str() = {:?}", id.as_str())));
        }
        if id.to_string() != s {
            return Err(lookup_fail("bytes", format!("intern({s:?}).to_string() = {:?}", id.to_string())));
        }
        if s.is_empty() != id.is_empty() || (s.is_empty() && id != StringId::EMPTY) {
            return Err(Fail::new("bytes:empty-is-not-EMPTY", format!("intern({s:?}): is_empty() = {}", id.is_empty())));
        }
        Ok(id)
    }

    pub fn key(&mut self, s: &str) -> Result<StringKey, Fail> {
        let id = self.string(s, StrVia::Key)?;
        let k: StringKey = s.intern();
        if k.lookup() != s || k.index() != id.index() {
            return Err(lookup_fail("bytes", format!("StringKey {s:?}: lookup() = {:?}, index {} vs {}", k.lookup(), k.index(), id.index())));
        }
        Ok(k)
    }

    pub fn tag(&mut self, s: &str, owned: bool) -> Result<TagId, Fail> {
        let key = s.to_string();
        let (id, new) = self.tags.intern(
            &key,
            || TagId::table().len(),
            || {
                let _ = owned;
                TagId::intern(Tag(s.to_string()))
            },
            |id: TagId| id.index(),
        )?;
        self.new_values += new as u64;
        if id.get().0 != s {
            return Err(lookup_fail("tag", format!("TagId::intern({s:?}).get() = {:?}", id.get())));
        }
        if TagId::get_interned(&Tag(s.to_string())) != Some(id) {
            return Err(Fail::new("tag:get_interned-differs", format!("get_interned({s:?}) is not the id intern returned")));
        }
        if s.is_empty() && id != TagId::EMPTY {
            return Err(Fail::new("tag:empty-is-not-EMPTY", "interning the zero element did not return the ZERO id"));
        }
        Ok(id)
    }

    /// Intern a path given as components (`absolute`: leading "/"), joined with `sep` ("/" or "//"),
    /// optionally with a trailing separator, optionally in two steps (`split`: intern the first k
    /// components, then the rest relative to that parent).
    pub fn path(&mut self, absolute: bool, comps: &[Vec<u8>], sep: &str, trailing: bool, split: Option<usize>) -> Result<PathId, Fail> {
        use std::ffi::OsStr;
        use std::os::unix::ffi::OsStrExt;
        let mut full: PathKey = vec![];
        if absolute {
            full.push(b"/".to_vec());
        }
        full.extend(comps.iter().cloned());
        let render = |cs: &[Vec<u8>], abs: bool, trailing: bool| -> Vec<u8> {
            let mut out = vec![];
            if abs {
                out.push(b'/');
            }
            for (i, c) in cs.iter().enumerate() {
                if i > 0 {
                    out.extend_from_slice(sep.as_bytes());
                }
                out.extend_from_slice(c);
            }
            if trailing {
                out.push(b'/');
            }
            out
        };
        // expected effect on the tables, in interning order
        let bytes_len0 = BytesId::table().len();
        let paths_len0 = PathId::table().len();
        if bytes_len0 != self.bytes.len() || paths_len0 != self.paths.len() {
            return Err(Fail::new("path:len-differs-from-model", format!("before PathId::intern: bytes len {bytes_len0} vs model {}, path len {paths_len0} vs model {}", self.bytes.len(), self.paths.len())));
        }
        let id = match split {
            Some(k) if k > 0 && k < comps.len() => {
                let head = render(&comps[..k], absolute, false);
                let tail = render(&comps[k..], false, trailing);
                let parent = PathId::intern(None, OsStr::from_bytes(&head));
                PathId::intern(Some(parent), OsStr::from_bytes(&tail))
            }
            _ => {
                let whole = render(comps, absolute, trailing);
                PathId::from(OsStr::from_bytes(&whole))
            }
        };
        // account: every component (bytes table) and every prefix (path table), in order
        for (i, c) in full.iter().enumerate() {
            if !self.bytes.by_value.contains_key(c) {
                let ix = self.bytes.len() as u32;
                self.bytes.by_value.insert(c.clone(), ix);
                self.bytes.by_index.push(Some(c.clone()));
                self.new_values += 1;
                match BytesId::get_interned(&c.as_slice()) {
                    Some(b) if b.index() == ix && b.as_bytes() == c.as_slice() => {}
                    other => {
                        return Err(Fail::new(
                            "path:component-not-interned-densely",
                            format!("component {c:?} of a new path should have bytes index {ix}; get_interned gives {:?}", other.map(|b| (b.index(), b.as_bytes()))),
                        ))
                    }
                }
            }
            let prefix: PathKey = full[..=i].to_vec();
            if !self.paths.by_value.contains_key(&prefix) {
                let ix = self.paths.len() as u32;
                self.paths.by_value.insert(prefix.clone(), ix);
                self.paths.by_index.push(Some(prefix));
                self.new_values += 1;
            }
        }
        let (bl, pl) = (BytesId::table().len(), PathId::table().len());
        if bl != self.bytes.len() || pl != self.paths.len() {
            return Err(Fail::new(
                "path:len-growth",
                format!("after interning path {full:?}: bytes len {bytes_len0}->{bl} (model {}), path len {paths_len0}->{pl} (model {})", self.bytes.len(), self.paths.len()),
            ));
        }
        // the id, and the id of every prefix (walking up the parents), against the model
        let mut cur = Some(id);
        for i in (0..full.len()).rev() {
            let Some(p) = cur else {
                return Err(lookup_fail("path", format!("path {full:?}: parent chain ends after {} components", full.len() - 1 - i)));
            };
            let want = self.paths.by_value[&full[..=i].to_vec()];
            if p.index() != want {
                return Err(Fail::new("path:equal-values-different-ids", format!("prefix {:?} of {full:?} has index {} but the model says {want}", &full[..=i], p.index())));
            }
            if p.file_name().as_bytes() != full[i].as_slice() {
                return Err(lookup_fail("path", format!("prefix {:?}: file_name() = {:?}", &full[..=i], p.file_name())));
            }
            cur = p.parent();
        }
        if cur.is_some() {
            return Err(lookup_fail("path", format!("path {full:?}: parent chain is longer than the path")));
        }
        let back: PathKey = id.to_path_buf().iter().map(|c| c.as_bytes().to_vec()).collect();
        if back != full {
            return Err(lookup_fail("path", format!("to_path_buf() of {full:?} has components {back:?}")));
        }
        Ok(id)
    }

    pub fn item(&mut self, name: &str, blob: &[u8], n: i64) -> Result<ItemId, Fail> {
        let name_id = self.string(name, StrVia::Str)?;
        let blob_id = self.bytes(blob, BytesVia::Slice)?;
        let key: ItemKey = (name.to_string(), blob.to_vec(), n);
        let (id, new) = self.items.intern(
            &key,
            || ItemId::table().len(),
            || ItemId::intern(Item { name: name_id, blob: blob_id, n }),
            |id: ItemId| id.index(),
        )?;
        self.new_values += new as u64;
        let got = id.get();
        if got.name.as_str() != name || got.blob.as_bytes() != blob || got.n != n || id.n != n {
            return Err(lookup_fail("item", format!("ItemId::intern({key:?}).get() = {got:?}")));
        }
        if ItemId::get_interned(&Item { name: name_id, blob: blob_id, n }) != Some(id) {
            return Err(Fail::new("item:get_interned-differs", format!("get_interned({key:?}) is not the id intern returned")));
        }
        Ok(id)
    }

    pub fn node(&mut self, label: &str, kids: &[NodeId]) -> Result<NodeId, Fail> {
        let label_id = self.string(label, StrVia::String)?;
        let key: NodeKey = (label.to_string(), kids.iter().map(|k| k.index()).collect());
        let (id, new) = self.nodes.intern(
            &key,
            || NodeId::table().len(),
            || NodeId::intern(Node { label: label_id, kids: kids.to_vec() }),
            |id: NodeId| id.index(),
        )?;
        self.new_values += new as u64;
        let got = id.get();
        if got.label.as_str() != label || got.kids != kids {
            return Err(lookup_fail("node", format!("NodeId::intern({key:?}).get() = {got:?}")));
        }
        Ok(id)
    }

    /// `from_index_checked` against the model for table `bytes`.
    pub fn check_bytes_index(&self, i: u32) -> Result<(), Fail> {
        let got = BytesId::from_index_checked(i);
        match (got, self.bytes.by_index.get(i as usize)) {
            (Some(id), Some(v)) => {
                if id.index() != i || v.as_ref().is_some_and(|v| id.as_bytes() != v.as_slice()) {
                    return Err(Fail::new("bytes:index-not-stable", format!("from_index_checked({i}) reads {:?}, the value interned with that index was {v:?}", id.as_bytes())));
                }
                Ok(())
            }
            (None, None) => Ok(()),
            (Some(_), None) => Err(Fail::new("bytes:from_index_checked-accepts-beyond-len", format!("from_index_checked({i}) is Some but only {} values exist", self.bytes.len()))),
            (None, Some(_)) => Err(Fail::new("bytes:from_index_checked-rejects-valid", format!("from_index_checked({i}) is None but {} values exist", self.bytes.len()))),
        }
    }
}
