//! Miri leg of C05 / C06: runs `../miri_conc` (real std / parking_lot primitives, feature off) under
//! `cargo +nightly miri run -Zmiri-many-seeds`, which varies the thread schedule and the weak-memory
//! behaviour per seed and reports data races, uninitialised reads, leaks and double frees.
//!
//! Aliasing model: `-Zmiri-tree-borrows`. The default Stacked Borrows model rejects
//! `AtomicArena::drop` (`b_ptr.as_mut().as_mut_ptr()` narrows the bucket pointer to its first element
//! before `Vec::from_raw_parts` uses it for the whole bucket) on every sequential run; that is an
//! aliasing-model finding outside what C05/C06 state, so it is not asserted here.
use serde_json::{json, Value};
use std::path::PathBuf;
use std::process::Command;
use vcore::{Args, Fail, Report, Tier};

const FLAGS: &str = "-Zmiri-tree-borrows";

fn target_dir() -> PathBuf {
    let base = std::env::var("CARGO_TARGET_DIR").map(PathBuf::from).unwrap_or_else(|_| vcore::verif_root().join("harness/target"));
    base.join("miri_conc")
}

pub struct MiriRun {
    pub status: Option<i32>,
    pub output: String,
}

pub fn invoke(prop: &str, program: &str, seeds: (u32, u32)) -> Result<MiriRun, String> {
    let manifest = vcore::verif_root().join("harness/miri_conc/Cargo.toml");
    if !manifest.exists() {
        return Err(format!("{} missing", manifest.display()));
    }
    let out = Command::new("cargo")
        .args(["+nightly", "miri", "run", "--offline", "-q", "--manifest-path"])
        .arg(&manifest)
        .args(["--", prop, program])
        .env("MIRIFLAGS", format!("{FLAGS} -Zmiri-many-seeds={}..{}", seeds.0, seeds.1))
        .env("CARGO_TARGET_DIR", target_dir())
        .env("VERIF_REPO", vcore::repo_root())
        .env("CARGO_NET_OFFLINE", "true")
        .env_remove("RUSTFLAGS")
        .output()
        .map_err(|e| format!("cannot start cargo +nightly miri: {e}"))?;
    let mut text = String::from_utf8_lossy(&out.stdout).to_string();
    text.push_str(&String::from_utf8_lossy(&out.stderr));
    Ok(MiriRun { status: out.status.code(), output: text })
}

/// Classify a failed Miri invocation. None = not a verdict about the code under test (tool / build
/// problem), reported as inconclusive.
fn classify(output: &str) -> Option<(String, String)> {
    let line_with = |needle: &str| output.lines().find(|l| l.contains(needle)).map(|l| l.trim().to_string());
    if let Some(l) = line_with("ORACLE:") {
        return Some(("miri:oracle".into(), l));
    }
    if let Some(l) = line_with("Data race detected") {
        return Some(("miri:data-race".into(), l));
    }
    if let Some(l) = line_with("uninitialized") {
        if output.contains("Undefined Behavior") {
            return Some(("miri:uninit-read".into(), l));
        }
    }
    if let Some(l) = line_with("memory leaked") {
        return Some(("miri:leak".into(), l));
    }
    if let Some(l) = line_with("error: Undefined Behavior") {
        return Some(("miri:undefined-behavior".into(), l));
    }
    if let Some(l) = line_with("panicked at") {
        // a panic of the program that is not an oracle line: assertion inside the code under test
        if !output.contains("harness:") {
            return Some(("miri:panic".into(), l));
        }
    }
    None
}

fn tail(s: &str, n: usize) -> String {
    let lines: Vec<&str> = s.lines().collect();
    lines[lines.len().saturating_sub(n)..].join("\n")
}

fn head_tail(s: &str) -> String {
    let lines: Vec<&str> = s.lines().filter(|l| !l.starts_with("Trying seed") && !l.starts_with("RUN-OK")).collect();
    if lines.len() <= 60 {
        lines.join("\n")
    } else {
        format!("{}\n...\n{}", lines[..40].join("\n"), lines[lines.len() - 15..].join("\n"))
    }
}

fn seed_range(args: &Args, prop: &str) -> (u32, u32) {
    let n = match args.tier {
        Tier::Quick => 6,
        Tier::Thorough => 96,
    };
    let start = (vcore::derive_seed(args.seed, prop, 77) % 1_000_000) as u32;
    (start, start + n)
}

pub fn run(report: &Report, args: &Args, prop: &str) {
    report.engine("miri (cargo +nightly miri run -Zmiri-many-seeds -Zmiri-tree-borrows, real primitives)");
    let seeds = seed_range(args, prop);
    match invoke(prop, "all", seeds) {
        Err(e) => report.note_inconclusive(&format!("miri leg not run: {e}")),
        Ok(r) => {
            let ok_runs = r.output.lines().filter(|l| l.starts_with("RUN-OK")).count() as u64;
            let nt_runs = r.output.lines().filter(|l| l.starts_with("RUN-OK nt=1")).count() as u64;
            report.label_n("miri-seed-run-ok", ok_runs);
            for i in 0..ok_runs {
                if i < nt_runs {
                    report.case(Some(&("miri", prop, seeds.0, i)), &[]);
                } else {
                    report.case::<u64>(None, &[]);
                }
            }
            if r.status == Some(0) {
                report.extra("miri", json!({"seeds": [seeds.0, seeds.1], "runs_ok": ok_runs, "flags": FLAGS}));
                return;
            }
            match classify(&r.output) {
                Some((sig, line)) => {
                    let fail = Fail::new(sig, format!("{line}\n{}", head_tail(&r.output)));
                    if report.is_known(&fail.signature) {
                        report.known_hit(&fail.signature);
                    } else {
                        // Miri names the seed that failed: the replay runs just that one
                        let failing = r
                            .output
                            .lines()
                            .find_map(|l| l.trim().strip_prefix("FAILING SEED:").and_then(|n| n.trim().parse::<u32>().ok()));
                        let range = failing.map(|n| (n, n + 1)).unwrap_or(seeds);
                        report.violation("miri", &fail, json!({"engine": "miri", "program": "all", "seeds": [range.0, range.1]}));
                    }
                }
                None => {
                    println!("NOTE: miri leg inconclusive (status {:?}):\n{}", r.status, tail(&r.output, 15));
                    report.note_inconclusive(&format!("miri leg failed without a verdict (status {:?}): {}", r.status, tail(&r.output, 3)));
                }
            }
        }
    }
}

pub fn replay(report: &Report, prop: &str, input: &Value) -> Result<(), Fail> {
    let seeds = (
        input["seeds"][0].as_u64().unwrap_or(0) as u32,
        input["seeds"][1].as_u64().unwrap_or(1) as u32,
    );
    let program = input["program"].as_str().unwrap_or("all");
    match invoke(prop, program, seeds) {
        Err(e) => {
            crate::explore::REPLAY_INCONCLUSIVE.store(true, std::sync::atomic::Ordering::SeqCst);
            report.note_inconclusive(&format!("miri replay not run: {e}"));
            Ok(())
        }
        Ok(r) if r.status == Some(0) => Ok(()),
        Ok(r) => match classify(&r.output) {
            Some((sig, line)) => Err(Fail::new(sig, format!("{line}\n{}", head_tail(&r.output)))),
            None => {
                crate::explore::REPLAY_INCONCLUSIVE.store(true, std::sync::atomic::Ordering::SeqCst);
            report.note_inconclusive(&format!("miri replay failed without a verdict: {}", tail(&r.output, 3)));
                Ok(())
            }
        },
    }
}
