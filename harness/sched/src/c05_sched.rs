//! C05, schedule part: 2–3 threads intern overlapping *new* values through the shimmed
//! `ShardedSet` / `AtomicArena` while shuttle picks the interleaving.
//!
//! Program: 1–3 values (bytes short/at the inline boundary/long, strings, a custom interned struct,
//! paths sharing a directory) and per thread 1–3 operations `Intern(value, via)` / `Lookup(value)`.
//! The values of every execution carry a tag unique to that execution (static tables cannot be
//! reset), so every value is new when the threads start.
//! Oracle after the join (model: the set of values the program interns):
//!   * every thread that interned value v got the same id, different values got different ids;
//!   * a thread reads back its own id at once (`lookup == v`, `get_interned(v) == id`);
//!   * `get_interned` from other threads is `None` or that id, never anything else;
//!   * each table's `len()` grew by exactly the number of distinct new values (bytes: values and
//!     path components; paths: distinct prefixes; items), the new ids are dense in that range;
//!   * re-interning after the join returns the same ids.
use crate::explore::{self, Entry, IterResult, Kind, Program};
use crate::model::{Item, ItemId};
use intern::path::PathId;
use intern::string::{self, BytesId};
use intern::verif_sync::EventKind;
use intern::InternId;
use proptest::prelude::*;
use serde_json::{json, Value};
use std::collections::{BTreeMap, BTreeSet, HashMap};
use std::sync::Arc;
use vcore::{Args, Fail, Report};

#[derive(Clone, Copy, Debug, PartialEq, Eq)]
pub enum ValKind {
    BytesShort,
    Bytes22,
    Bytes23,
    BytesLong,
    Str,
    StrLong,
    Item,
    PathA,
    PathB,
}

const KINDS: [ValKind; 9] = [
    ValKind::BytesShort,
    ValKind::Bytes22,
    ValKind::Bytes23,
    ValKind::BytesLong,
    ValKind::Str,
    ValKind::StrLong,
    ValKind::Item,
    ValKind::PathA,
    ValKind::PathB,
];

#[derive(Clone, Debug)]
pub enum Op {
    Intern { val: u8, via: u8 },
    Lookup { val: u8 },
}

#[derive(Clone, Debug)]
pub struct InternProg {
    pub kinds: Vec<ValKind>,
    pub threads: Vec<Vec<Op>>,
}

/// The concrete values of one execution.
#[derive(Clone, Debug, PartialEq, Eq)]
pub enum Concrete {
    Bytes(Vec<u8>),
    Str(String),
    Item(String, i64),
    Path(String),
}

fn pad_to(mut s: String, n: usize) -> String {
    while s.len() < n {
        s.push('.');
    }
    s
}

fn concretize(kind: ValKind, tag: &str, k: usize) -> Concrete {
    let base = format!("{tag}{k}");
    match kind {
        ValKind::BytesShort => Concrete::Bytes(base.into_bytes()),
        ValKind::Bytes22 => Concrete::Bytes(pad_to(base, 22).into_bytes()),
        ValKind::Bytes23 => Concrete::Bytes(pad_to(base, 23).into_bytes()),
        ValKind::BytesLong => Concrete::Bytes(pad_to(base, 41).into_bytes()),
        ValKind::Str => Concrete::Str(base),
        ValKind::StrLong => Concrete::Str(pad_to(format!("{base}é漢"), 30)),
        ValKind::Item => Concrete::Item(base, k as i64),
        // both path kinds live under the same per-execution directories
        ValKind::PathA => Concrete::Path(format!("{tag}d/{tag}s/{tag}{k}.a")),
        ValKind::PathB => Concrete::Path(format!("{tag}d/{tag}{k}.b")),
    }
}

fn conc_json(c: &Concrete) -> Value {
    match c {
        Concrete::Bytes(b) => json!({"bytes": String::from_utf8_lossy(b)}),
        Concrete::Str(s) => json!({"str": s}),
        Concrete::Item(s, n) => json!({"item": [s, n]}),
        Concrete::Path(p) => json!({"path": p}),
    }
}

fn conc_from_json(v: &Value) -> Option<Concrete> {
    if let Some(b) = v.get("bytes") {
        return Some(Concrete::Bytes(b.as_str()?.as_bytes().to_vec()));
    }
    if let Some(s) = v.get("str") {
        return Some(Concrete::Str(s.as_str()?.to_string()));
    }
    if let Some(i) = v.get("item") {
        return Some(Concrete::Item(i[0].as_str()?.to_string(), i[1].as_i64()?));
    }
    v.get("path").and_then(|p| p.as_str()).map(|p| Concrete::Path(p.to_string()))
}

fn ops_json(threads: &[Vec<Op>]) -> Value {
    json!(threads
        .iter()
        .map(|t| t
            .iter()
            .map(|op| match op {
                Op::Intern { val, via } => json!({"intern": val, "via": via}),
                Op::Lookup { val } => json!({"lookup": val}),
            })
            .collect::<Vec<_>>())
        .collect::<Vec<_>>())
}

fn ops_from_json(v: &Value) -> Vec<Vec<Op>> {
    v.as_array()
        .map(|ts| {
            ts.iter()
                .map(|t| {
                    t.as_array()
                        .map(|ops| {
                            ops.iter()
                                .map(|o| match o.get("intern") {
                                    Some(val) => Op::Intern { val: val.as_u64().unwrap_or(0) as u8, via: o["via"].as_u64().unwrap_or(0) as u8 },
                                    None => Op::Lookup { val: o["lookup"].as_u64().unwrap_or(0) as u8 },
                                })
                                .collect()
                        })
                        .unwrap_or_default()
                })
                .collect()
        })
        .unwrap_or_default()
}

pub fn prog_strategy() -> impl Strategy<Value = InternProg> {
    let op = |nvals: u8| {
        prop_oneof![
            4 => (0..nvals, 0u8..4).prop_map(|(val, via)| Op::Intern { val, via }),
            1 => (0..nvals).prop_map(|val| Op::Lookup { val }),
        ]
    };
    (1u8..=3).prop_flat_map(move |nvals| {
        (
            prop::collection::vec(prop::sample::select(KINDS.to_vec()), nvals as usize..=nvals as usize),
            prop::collection::vec(prop::collection::vec(op(nvals), 1..=3), 2..=3),
            any::<bool>(),
        )
            .prop_map(|(kinds, mut threads, same_first)| {
                // the interesting case: several threads start by interning the same value
                if same_first {
                    for t in threads.iter_mut() {
                        if let Some(Op::Intern { val, .. }) = t.first_mut() {
                            *val = 0;
                        }
                    }
                }
                InternProg { kinds, threads }
            })
    })
}

#[derive(Clone, Copy, Debug, PartialEq, Eq, PartialOrd, Ord, Hash)]
pub enum Table {
    Bytes,
    Item,
    Path,
}

fn table_of(c: &Concrete) -> Table {
    match c {
        Concrete::Bytes(_) | Concrete::Str(_) => Table::Bytes,
        Concrete::Item(..) => Table::Item,
        Concrete::Path(_) => Table::Path,
    }
}

/// Intern `c` the way `via` says; returns (index, error if the immediate read-back is wrong).
fn do_intern(c: &Concrete, via: u8) -> (u32, Option<String>) {
    match c {
        Concrete::Bytes(b) => {
            let id = match via % 3 {
                0 => string::intern_bytes(b.as_slice()),
                1 => string::intern_bytes(b.clone()),
                _ => string::intern_bytes(b.clone().into_boxed_slice()),
            };
            let mut err = None;
            if id.as_bytes() != b.as_slice() {
                err = Some(format!("lookup-differs|thread read back {:?} for the id of {:?}", String::from_utf8_lossy(id.as_bytes()), String::from_utf8_lossy(b)));
            } else if BytesId::get_interned(&b.as_slice()) != Some(id) {
                err = Some(format!("get_interned-differs|get_interned right after intern({:?}) is not that id", String::from_utf8_lossy(b)));
            }
            (id.index(), err)
        }
        Concrete::Str(s) => {
            let id = match via % 4 {
                0 => string::intern(s.as_str()),
                1 => string::intern(s.clone()),
                2 => string::intern(s.clone().into_boxed_str()),
                // the same bytes interned as a byte string are the same value
                _ => intern::string::StringId::from_bytes(string::intern_bytes(s.as_bytes())).expect("utf-8"),
            };
            let err = if id.as_str() != s { Some(format!("lookup-differs|thread read back {:?} for the id of {s:?}", id.as_str())) } else { None };
            (id.index(), err)
        }
        Concrete::Item(name, n) => {
            let name_id = string::intern(name.as_str());
            let blob = string::intern_bytes(name.as_bytes());
            let id = ItemId::intern(Item { name: name_id, blob, n: *n });
            let got = id.get();
            let err = if got.name.as_str() != name || got.n != *n { Some(format!("lookup-differs|thread read back {got:?} for the id of item {name:?}")) } else { None };
            (id.index(), err)
        }
        Concrete::Path(p) => {
            let id = PathId::from(p.as_str());
            let back = id.to_path_buf();
            let err = if back.to_str() != Some(p.as_str()) { Some(format!("lookup-differs|thread read back {back:?} for the id of path {p:?}")) } else { None };
            (id.index(), err)
        }
    }
}

fn do_lookup(c: &Concrete) -> Option<Option<u32>> {
    match c {
        Concrete::Bytes(b) => Some(BytesId::get_interned(&b.as_slice()).map(|i| i.index())),
        Concrete::Str(s) => Some(BytesId::get_interned(&s.as_bytes()).map(|i| i.index())),
        // looking up a struct / path needs the ids of its parts, which would intern them
        Concrete::Item(..) | Concrete::Path(_) => None,
    }
}

fn lens() -> BTreeMap<Table, usize> {
    BTreeMap::from([(Table::Bytes, BytesId::table().len()), (Table::Item, ItemId::table().len()), (Table::Path, PathId::table().len())])
}

/// What the program adds to each table: distinct new byte strings / items / path prefixes.
fn expected_growth(values: &[Concrete], threads: &[Vec<Op>]) -> BTreeMap<Table, usize> {
    let mut bytes: BTreeSet<Vec<u8>> = BTreeSet::new();
    let mut items: BTreeSet<(String, i64)> = BTreeSet::new();
    let mut paths: BTreeSet<Vec<String>> = BTreeSet::new();
    for t in threads {
        for op in t {
            if let Op::Intern { val, .. } = op {
                match &values[*val as usize % values.len()] {
                    Concrete::Bytes(b) => {
                        bytes.insert(b.clone());
                    }
                    Concrete::Str(s) => {
                        bytes.insert(s.as_bytes().to_vec());
                    }
                    Concrete::Item(name, n) => {
                        bytes.insert(name.as_bytes().to_vec());
                        items.insert((name.clone(), *n));
                    }
                    Concrete::Path(p) => {
                        let comps: Vec<String> = p.split('/').map(String::from).collect();
                        for i in 0..comps.len() {
                            bytes.insert(comps[i].as_bytes().to_vec());
                            paths.insert(comps[..=i].to_vec());
                        }
                    }
                }
            }
        }
    }
    BTreeMap::from([(Table::Bytes, bytes.len()), (Table::Item, items.len()), (Table::Path, paths.len())])
}

pub struct Exec {
    pub prog: InternProg,
    /// replay: the concrete values and the table lengths of the original execution
    pub fixed: Option<(Vec<Concrete>, BTreeMap<Table, usize>)>,
}

enum Res {
    Interned(u32),
    Looked(Option<u32>),
    Skipped,
}

struct ThreadOut {
    results: Vec<Res>,
    errors: Vec<String>,
}

/// Bring a table to a given length with filler values, so that a replay starts from the state the
/// original execution started from (bucket allocations happen at the same additions).
fn fill_to(want: &BTreeMap<Table, usize>) {
    // items and paths first: their fillers also add byte strings
    let mut n = 0u64;
    while ItemId::table().len() < want[&Table::Item] {
        ItemId::intern(Item { name: string::intern("\u{7f}fill"), blob: BytesId::EMPTY, n: -(n as i64) - 1000 });
        n += 1;
    }
    while PathId::table().len() < want[&Table::Path] && BytesId::table().len() < want[&Table::Bytes] {
        let _ = PathId::from(format!("\u{7f}fill{n}"));
        n += 1;
    }
    while BytesId::table().len() < want[&Table::Bytes] {
        string::intern_bytes(format!("\u{7f}fill/{n}").into_bytes());
        n += 1;
    }
}

impl Program for Exec {
    fn run_iteration(&self, iter: u64) -> IterResult {
        let prog = &self.prog;
        // unique per execution; '\x7f' never occurs in values of the sequential generators' pools
        let tag = format!("\u{7f}{iter:x}_");
        let (values, before) = match &self.fixed {
            Some((v, l)) => {
                fill_to(l);
                (v.clone(), lens())
            }
            None => (prog.kinds.iter().enumerate().map(|(k, kind)| concretize(*kind, &tag, k)).collect::<Vec<_>>(), lens()),
        };
        let key = json!({"kinds": prog.kinds.iter().map(|k| format!("{k:?}")).collect::<Vec<_>>(), "threads": ops_json(&prog.threads)}).to_string();
        let concrete = json!({
            "values": values.iter().map(conc_json).collect::<Vec<_>>(),
            "threads": ops_json(&prog.threads),
            "table_lens": {"bytes": before[&Table::Bytes], "item": before[&Table::Item], "path": before[&Table::Path]},
        });
        *explore::LAST_CONCRETE.lock().unwrap() = concrete.clone();
        let values = Arc::new(values);

        explore::activate();
        let mut handles = vec![];
        for ops in prog.threads.iter().cloned() {
            let values = values.clone();
            handles.push(shuttle::thread::spawn(move || {
                let mut out = ThreadOut { results: vec![], errors: vec![] };
                for op in &ops {
                    match op {
                        Op::Intern { val, via } => {
                            let v = *val as usize % values.len();
                            explore::mark_begin(v as u32);
                            let (ix, err) = do_intern(&values[v], *via);
                            explore::mark_end();
                            out.errors.extend(err);
                            out.results.push(Res::Interned(ix));
                        }
                        Op::Lookup { val } => {
                            let v = *val as usize % values.len();
                            match do_lookup(&values[v]) {
                                Some(r) => out.results.push(Res::Looked(r)),
                                None => out.results.push(Res::Skipped),
                            }
                        }
                    }
                }
                out
            }));
        }
        let mut outs: Vec<Option<ThreadOut>> = vec![];
        for h in handles {
            outs.push(h.join().ok());
        }
        explore::deactivate();
        let log = explore::take_log();

        // ---- oracle
        let mut errors: Vec<String> = vec![];
        if outs.iter().any(|o| o.is_none()) {
            errors.push("panic-in-thread|a thread of the program panicked".into());
        }
        let mut canonical: HashMap<usize, u32> = HashMap::new();
        for (t, out) in outs.iter().enumerate() {
            let Some(out) = out else { continue };
            errors.extend(out.errors.iter().cloned());
            let mut own: BTreeSet<usize> = BTreeSet::new();
            for (op, res) in prog.threads[t].iter().zip(&out.results) {
                match (op, res) {
                    (Op::Intern { val, .. }, Res::Interned(ix)) => {
                        let v = *val as usize % values.len();
                        own.insert(v);
                        if let Some(prev) = canonical.insert(v, *ix) {
                            if prev != *ix {
                                errors.push(format!("equal-values-different-ids|value {} got index {prev} in one intern call and {ix} in another (thread {t})", conc_json(&values[v])));
                            }
                        }
                    }
                    (Op::Lookup { val }, Res::Looked(None)) => {
                        let v = *val as usize % values.len();
                        // Str and Bytes values with equal bytes are the same value: `own` is by value index,
                        // so only claim "must be found" when this thread interned this very value before
                        if own.contains(&v) {
                            errors.push(format!("get_interned-differs|thread {t}: get_interned({}) is None after the thread interned it", conc_json(&values[v])));
                        }
                    }
                    _ => {}
                }
            }
        }
        // lookups that found something must have found the value's id
        for (t, out) in outs.iter().enumerate() {
            let Some(out) = out else { continue };
            for (op, res) in prog.threads[t].iter().zip(&out.results) {
                if let (Op::Lookup { val }, Res::Looked(Some(ix))) = (op, res) {
                    let v = *val as usize % values.len();
                    match canonical.get(&v) {
                        Some(c) if c == ix => {}
                        Some(c) => errors.push(format!("get_interned-differs|thread {t}: get_interned({}) = index {ix}, intern gave {c}", conc_json(&values[v]))),
                        None => errors.push(format!("get_interned-differs|thread {t}: get_interned({}) = index {ix} but nobody interned it", conc_json(&values[v]))),
                    }
                }
            }
        }
        // different values -> different ids (per table); values with equal bytes are one value
        let mut by_id: BTreeMap<(Table, u32), usize> = BTreeMap::new();
        for (v, ix) in &canonical {
            let table = table_of(&values[*v]);
            if let Some(other) = by_id.insert((table, *ix), *v) {
                let same = match (&values[*v], &values[other]) {
                    (Concrete::Bytes(a), Concrete::Str(b)) | (Concrete::Str(b), Concrete::Bytes(a)) => a.as_slice() == b.as_bytes(),
                    (a, b) => a == b,
                };
                if !same {
                    errors.push(format!("different-values-same-id|{} and {} share index {ix}", conc_json(&values[*v]), conc_json(&values[other])));
                }
            }
        }
        if !outs.iter().any(|o| o.is_none()) {
            let after = lens();
            let growth = expected_growth(&values, &prog.threads);
            for (table, want) in &growth {
                let got = after[table] - before[table];
                if got != *want {
                    errors.push(format!("len-growth|table {table:?}: len() grew by {got} ({} -> {}) for {want} distinct new values", before[table], after[table]));
                }
            }
            for (v, ix) in &canonical {
                let table = table_of(&values[*v]);
                if (*ix as usize) < before[&table] || (*ix as usize) >= after[&table] {
                    errors.push(format!("index-not-dense|new value {} has index {ix} outside [{}, {})", conc_json(&values[*v]), before[&table], after[&table]));
                }
            }
            // stability: interning again (single-threaded) returns the same ids and changes nothing
            for (v, ix) in &canonical {
                let (again, err) = do_intern(&values[*v], 0);
                errors.extend(err);
                if again != *ix {
                    errors.push(format!("equal-values-different-ids|re-interning {} after the join gives index {again}, the threads got {ix}", conc_json(&values[*v])));
                }
            }
            if lens() != after {
                errors.push("len-grew-for-known-value|re-interning the program's values after the join changed a table's len()".into());
            }
        }

        // ---- evidence from the event log: same new value, overlapping critical sections
        let mut cur: HashMap<usize, u32> = HashMap::new(); // task -> value being interned
        let mut holder: HashMap<usize, usize> = HashMap::new(); // lock addr -> task holding it for writing
        let mut contended_same = false;
        let mut contended_any = false;
        for e in &log {
            match e {
                Entry::Begin { task, val, .. } => {
                    cur.insert(*task, *val);
                }
                Entry::End { task, .. } => {
                    cur.remove(task);
                }
                Entry::Sync { task, ev } => match ev.kind {
                    EventKind::WriteLock | EventKind::TryWriteOk => {
                        holder.insert(ev.addr, *task);
                    }
                    EventKind::WriteUnlock => {
                        holder.remove(&ev.addr);
                    }
                    EventKind::TryWriteFail | EventKind::WriteBusy | EventKind::ReadBusy => {
                        contended_any = true;
                        if let Some(h) = holder.get(&ev.addr) {
                            if h != task && cur.get(task).is_some() && cur.get(task) == cur.get(h) {
                                contended_same = true;
                            }
                        }
                    }
                    _ => {}
                },
            }
        }
        let mut labels = vec![];
        if contended_same {
            labels.push("sched:same-new-value-lock-contended");
        }
        if contended_any {
            labels.push("sched:shard-lock-contended");
        }
        let mut interners: HashMap<usize, BTreeSet<usize>> = HashMap::new();
        for (t, ops) in prog.threads.iter().enumerate() {
            for op in ops {
                if let Op::Intern { val, .. } = op {
                    interners.entry(*val as usize % values.len()).or_default().insert(t);
                }
            }
        }
        if interners.values().any(|ts| ts.len() >= 2) {
            labels.push("sched:value-interned-by-2+-threads");
        }
        let fail = errors.first().map(|first| {
            let sig = format!("sched:{}", first.split('|').next().unwrap_or("violation"));
            Fail::new(sig, errors.iter().take(8).cloned().collect::<Vec<_>>().join("\n"))
        });
        IterResult { fail, nontrivial: contended_same, key, labels, concrete }
    }
}

pub fn replay(report: &Report, input: &Value) -> Result<(), Fail> {
    if let Err(f) = crate::c05_seq::warm_up() {
        return Err(f);
    }
    let p = &input["program"];
    let values: Option<Vec<Concrete>> = p["values"].as_array().map(|a| a.iter().filter_map(conc_from_json).collect());
    let Some(values) = values else { return Err(Fail::new("harness:bad-replay", "program.values missing")) };
    let lens_want = BTreeMap::from([
        (Table::Bytes, p["table_lens"]["bytes"].as_u64().unwrap_or(0) as usize),
        (Table::Item, p["table_lens"]["item"].as_u64().unwrap_or(0) as usize),
        (Table::Path, p["table_lens"]["path"].as_u64().unwrap_or(0) as usize),
    ]);
    let prog = InternProg { kinds: vec![ValKind::BytesShort; values.len()], threads: ops_from_json(&p["threads"]) };
    let schedule: Vec<u32> = input["schedule"].as_array().map(|a| a.iter().map(|x| x.as_u64().unwrap_or(0) as u32).collect()).unwrap_or_default();
    let out = explore::replay(&schedule, Arc::new(Exec { prog, fixed: Some((values, lens_want)) }));
    match out.failure {
        Some(f) => Err(f.fail),
        None if out.diverged => {
            crate::explore::REPLAY_INCONCLUSIVE.store(true, std::sync::atomic::Ordering::SeqCst);
                    report.note_inconclusive("the recorded schedule no longer fits the program (the code under test changed its sequence of synchronisation operations, or the tables were larger than in the original run)");
            Ok(())
        }
        None => Ok(()),
    }
}

pub fn run(report: &Report, args: &Args) {
    let n_programs = args.tier.pick(150usize, 1500usize);
    let per = args.tier.pick((20usize, 8usize, 8usize), (120, 50, 50));
    let programs = vcore::generate_values(vcore::derive_seed(args.seed, "c05-programs", 0), n_programs, &prog_strategy());
    'outer: for (pi, prog) in programs.into_iter().enumerate() {
        let exec = Arc::new(Exec { prog, fixed: None });
        for (kind, n) in [(Kind::Random, per.0), (Kind::Pct(2), per.1), (Kind::Pct(3), per.2)] {
            let seed = vcore::derive_seed(args.seed, kind.name(), 1_000_000 + pi as u64);
            let out = explore::explore(kind, seed, n, exec.clone());
            crate::account(report, &out, kind.name());
            if let Some(f) = &out.failure {
                if crate::handle_failure(report, &format!("intern-{}", kind.name()), f, "shuttle") {
                    break 'outer;
                }
            }
        }
    }
}
