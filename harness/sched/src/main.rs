fn main() {
    vcore::inconclusive("sched: not built yet");
}
