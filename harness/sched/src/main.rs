//! C05 (interning is a faithful bijection under every schedule) and C06 (lock-free arena):
//! sequential model-based proptest, shuttle schedule exploration over the intern crate's
//! feature-gated sync shims, and Miri runs of small real-thread programs (`../miri_conc`).
use vcore::Report;

mod c05_sched;
mod c05_seq;
mod c06;
mod explore;
mod miri;
mod model;

fn main() {
    let args = vcore::parse_args();
    match args.property.as_str() {
        "C05" => c05_seq::run(&args),
        "C06" => c06::run(&args),
        other => vcore::inconclusive(&format!("sched: unknown property {other}")),
    }
}

/// Book one exploration run (many executions of one program) into the evidence.
pub fn account(report: &Report, out: &explore::Outcome, scheduler: &str) {
    for k in &out.nontrivial_keys {
        report.case(Some(k), &[]);
    }
    for _ in 0..out.executions.saturating_sub(out.nontrivial_keys.len() as u64) {
        report.case::<u64>(None, &[]);
    }
    report.label_n(&format!("scheduler={scheduler}"), out.executions);
    for (l, n) in &out.labels {
        report.label_n(l, *n);
    }
    if let (Some(s), "random") = (&out.sample, scheduler) {
        report.sample("scheduled-program", 3, || s.clone());
    }
}

/// Report a failed execution. Returns true when the campaign must stop (a violation was
/// written); a failure whose signature is a listed open finding is counted and tolerated.
pub fn handle_failure(report: &Report, name: &str, f: &explore::Failure, engine: &str) -> bool {
    if report.is_known(&f.fail.signature) {
        report.known_hit(&f.fail.signature);
        return false;
    }
    report.violation(name, &f.fail, explore::failure_json(f, engine));
    true
}
