//! The `node-runtime` oracle: the repository's TypeScript runtime executed by node 22 through
//! `/verif/runtime/run_cases.mjs` (protocol documented there).
//!
//! * [`NodeSession`] — one long-lived node process; `call` sends one case and reads one result
//!   (lock-step, ~50 µs per round trip), `batch` pipelines many cases (writer thread + reader).
//! * Every failure of the DRIVER (node 22 absent, process died, malformed answer, `ok:false`)
//!   is a [`DriverError`]; callers turn it into exit 2 (inconclusive) with
//!   [`DriverError::inconclusive`], never into a property violation.
use serde_json::{json, Value};
use std::io::{BufRead, BufReader, Write};
use std::path::PathBuf;
use std::process::{Child, ChildStdin, ChildStdout, Command, Stdio};

pub const NODE22_DEFAULT: &str = "/root/.nvm/versions/node/v22.22.2/bin/node";

#[derive(Debug, Clone)]
pub struct DriverError(pub String);

impl DriverError {
    pub fn inconclusive(&self) -> ! {
        vcore::inconclusive(&format!("node-runtime driver: {}", self.0))
    }
}

impl std::fmt::Display for DriverError {
    fn fmt(&self, f: &mut std::fmt::Formatter<'_>) -> std::fmt::Result {
        f.write_str(&self.0)
    }
}

/// Path of node 22: `VERIF_NODE22` if set, else the image's nvm install. `None` when absent.
pub fn node22_path() -> Option<PathBuf> {
    let p = PathBuf::from(std::env::var("VERIF_NODE22").unwrap_or_else(|_| NODE22_DEFAULT.to_string()));
    if p.is_file() { Some(p) } else { None }
}

pub fn runtime_dir() -> PathBuf {
    vcore::verif_root().join("runtime")
}

pub struct NodeSession {
    child: Child,
    stdin: Option<ChildStdin>,
    stdout: BufReader<ChildStdout>,
    stderr_path: PathBuf,
    next_id: u64,
    pub node_version: String,
    pub repo: String,
}

impl NodeSession {
    /// Spawn node 22 with the loader registered; waits for the driver's handshake line.
    /// The executed runtime is `$VERIF_REPO/libs/isograph-react/src/core` (default /repo).
    pub fn start() -> Result<NodeSession, DriverError> {
        let node = node22_path().ok_or_else(|| DriverError(format!("node 22 not found at {NODE22_DEFAULT} (set VERIF_NODE22)")))?;
        let dir = runtime_dir();
        let register = dir.join("register.mjs");
        let script = dir.join("run_cases.mjs");
        for p in [&register, &script, &dir.join("loader.mjs")] {
            if !p.is_file() {
                return Err(DriverError(format!("missing driver file {}", p.display())));
            }
        }
        static SESSIONS: std::sync::atomic::AtomicU64 = std::sync::atomic::AtomicU64::new(0);
        let k = SESSIONS.fetch_add(1, std::sync::atomic::Ordering::SeqCst);
        let stderr_path = vcore::scratch_base().join(format!("node-stderr-{}-{k}.log", std::process::id()));
        let stderr_file = std::fs::File::create(&stderr_path).map_err(|e| DriverError(format!("stderr file: {e}")))?;
        let mut child = Command::new(&node)
            .arg("--disable-warning=ExperimentalWarning")
            .arg("--import")
            .arg(&register)
            .arg(&script)
            .env("VERIF_REPO", vcore::repo_root())
            .stdin(Stdio::piped())
            .stdout(Stdio::piped())
            .stderr(Stdio::from(stderr_file))
            .spawn()
            .map_err(|e| DriverError(format!("cannot spawn {}: {e}", node.display())))?;
        let stdin = child.stdin.take();
        let stdout = BufReader::new(child.stdout.take().expect("piped stdout"));
        let mut s = NodeSession { child, stdin, stdout, stderr_path, next_id: 0, node_version: String::new(), repo: String::new() };
        let hello = s.read_line()?;
        if hello["ready"] != json!(true) {
            return Err(DriverError(format!("driver did not start: {}", hello["error"].as_str().unwrap_or(&hello.to_string()))));
        }
        s.node_version = hello["node"].as_str().unwrap_or_default().to_string();
        s.repo = hello["repo"].as_str().unwrap_or_default().to_string();
        if !s.node_version.starts_with("v22.") {
            return Err(DriverError(format!("expected node 22, driver runs {}", s.node_version)));
        }
        Ok(s)
    }

    fn stderr_tail(&self) -> String {
        let t = std::fs::read_to_string(&self.stderr_path).unwrap_or_default();
        let lines: Vec<&str> = t.lines().collect();
        lines[lines.len().saturating_sub(12)..].join(" | ")
    }

    fn read_line(&mut self) -> Result<Value, DriverError> {
        let mut line = String::new();
        let n = self.stdout.read_line(&mut line).map_err(|e| DriverError(format!("read from node: {e}")))?;
        if n == 0 {
            let status = self.child.try_wait().ok().flatten().map(|s| s.to_string()).unwrap_or_else(|| "still running".into());
            return Err(DriverError(format!("node closed its output ({status}); stderr: {}", self.stderr_tail())));
        }
        serde_json::from_str(&line).map_err(|e| DriverError(format!("driver wrote a non-JSON line ({e}): {}", line.chars().take(300).collect::<String>())))
    }

    /// One case, one result. `ok:false` answers are driver errors.
    pub fn call(&mut self, mut case: Value) -> Result<Value, DriverError> {
        let id = self.next_id;
        self.next_id += 1;
        case["id"] = json!(id);
        let stdin = self.stdin.as_mut().ok_or_else(|| DriverError("session already closed".into()))?;
        let mut text = serde_json::to_string(&case).expect("serialise case");
        text.push('\n');
        stdin.write_all(text.as_bytes()).and_then(|_| stdin.flush()).map_err(|e| DriverError(format!("write to node: {e}; stderr: {}", self.stderr_tail())))?;
        let r = self.read_line()?;
        check_answer(&r, id)?;
        Ok(r)
    }

    /// Many cases through the same process, pipelined. Results are in input order.
    pub fn batch(&mut self, cases: Vec<Value>) -> Result<Vec<Value>, DriverError> {
        let first = self.next_id;
        self.next_id += cases.len() as u64;
        let mut stdin = self.stdin.take().ok_or_else(|| DriverError("session already closed".into()))?;
        let n = cases.len();
        let (results, stdin_back) = std::thread::scope(|scope| {
            let writer = scope.spawn(move || {
                let mut res = Ok(());
                for (i, mut c) in cases.into_iter().enumerate() {
                    c["id"] = json!(first + i as u64);
                    let mut text = serde_json::to_string(&c).expect("serialise case");
                    text.push('\n');
                    if let Err(e) = stdin.write_all(text.as_bytes()) {
                        res = Err(e);
                        break;
                    }
                }
                let res = res.and_then(|_| stdin.flush());
                (stdin, res)
            });
            let mut out = Vec::with_capacity(n);
            let mut err = None;
            for i in 0..n {
                match self.read_line().and_then(|r| check_answer(&r, first + i as u64).map(|_| r)) {
                    Ok(r) => out.push(r),
                    Err(e) => {
                        err = Some(e);
                        break;
                    }
                }
            }
            if err.is_some() {
                // unblock the writer
                let _ = self.child.kill();
            }
            let (stdin, wres) = writer.join().expect("writer thread");
            let res = match (err, wres) {
                (Some(e), _) => Err(e),
                (None, Err(e)) => Err(DriverError(format!("write to node: {e}"))),
                (None, Ok(())) => Ok(out),
            };
            (res, stdin)
        });
        self.stdin = Some(stdin_back);
        results
    }

    pub fn close(mut self) {
        self.shutdown();
    }

    fn shutdown(&mut self) {
        drop(self.stdin.take());
        let _ = self.child.wait();
        let _ = std::fs::remove_file(&self.stderr_path);
    }
}

impl Drop for NodeSession {
    fn drop(&mut self) {
        if self.stdin.is_some() {
            drop(self.stdin.take());
            let _ = self.child.kill();
            let _ = self.child.wait();
            let _ = std::fs::remove_file(&self.stderr_path);
        }
    }
}

fn check_answer(r: &Value, id: u64) -> Result<(), DriverError> {
    if r["id"] != json!(id) {
        return Err(DriverError(format!("answer out of order: expected id {id}, got {}", r["id"])));
    }
    if r["ok"] != json!(true) {
        return Err(DriverError(format!(
            "driver could not run case {id}: stage={} error={}",
            r["stage"].as_str().unwrap_or("?"),
            r["error"].as_str().unwrap_or(&r.to_string())
        )));
    }
    Ok(())
}

/// Convenience for bulk drivers: spawn, run, close.
pub fn run_batch(cases: Vec<Value>) -> Result<Vec<Value>, DriverError> {
    let mut s = NodeSession::start()?;
    let r = s.batch(cases)?;
    s.close();
    Ok(r)
}

// ---- case builders ----------------------------------------------------------------------------

/// `arguments_js` is the JS expression text the compiler emits (`null` or `[ [ "a", {…} ], … ]`).
pub fn response_key_case(field_name: &str, arguments_js: &str, linked: bool, variables: Option<&Value>) -> Value {
    let mut c = json!({"kind": "response_key", "fieldName": field_name, "arguments": arguments_js, "linked": linked});
    if let Some(v) = variables {
        c["variables"] = v.clone();
    }
    c
}

/// See run_cases.mjs for the JSON representation of reader ASTs (nested artifacts, resolvers).
pub fn normalize_and_read_case(normalization_ast: &Value, reader_ast: &Value, response: &Value, variables: &Value, concrete_type: &str) -> Value {
    json!({
        "kind": "normalize_and_read",
        "normalizationAst": normalization_ast,
        "readerAst": reader_ast,
        "response": response,
        "variables": variables,
        "concreteType": concrete_type,
    })
}

#[derive(Debug, Clone, PartialEq)]
pub enum ReadOutcome {
    Success,
    /// reason chain, outermost first
    MissingData(Vec<String>),
    /// the runtime threw (stage, message)
    Exception(String, String),
}

pub fn read_outcome(v: &Value) -> ReadOutcome {
    match v["kind"].as_str() {
        Some("Success") => ReadOutcome::Success,
        Some("MissingData") => ReadOutcome::MissingData(
            v["reasonChain"].as_array().map(|a| a.iter().map(|s| s.as_str().unwrap_or_default().to_string()).collect()).unwrap_or_default(),
        ),
        _ => ReadOutcome::Exception(v["stage"].as_str().unwrap_or("?").to_string(), v["message"].as_str().unwrap_or_default().to_string()),
    }
}

/// Main read plus every explicit component read: the first non-success, if any.
pub fn first_failed_read(answer: &Value) -> Option<(String, ReadOutcome)> {
    let main = read_outcome(answer);
    if main != ReadOutcome::Success {
        return Some(("entrypoint reader".to_string(), main));
    }
    for key in ["componentReads", "extraReads"] {
        for r in answer[key].as_array().cloned().unwrap_or_default() {
            let o = read_outcome(&r);
            if o != ReadOutcome::Success {
                let who = r["fieldName"].as_str().or(r["label"].as_str()).unwrap_or("?").to_string();
                return Some((format!("{key}:{who}@{}", r["root"]), o));
            }
        }
    }
    None
}

/// Driver self-test on the hand-written examples in `runtime/examples/normalize_and_read.ndjson`
/// (a complete response, a normalization AST that does not fetch what an eager resolver reads, a
/// component reader whose argument the entrypoint did not fetch) plus one response-key case.
/// A mismatch means the loader/driver no longer drives the runtime as intended: `Err` (exit 2).
pub fn self_test(session: &mut NodeSession) -> Result<(), DriverError> {
    let path = runtime_dir().join("examples/normalize_and_read.ndjson");
    let text = std::fs::read_to_string(&path).map_err(|e| DriverError(format!("{}: {e}", path.display())))?;
    let mut cases = vec![];
    for line in text.lines().filter(|l| !l.trim().is_empty()) {
        cases.push(serde_json::from_str::<Value>(line).map_err(|e| DriverError(format!("{}: {e}", path.display())))?);
    }
    if cases.len() != 3 {
        return Err(DriverError(format!("{}: expected 3 example cases", path.display())));
    }
    let answers = session.batch(cases)?;
    let bad = |what: &str, v: &Value| Err(DriverError(format!("self-test `{what}` answered {}", v.to_string().chars().take(400).collect::<String>())));
    if first_failed_read(&answers[0]).is_some() || answers[0]["data"]["thePet"]["shout"] != json!("REX") || answers[0]["componentReads"].as_array().map(|a| a.len()) != Some(1) {
        return bad("complete", &answers[0]);
    }
    match read_outcome(&answers[1]) {
        ReadOutcome::MissingData(chain) if chain.last().map(|s| s.as_str()) == Some("No value for name on root 7") && chain.len() == 3 => {}
        _ => return bad("incomplete", &answers[1]),
    }
    match first_failed_read(&answers[2]) {
        Some((who, ReadOutcome::MissingData(chain))) if who.starts_with("componentReads:PetCard") && chain == vec!["No value for nickname____style___short on root 7".to_string()] => {}
        _ => return bad("component-reads-unfetched-argument", &answers[2]),
    }
    let r = session.call(response_key_case("pet", "[\n  [\n    \"id\",\n    { kind: \"Variable\", name: \"id\" },\n  ],\n]", true, Some(&json!({"id": "7"}))))?;
    if r["key"] != json!("pet____id___v_id") || r["parentRecordKey"] != json!("pet____id___7") {
        return bad("response_key", &r);
    }
    Ok(())
}
