//! C12 (response keys) and, later, C10 (readers only read what the entrypoint fetches).
fn main() {
    let args = vcore::parse_args();
    match args.property.as_str() {
        "C12" => runtime::c12::run(&args),
        "C10" => runtime::c10::run(&args),
        other => vcore::inconclusive(&format!("runtime: unknown property {other}")),
    }
}
