fn main() {
    vcore::inconclusive("runtime: not built yet");
}
