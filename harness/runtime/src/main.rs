//! C12 (response keys) and, later, C10 (readers only read what the entrypoint fetches).
fn main() {
    let args = vcore::parse_args();
    match args.property.as_str() {
        "C12" => runtime::c12::run(&args),
        "C10" => vcore::inconclusive(
            "C10: the node-runtime driver (runtime/run_cases.mjs kind normalize_and_read, runtime::node) is ready; \
             the case producer (project generator + conforming responses) is not built yet",
        ),
        other => vcore::inconclusive(&format!("runtime: unknown property {other}")),
    }
}
