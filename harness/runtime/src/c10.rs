//! C10 — readers only read what the entrypoint fetches and normalizes.
//!
//! Domain: accepted G-PROJECT programs (all tiers) x generated conforming responses (respgen.rs)
//! x generated variables, for every entrypoint of the program.
//! Oracle: the repository's real runtime under node 22. `normalizeData` with the entrypoint's
//! normalization AST into a fresh store, then the module-private `readData` on the entrypoint's
//! reader AST; eager client fields, `asX` refinements and client-pointer conditions are read by
//! the recursion inside `readData`, component readers are read explicitly at the store link and
//! with the variables their parent gave them (the driver records every fragment reference the
//! runtime hands to `componentFunction`). `@loadable` / imperatively loaded fields / client
//! pointer targets are boundaries: the runtime itself only returns closures for them.
//! Any `MissingData` (or exception while normalizing/reading) is a violation; the replay holds the
//! program, the entrypoint, response, variables and the reason chain.
use crate::artifacts::{entrypoint_case, reader_stats, EntrypointCase};
use crate::node::{first_failed_read, normalize_and_read_case, DriverError, NodeSession, ReadOutcome};
use crate::respgen;
use gen_project::cases::{self, CaseSpec, Exclusions};
use gen_project::compile::{self, Outcome};
use gen_project::Rendered;
use proptest::prelude::*;
use serde_json::{json, Value};
use std::cell::RefCell;
use std::sync::atomic::{AtomicU64, Ordering};
use tsread::ArtifactSet;
use vcore::{Args, Fail, Report};

static COUNTER: AtomicU64 = AtomicU64::new(0);

pub const SIG_NESTED_LIST: &str = "normalize-exception:list-of-lists-of-objects";
pub const SIG_POINTER_ARGS: &str = "missing-data:client-pointer-reader-read-with-the-parent-variables";
pub const SIG_EMPTY_LINKED: &str = "missing-data:linked-field-without-server-selections";
pub const SIG_OMITTED_IN_OBJECT: &str = "missing-data:null-or-omitted-variable-inside-object-argument";
pub const SIG_ENTITY_WITHOUT_ID: &str = "missing-data:entity-also-normalized-without-its-id";
pub const SIG_KEY_COLLISION: &str = "missing-data:response-key-collision-in-operation";
pub const SIG_DEFAULT_VALUE: &str = "missing-data:client-field-variable-default-value-not-applied-when-reading";

/// Evidence samples chosen deterministically although cases run on parallel workers: per kind the
/// candidate with the smallest hash wins; `flush` hands them to the report at the end.
#[derive(Default)]
pub struct DetSamples(std::sync::Mutex<std::collections::BTreeMap<String, (u64, Value)>>);

impl DetSamples {
    pub fn offer(&self, kind: &str, hash: u64, make: impl FnOnce() -> Value) {
        let mut g = self.0.lock().unwrap();
        if g.get(kind).is_none_or(|(h, _)| hash < *h) {
            g.insert(kind.to_string(), (hash, make()));
        }
    }
    pub fn flush(&self, report: &Report) {
        for (k, (_, v)) in self.0.lock().unwrap().iter() {
            report.sample(k, 1, || v.clone());
        }
    }
}

pub static SAMPLES: std::sync::LazyLock<DetSamples> = std::sync::LazyLock::new(DetSamples::default);

thread_local! {
    static SESSION: RefCell<Option<NodeSession>> = const { RefCell::new(None) };
}

/// One node process per worker thread. Driver failures end the run as inconclusive.
pub fn with_session<R>(f: impl FnOnce(&mut NodeSession) -> Result<R, DriverError>) -> R {
    SESSION.with(|cell| {
        let mut guard = cell.borrow_mut();
        if guard.is_none() {
            match NodeSession::start() {
                Ok(s) => *guard = Some(s),
                Err(e) => e.inconclusive(),
            }
        }
        match f(guard.as_mut().unwrap()) {
            Ok(r) => r,
            Err(e) => e.inconclusive(),
        }
    })
}

pub struct Compiled {
    pub set: ArtifactSet,
    pub schema: refgql::Schema,
}

/// Compile in-process. `Err(reason)` = not accepted / not usable: skipped and counted.
pub fn compile_files(files: &Rendered) -> Result<Compiled, String> {
    let n = COUNTER.fetch_add(1, Ordering::SeqCst);
    let dir = compile::fresh_dir("c10", n);
    compile::write_project(&dir, files);
    let out = compile::compile_inproc(&dir);
    let _ = std::fs::remove_dir_all(&dir);
    let artifacts = match out {
        Outcome::Artifacts(m) => m,
        Outcome::Diagnostics(_) => return Err("skipped:not-accepted(diagnostics)".into()),
        Outcome::SetupError(_) => return Err("skipped:setup-error".into()),
        Outcome::Panic(_) => return Err("skipped:compiler-crash(C08)".into()),
    };
    let sdl = files.files.get("schema.graphql").ok_or("skipped:no-schema-file")?;
    let doc = refgql::parse_schema(sdl).map_err(|_| "skipped:refgql-rejects-schema".to_string())?;
    let schema = refgql::Schema::build(&[&doc]).map_err(|_| "skipped:refgql-rejects-schema".to_string())?;
    Ok(Compiled { set: ArtifactSet::from_files(artifacts.into_iter().collect::<Vec<_>>()), schema })
}

fn innermost_kind(chain: &[String]) -> &'static str {
    match chain.last().map(|s| s.as_str()) {
        Some(s) if s.starts_with("No value for") => "scalar-not-in-store",
        Some(s) if s.starts_with("No link for") => "link-not-in-store",
        Some(s) if s.starts_with("No record for root") => "record-not-in-store",
        _ => "other",
    }
}

/// Run one (entrypoint, response, variables) through the runtime and judge it.
pub fn judge(ep: &EntrypointCase, response: &Value, variables: &Value) -> Result<Value, Fail> {
    let mut case = normalize_and_read_case(&ep.normalization, &ep.reader_ast, response, variables, &ep.concrete_type);
    case["nestedRefetchQueries"] = ep.nested_refetch_queries.clone();
    let answer = with_session(|s| s.call(case));
    match first_failed_read(&answer) {
        None => Ok(answer),
        Some((who, ReadOutcome::MissingData(chain))) => Err(Fail::new(
            format!("missing-data:{}", innermost_kind(&chain)),
            format!("{} of {} reports missing data after normalizing a conforming response\nreason chain:\n  {}", who, ep.path, chain.join("\n  ")),
        )),
        Some((who, ReadOutcome::Exception(stage, msg))) => {
            let short: String = msg.chars().take(90).collect();
            Err(Fail::new(format!("runtime-exception:{stage}:{short}"), format!("{who} of {}: the runtime threw while {stage}: {msg}", ep.path)))
        }
        Some((_, ReadOutcome::Success)) => unreachable!(),
    }
}

/// One program in five is run over the whole domain (recorded root causes tolerated, not excluded).
fn exclude_known(s: &C10Spec) -> bool {
    vcore::hash_of(&s.spec.tape) % 5 != 0
}

fn rotate(tape: &[u16], k: usize) -> Vec<u16> {
    if tape.is_empty() || k == 0 {
        return tape.to_vec();
    }
    let s = (k * 7919) % tape.len();
    let mut v = tape[s..].to_vec();
    v.extend_from_slice(&tape[..s]);
    // make the first cells differ as well
    for (i, c) in v.iter_mut().enumerate().take(8) {
        *c = c.wrapping_add((k as u16).wrapping_mul(9973).wrapping_add(i as u16 * 4099));
    }
    v
}

#[derive(Clone, Debug)]
pub struct C10Spec {
    pub spec: CaseSpec,
    pub rtape: Vec<u16>,
}

pub fn c10_strategy() -> impl Strategy<Value = C10Spec> {
    // tapes shorter than ~150 cells are used up by the schema builder and yield projects without
    // client fields, which have no operation to check
    (prop::collection::vec(any::<u16>(), 150..520), any::<u16>(), prop::collection::vec(any::<u16>(), 0..160))
        .prop_map(|(tape, variant, rtape)| C10Spec { spec: CaseSpec { tape, variant, mtape: vec![] }, rtape })
}

/// The case a spec stands for; config variations are irrelevant to C10 and switched off.
pub fn case_of(s: &C10Spec, ex: &Exclusions) -> cases::Case {
    let (tier, mut cfg) = cases::tier_config(s.spec.variant as usize, ex);
    cfg.config_space = false;
    let mut project = gen_project::build_project(s.spec.tape.clone(), &cfg);
    // every client field on the query root is made an entrypoint (the builder declares only a
    // few): more operations per compile, still a program of the generated language subset
    for i in 0..project.decls.len() {
        let d = &project.decls[i];
        if d.parent == "Query" && !d.is_pointer() && !project.entrypoints.iter().any(|e| e.parent == d.parent && e.name == d.name) {
            let e = gen_project::Entrypoint { parent: d.parent.clone(), name: d.name.clone(), lazy: false, file: d.file };
            project.entrypoints.push(e);
        }
    }
    let rendered = gen_project::render(&project);
    cases::Case { kind: cases::Kind::Valid, tier, project, rendered, mutation: None, note: String::new() }
}

fn has_list_of_lists_of_objects(v: &Value) -> bool {
    match v {
        Value::Array(a) => a.iter().any(|x| x.is_array() || has_list_of_lists_of_objects(x)),
        Value::Object(m) => m.values().any(has_list_of_lists_of_objects),
        _ => false,
    }
}

/// Two objects of the response carry the same id: the same entity is reached along two paths.
fn response_repeats_an_entity(v: &Value) -> bool {
    fn ids(v: &Value, out: &mut Vec<String>) {
        match v {
            Value::Array(a) => a.iter().for_each(|x| ids(x, out)),
            Value::Object(m) => {
                if let Some(Value::String(id)) = m.get("id") {
                    out.push(format!("{}:{id}", m.get("__typename").and_then(|t| t.as_str()).unwrap_or("")));
                }
                m.values().for_each(|x| ids(x, out));
            }
            _ => {}
        }
    }
    let mut all = vec![];
    ids(v, &mut all);
    // objects at concrete positions carry no __typename: compare by id alone as well
    let bare: Vec<&str> = all.iter().map(|s| s.rsplit(':').next().unwrap_or("")).collect();
    (0..bare.len()).any(|i| bare[i + 1..].contains(&bare[i]))
}

/// `Type:parent.field.N` — the store id the runtime derives from the PATH for an object without id.
fn innermost_root_is_path_based(message: &str) -> bool {
    message.lines().last().is_some_and(|l| l.rsplit(" on root ").next().is_some_and(|root| root.contains(':') && root.contains('.')))
}

/// A Linked normalization node without selections: nothing is written for the object, so no
/// store record comes into existence.
fn has_linked_node_without_selections(nast: &Value) -> bool {
    nast.as_array().is_some_and(|a| {
        a.iter().any(|n| match n["kind"].as_str() {
            Some("Linked") => n["selections"].as_array().is_some_and(|s| s.is_empty()) || has_linked_node_without_selections(&n["selections"]),
            Some("InlineFragment") => has_linked_node_without_selections(&n["selections"]),
            _ => false,
        })
    })
}

/// A client field / pointer declares a variable with a default value.
fn declares_variable_default(files: &Rendered) -> bool {
    files.files.iter().any(|(k, v)| {
        k.starts_with("src/")
            && v.lines().any(|l| {
                let t = l.trim_start();
                (t.starts_with("field ") || t.starts_with("pointer ")) && t.split_once('(').is_some_and(|(_, rest)| rest.split(')').next().unwrap_or("").contains(" = "))
            })
    })
}

fn refine_signature(mut f: Fail, files: &Rendered, response: &Value, ep: &EntrypointCase, schema: &refgql::Schema) -> Fail {
    if f.signature.starts_with("runtime-exception:normalize:Error: Unexpected missing __typename") && has_list_of_lists_of_objects(response) {
        f.signature = SIG_NESTED_LIST.into();
        return f;
    }
    // two different (field, arguments) under one response key (root cause: C12's collision findings):
    // no conforming response exists, whatever the generator picks for the shared key misleads one reader
    if f.signature.starts_with("missing-data:") && ep.operation_text.as_deref().is_some_and(respgen::operation_has_response_key_collision) {
        f.signature = SIG_KEY_COLLISION.into();
        return f;
    }
    if f.signature == "missing-data:record-not-in-store" && has_linked_node_without_selections(&ep.normalization) {
        f.signature = SIG_EMPTY_LINKED.into();
        return f;
    }
    if f.signature.starts_with("missing-data:") && reader_stats(&ep.reader_ast).pointers_with_arguments > 0 {
        f.signature = SIG_POINTER_ARGS.into();
        return f;
    }
    let abstract_without_id = ep.operation_text.as_deref().is_some_and(|t| respgen::operation_has_abstract_field_without_id(schema, t));
    if f.signature.starts_with("missing-data:") && (abstract_without_id || (innermost_root_is_path_based(&f.message) && response_repeats_an_entity(response))) {
        f.signature = SIG_ENTITY_WITHOUT_ID.into();
        return f;
    }
    // the store key the reader failed on is that of an object-valued argument, and variables occur inside object values
    let last_reason_has_object_key = f.message.lines().last().is_some_and(|l| l.contains("___{"));
    if f.signature.starts_with("missing-data:") && last_reason_has_object_key && crate::artifacts::has_variable_inside_object(&ep.reader_ast) {
        f.signature = SIG_OMITTED_IN_OBJECT.into();
        return f;
    }
    if f.signature.starts_with("missing-data:") && reader_stats(&ep.reader_ast).resolvers_omitting_a_variable > 0 && declares_variable_default(files) {
        f.signature = SIG_DEFAULT_VALUE.into();
        return f;
    }
    f
}

pub fn declared_entrypoints(p: &gen_project::Project) -> Vec<String> {
    p.entrypoints.iter().map(|e| format!("{}/{}/entrypoint.ts", e.parent, e.name)).collect()
}

pub struct ProgramResult {
    pub entrypoints: usize,
    pub reads: usize,
    pub nontrivial: bool,
    pub labels: Vec<String>,
    /// first failure with the replay input that reproduces it
    pub failure: Option<(Fail, Value)>,
}

/// All entrypoints of one program, `responses` responses each.
pub fn run_program(files: &Rendered, declared: &[String], rtape: &[u16], responses: usize, report: &Report, exclude_known: bool) -> Result<ProgramResult, String> {
    let known = |sig: &str| exclude_known && report.is_known(sig);
    let compiled = compile_files(files)?;
    let mut res = ProgramResult { entrypoints: 0, reads: 0, nontrivial: false, labels: vec![], failure: None };
    for path in compiled.set.paths_named("entrypoint.ts") {
        // entrypoints the compiler generates for @loadable fields are behind a loadable boundary
        // (the runtime reads them at the field's own record, after a second request)
        if !declared.iter().any(|d| d == path) {
            report.label("entrypoint-of-loadable-field(not read: behind the boundary)");
            continue;
        }
        let ep = match entrypoint_case(&compiled.set, path) {
            Ok(ep) => ep,
            Err(e) => {
                report.label("skipped-entrypoint:artifact-graph-not-linkable");
                SAMPLES.offer("unlinkable-entrypoint", vcore::hash_of(&e.0), || json!({"error": e.0}));
                continue;
            }
        };
        let Some(text) = ep.operation_text.clone() else {
            report.label("skipped-entrypoint:persisted-operation");
            continue;
        };
        res.entrypoints += 1;
        let rs = reader_stats(&ep.reader_ast);
        if rs.pointers_with_arguments > 0 && known(SIG_POINTER_ARGS) {
            report.excluded(SIG_POINTER_ARGS);
            continue;
        }
        if known(SIG_ENTITY_WITHOUT_ID) && respgen::operation_has_abstract_field_without_id(&compiled.schema, &text) {
            report.excluded(SIG_ENTITY_WITHOUT_ID);
            continue;
        }
        if crate::artifacts::has_variable_inside_object(&ep.reader_ast) && known(SIG_OMITTED_IN_OBJECT) {
            report.excluded(SIG_OMITTED_IN_OBJECT);
            continue;
        }
        if rs.resolvers_omitting_a_variable > 0 && declares_variable_default(files) && known(SIG_DEFAULT_VALUE) {
            report.excluded(SIG_DEFAULT_VALUE);
            continue;
        }
        if has_linked_node_without_selections(&ep.normalization) && known(SIG_EMPTY_LINKED) {
            report.excluded(SIG_EMPTY_LINKED);
            continue;
        }
        for k in 0..responses {
            let tape = rotate(rtape, k + res.entrypoints * 31);
            let (_, response, variables, stats) = match respgen::generate(&compiled.schema, &text, tape, false) {
                Ok(x) => x,
                Err(e) => {
                    // not valid GraphQL / not matching the schema: C09's property, not this one
                    let why = if text.contains("l_-") { "operation-not-parsable(negative-int-alias,C12)" } else { "operation-not-usable(C09)" };
                    report.label(&format!("skipped-entrypoint:{why}"));
                    SAMPLES.offer("unusable-operation", vcore::hash_of(&text), || json!({"error": e, "operation": text}));
                    break;
                }
            };
            if stats.nested_object_lists > 0 && known(SIG_NESTED_LIST) {
                // recorded finding: excluded so that the search continues behind it
                report.excluded(SIG_NESTED_LIST);
                break;
            }
            res.reads += 1;
            let abstract_pos = stats.abstract_positions > 0 || rs.conditions > 0;
            let substitution = rs.resolver_with_arguments > 0 || rs.variable_arguments > 0;
            if rs.resolver_depth >= 2 || substitution || abstract_pos {
                res.nontrivial = true;
            }
            let mut l = vec![];
            if rs.resolver_depth >= 2 {
                l.push("client-fields>=2-levels");
            }
            if substitution {
                l.push("argument/variable-substitution");
            }
            if abstract_pos {
                l.push("abstract-position");
            }
            if rs.components > 0 {
                l.push("component-reader");
            }
            if rs.pointers > 0 {
                l.push("client-pointer");
            }
            if rs.loadable + rs.imperative > 0 {
                l.push("loadable/imperative-boundary");
            }
            if ep.lazy_reader || ep.lazy_normalization {
                l.push("lazy-entrypoint");
            }
            if stats.entity_revisits > 0 {
                l.push("same-entity-along-two-paths");
            }
            if stats.nulls > 0 {
                l.push("response-with-nulls");
            }
            if stats.empty_lists > 0 {
                l.push("response-with-empty-list");
            }
            if ep.concrete_type != "Query" {
                l.push("mutation-entrypoint");
            }
            for x in l {
                if !res.labels.iter().any(|y| y == x) {
                    res.labels.push(x.to_string());
                }
            }
            match judge(&ep, &response, &variables) {
                Ok(answer) => {
                    report.label_n("component-readers-read-explicitly", answer["componentReads"].as_array().map(|a| a.len()).unwrap_or(0) as u64);
                }
                Err(f) => {
                    let f = refine_signature(f, files, &response, &ep, &compiled.schema);
                    // a listed root cause must not hide an unlisted failure of the same program
                    let replace = match &res.failure {
                        None => true,
                        Some((old, _)) => report.is_known(&old.signature) && !report.is_known(&f.signature),
                    };
                    if replace {
                        let input = json!({"kind": "c10", "files": files.files, "entrypoint": ep.path, "operation": text, "response": response, "variables": variables});
                        res.failure = Some((f, input));
                    }
                }
            }
        }
    }
    Ok(res)
}

fn run_input(input: &Value, strict: bool, report: &Report) -> Result<(), Fail> {
    let files = cases::load_case_files(input);
    let compiled = match compile_files(&files) {
        Ok(c) => c,
        // a checked-in input the compiler no longer accepts says nothing about this property
        Err(e) if !strict => {
            report.label(&format!("regression-input-not-accepted({e})"));
            return Ok(());
        }
        Err(e) => vcore::inconclusive(&format!("replay: the program is not accepted any more ({e})")),
    };
    let path = input["entrypoint"].as_str().unwrap_or_default();
    let ep = entrypoint_case(&compiled.set, path).unwrap_or_else(|e| vcore::inconclusive(&format!("replay: {}", e.0)));
    judge(&ep, &input["response"], &input["variables"]).map(|_| ()).map_err(|f| refine_signature(f, &files, &input["response"], &ep, &compiled.schema))
}

pub fn run(args: &Args) {
    let report = Report::new(
        args,
        "exploration",
        "accepted G-PROJECT programs (core / client-graph / advanced / everything tiers) x every entrypoint x generated \
         conforming responses (consistent world, nulls, list lengths 0..3, concrete types at abstract positions, shared \
         entities) and variables, normalized and read by the real runtime under node 22 (entrypoint reader + every \
         component reader the runtime instantiates); non-trivial = the entrypoint reads through >=2 levels of client \
         fields, or passes arguments/variables along the chain, or has an abstract position; distinct by rendered files",
    );
    report.engine("inproc");
    report.engine("node-runtime");
    report.engine("tsread");
    report.engine("refgql");
    report.assumption("responses come from a consistent world: one value per (entity, field, argument values) within a response, as a real server answers");
    report.assumption("project resolvers are G-PROJECT's `function C(props) { return null; }`; compiler-written resolvers (asX refinements) run as emitted");
    report.assumption("tsread's evaluation of artifact literals equals JS evaluation (strings cooked per ECMA-262)");
    report.assumption("programs the compiler rejects or crashes on, and operations refgql cannot parse or type, are skipped and counted (C16 / C08 / C09 judge those)");

    vcore::set_max_shrink_iters(300);
    with_session(|s| crate::node::self_test(s));

    if let Some(i) = args.rest.iter().position(|a| a == "--probe") {
        // development aid: compile the files of a JSON document, generate one response per declared
        // entrypoint and print the replay input with the verdict
        let doc = vcore::read_replay(std::path::Path::new(&args.rest[i + 1]));
        let files = cases::load_case_files(&doc);
        let declared: Vec<String> = doc["entrypoints"].as_array().map(|a| a.iter().filter_map(|x| x.as_str().map(|s| s.to_string())).collect()).unwrap_or_default();
        let r = run_program(&files, &declared, &(0..64u64).map(|i| (args.seed.wrapping_mul(40503).wrapping_add(i.wrapping_mul(25173)) % 65536) as u16).collect::<Vec<u16>>(), 1, &report, false);
        match r {
            Err(e) => println!("PROBE: {e}"),
            Ok(r) => match r.failure {
                Some((f, input)) => println!("PROBE-FAIL {}\n{}\nINPUT {}", f.signature, f.message, input),
                None => println!("PROBE-OK entrypoints={} reads={}", r.entrypoints, r.reads),
            },
        }
        std::process::exit(0);
    }
    if let Some(path) = &args.replay {
        let v = vcore::read_replay(path);
        report.case(Some(&v["input"].to_string()), &["replay"]);
        report.case(Some("replay-marker"), &[]);
        report.sample("replay", 1, || v["input"].clone());
        if let Err(f) = run_input(&v["input"], true, &report) {
            report.violation("replay", &f, v["input"].clone());
        }
        report.finish();
    }
    report.run_regressions(|i| run_input(i, false, &report));

    let ex = Exclusions::default();
    let n = args.tier.pick(8000u32, 60_000u32);
    let responses = args.tier.pick(3usize, 5usize);
    let res = vcore::run_prop_parallel(&report, "programs", n, vcore::num_workers(), c10_strategy, |s| {
        let case = case_of(s, &ex);
        match run_program(&case.rendered, &declared_entrypoints(&case.project), &s.rtape, responses, &report, exclude_known(&s)) {
            Err(reason) => {
                report.case::<str>(None, &[&reason, &format!("tier:{}", case.tier)]);
                Ok(())
            }
            Ok(r) => {
                let key = format!("{:?}", case.rendered.files);
                let mut labels: Vec<String> = r.labels.clone();
                labels.push(format!("tier:{}", case.tier));
                labels.push(if exclude_known(s) { "pass:behind(recorded root causes excluded)".to_string() } else { "pass:raw(whole domain)".to_string() });
                if r.entrypoints == 0 {
                    labels.push("no-usable-entrypoint".into());
                }
                let l: Vec<&str> = labels.iter().map(|s| s.as_str()).collect();
                report.case(if r.nontrivial && r.reads > 0 { Some(&key) } else { None }, &l);
                report.label_n("entrypoints-read", r.entrypoints as u64);
                report.label_n("responses-normalized-and-read", r.reads as u64);
                if r.reads > 0 {
                    SAMPLES.offer(case.tier, vcore::hash_of(&key), || json!({"tier": case.tier, "files": case.rendered.files}));
                }
                match r.failure {
                    Some((f, _)) => Err(f),
                    None => Ok(()),
                }
            }
        }
    });
    if let Some((s, fail)) = res {
        let case = case_of(&s, &ex);
        let input = match run_program(&case.rendered, &declared_entrypoints(&case.project), &s.rtape, responses, &report, exclude_known(&s)) {
            Ok(ProgramResult { failure: Some((_, input)), .. }) => input,
            _ => json!({"kind": "c10", "files": case.rendered.files}),
        };
        report.violation("programs", &fail, input);
    }
    report.unfreeze();
    SAMPLES.flush(&report);
    report.finish();
}
