//! Project level of C12, for whoever has compiled projects at hand (C10's owner): every
//! selection set of a merged selection map has distinct response keys for distinct
//! (field, arguments), every key is a legal name, and every key equals the runtime's key for the
//! normalization-AST node the compiler emits for that selection.
use crate::c12::{check_field, check_pair, Ctx};
use crate::model::{FieldSel, Val};
use intern::Lookup;
use isograph_lang_types::ArgumentKeyAndValue;
use isograph_schema::{MergedSelectionMap, MergedServerSelection};
use vcore::Fail;

/// Model of a merged selection's (name, arguments); `None` when an argument is a list (outside
/// the domain: the compiler panics on lists).
pub fn field_sel_of(name: &str, linked: bool, arguments: &[ArgumentKeyAndValue]) -> Option<FieldSel> {
    let mut args = vec![];
    for a in arguments {
        args.push((a.key.lookup().to_string(), Val::from_ncv(&a.value)?));
    }
    Some(FieldSel { name: name.to_string(), linked, args })
}

/// All failures in `map` and, recursively, in the selection sets below it. `path` labels messages.
/// Fields of an inline fragment share the response object of the enclosing selection set, so each
/// fragment is checked together with the enclosing level's fields.
pub fn check_merged_selection_map(ctx: &Ctx, map: &MergedSelectionMap, path: &str, indent: u8) -> Vec<Fail> {
    let mut fails = vec![];
    let mut level: Vec<FieldSel> = vec![];
    let mut fragments: Vec<(String, Vec<FieldSel>)> = vec![];
    collect(ctx, map, path, indent, &mut level, &mut fragments, &mut fails);
    let check_set = |set: &[&FieldSel], fails: &mut Vec<Fail>| {
        for (i, a) in set.iter().enumerate() {
            for b in &set[i + 1..] {
                for mut f in check_pair(ctx, a, b) {
                    f.message = format!("in selection set {path}\n{}", f.message);
                    fails.push(f);
                }
            }
        }
    };
    check_set(&level.iter().collect::<Vec<_>>(), &mut fails);
    for (_, frag) in &fragments {
        let both: Vec<&FieldSel> = level.iter().chain(frag.iter()).collect();
        check_set(&both, &mut fails);
    }
    fails
}

fn collect(ctx: &Ctx, map: &MergedSelectionMap, path: &str, indent: u8, level: &mut Vec<FieldSel>, fragments: &mut Vec<(String, Vec<FieldSel>)>, fails: &mut Vec<Fail>) {
    for sel in map.values() {
        match sel {
            MergedServerSelection::ScalarField(s) => {
                if let Some(f) = field_sel_of(s.name.lookup(), false, &s.arguments) {
                    for mut x in check_field(ctx, &f, indent) {
                        x.message = format!("in selection set {path}\n{}", x.message);
                        fails.push(x);
                    }
                    level.push(f);
                }
            }
            MergedServerSelection::LinkedField(l) => {
                if let Some(f) = field_sel_of(l.name.lookup(), true, &l.arguments) {
                    for mut x in check_field(ctx, &f, indent) {
                        x.message = format!("in selection set {path}\n{}", x.message);
                        fails.push(x);
                    }
                    let key = crate::keys::compiler_key(&f).unwrap_or_else(|_| f.name.clone());
                    level.push(f);
                    fails.extend(check_merged_selection_map(ctx, &l.selection_map, &format!("{path}.{key}"), indent.saturating_add(1)));
                }
            }
            // not part of the operation text
            MergedServerSelection::ClientObjectSelectable(_) => {}
            MergedServerSelection::InlineFragment(frag) => {
                let mut inner_level = vec![];
                let mut inner_frags = vec![];
                let p = format!("{path}[... on {}]", frag.type_to_refine_to);
                collect(ctx, &frag.selection_map, &p, indent.saturating_add(1), &mut inner_level, &mut inner_frags, fails);
                fragments.push((p, inner_level));
                fragments.extend(inner_frags);
            }
        }
    }
}

// ---------------------------------------------------------------------------------------------
// Black-box project level: the aliases in the cooked OPERATION TEXT against the runtime's key for
// the matching node of the emitted normalization AST.
use crate::node::{DriverError, NodeSession};
use refgql::{Selection, SelectionSet};
use serde_json::Value;

#[derive(Debug, Default, Clone)]
pub struct OperationKeyStats {
    pub fields: usize,
    pub fields_with_arguments: usize,
    pub selection_sets: usize,
    /// operation and normalization AST do not have the same shape (C11's business): not judged
    pub shape_mismatch: Option<String>,
}

fn args_differ_only_in_non_word_string_chars(a: &refgql::Value, b: &refgql::Value) -> bool {
    use refgql::Value as V;
    match (a, b) {
        (V::String(x), V::String(y)) => crate::keys::map_nonword(&x.value) == crate::keys::map_nonword(&y.value),
        (V::Object(x), V::Object(y)) => x.len() == y.len() && x.iter().zip(y).all(|((ka, va), (kb, vb))| ka == kb && args_differ_only_in_non_word_string_chars(va, vb)),
        (V::List(x), V::List(y)) => x.len() == y.len() && x.iter().zip(y).all(|(va, vb)| args_differ_only_in_non_word_string_chars(va, vb)),
        (x, y) => x == y,
    }
}

/// Every selection set of the operation: (1) two fields with the same response key select the
/// same field with the same arguments; (2) each field's response key (alias, or name) equals
/// `getNetworkResponseKey` of the normalization-AST node at the same position.
/// `escape_in_sources` = the program's iso literals contain a backslash (names the recorded root
/// cause `disagree:escape-sequence` when a key of a string argument differs).
pub fn check_operation_keys(
    session: &mut NodeSession,
    selection_set: &SelectionSet,
    normalization: &Value,
    path: &str,
    escape_in_sources: bool,
    stats: &mut OperationKeyStats,
    fails: &mut Vec<Fail>,
) -> Result<(), DriverError> {
    stats.selection_sets += 1;
    let nodes = normalization.as_array().cloned().unwrap_or_default();
    // an empty selection map is printed as `__typename` in the operation (query_text.rs) and as no
    // node at all in the normalization AST: nothing to compare at this level
    if nodes.is_empty() && matches!(selection_set.items.as_slice(), [Selection::Field(f)] if f.name == "__typename" && f.alias.is_none()) {
        return Ok(());
    }
    if nodes.len() != selection_set.items.len() {
        stats.shape_mismatch.get_or_insert(format!("{path}: {} selections in the operation, {} normalization nodes", selection_set.items.len(), nodes.len()));
        return Ok(());
    }
    // (1) distinctness in this selection set (fields of inline fragments share the response object)
    let mut level: Vec<&refgql::Field> = vec![];
    fn gather<'s>(set: &'s SelectionSet, out: &mut Vec<&'s refgql::Field>) {
        for i in &set.items {
            match i {
                Selection::Field(f) => out.push(f),
                Selection::InlineFragment(fr) => gather(&fr.selection_set, out),
                Selection::FragmentSpread(_) => {}
            }
        }
    }
    gather(selection_set, &mut level);
    for (i, a) in level.iter().enumerate() {
        for b in &level[i + 1..] {
            if a.response_key() == b.response_key() && (a.name != b.name || a.arguments != b.arguments) {
                let only_non_word = a.name == b.name
                    && a.arguments.len() == b.arguments.len()
                    && a.arguments.iter().zip(&b.arguments).all(|(x, y)| x.name == y.name && args_differ_only_in_non_word_string_chars(&x.value, &y.value));
                let sig = if only_non_word { crate::gen12::SIG_NONWORD } else { "collision:in-operation" };
                fails.push(Fail::new(
                    sig,
                    format!("in selection set {path}: two different selections share the response key {:?}\n  {}\n  {}", a.response_key(), refgql_field(a), refgql_field(b)),
                ));
            }
        }
    }
    // (2) agreement, node by node
    for (item, node) in selection_set.items.iter().zip(&nodes) {
        match (item, node["kind"].as_str()) {
            (Selection::Field(f), Some(kind @ ("Scalar" | "Linked"))) => {
                if node["fieldName"].as_str() != Some(f.name.as_str()) || (kind == "Linked") != f.selection_set.is_some() {
                    stats.shape_mismatch.get_or_insert(format!("{path}: operation field {} vs normalization node {}", f.name, node["fieldName"]));
                    return Ok(());
                }
                stats.fields += 1;
                if !f.arguments.is_empty() {
                    stats.fields_with_arguments += 1;
                }
                let mut case = serde_json::json!({"kind": "response_key", "fieldName": f.name, "linked": kind == "Linked"});
                case["arguments"] = node["arguments"].clone();
                let r = session.call(case)?;
                let key = f.response_key();
                match r["key"].as_str() {
                    Some(k) if k == key => {}
                    other => {
                        let has_string = node["arguments"].to_string().contains("\"String\"");
                        let sig = if escape_in_sources && has_string { crate::gen12::SIG_ESCAPE } else { "disagree:in-operation" };
                        fails.push(Fail::new(
                            sig,
                            format!(
                                "in selection set {path}: the operation names the field {:?} (alias or name) but the runtime computes {:?} for its normalization node\n  {}\n  node arguments: {}",
                                key,
                                other.map(|s| s.to_string()).unwrap_or_else(|| format!("<threw {}>", r["threw"])),
                                refgql_field(f),
                                node["arguments"]
                            ),
                        ));
                    }
                }
                if let Some(sub) = &f.selection_set {
                    check_operation_keys(session, sub, &node["selections"], &format!("{path}.{key}"), escape_in_sources, stats, fails)?;
                }
            }
            (Selection::InlineFragment(fr), Some("InlineFragment")) => {
                let p = format!("{path}[... on {}]", fr.type_condition.as_deref().unwrap_or("?"));
                check_operation_keys(session, &fr.selection_set, &node["selections"], &p, escape_in_sources, stats, fails)?;
            }
            _ => {
                stats.shape_mismatch.get_or_insert(format!("{path}: selection kind differs from normalization node kind {}", node["kind"]));
                return Ok(());
            }
        }
    }
    Ok(())
}

fn refgql_field(f: &refgql::Field) -> String {
    let args: Vec<String> = f.arguments.iter().map(|a| format!("{}: {}", a.name, refgql::print_value(&a.value))).collect();
    format!("{}{}{}", f.alias.as_ref().map(|a| format!("{a}: ")).unwrap_or_default(), f.name, if args.is_empty() { String::new() } else { format!("({})", args.join(", ")) })
}
