//! Project level of C12, for whoever has compiled projects at hand (C10's owner): every
//! selection set of a merged selection map has distinct response keys for distinct
//! (field, arguments), every key is a legal name, and every key equals the runtime's key for the
//! normalization-AST node the compiler emits for that selection.
use crate::c12::{check_field, check_pair, Ctx};
use crate::model::{FieldSel, Val};
use intern::Lookup;
use isograph_lang_types::ArgumentKeyAndValue;
use isograph_schema::{MergedSelectionMap, MergedServerSelection};
use vcore::Fail;

/// Model of a merged selection's (name, arguments); `None` when an argument is a list (outside
/// the domain: the compiler panics on lists).
pub fn field_sel_of(name: &str, linked: bool, arguments: &[ArgumentKeyAndValue]) -> Option<FieldSel> {
    let mut args = vec![];
    for a in arguments {
        args.push((a.key.lookup().to_string(), Val::from_ncv(&a.value)?));
    }
    Some(FieldSel { name: name.to_string(), linked, args })
}

/// All failures in `map` and, recursively, in the selection sets below it. `path` labels messages.
/// Fields of an inline fragment share the response object of the enclosing selection set, so each
/// fragment is checked together with the enclosing level's fields.
pub fn check_merged_selection_map(ctx: &Ctx, map: &MergedSelectionMap, path: &str, indent: u8) -> Vec<Fail> {
    let mut fails = vec![];
    let mut level: Vec<FieldSel> = vec![];
    let mut fragments: Vec<(String, Vec<FieldSel>)> = vec![];
    collect(ctx, map, path, indent, &mut level, &mut fragments, &mut fails);
    let check_set = |set: &[&FieldSel], fails: &mut Vec<Fail>| {
        for (i, a) in set.iter().enumerate() {
            for b in &set[i + 1..] {
                for mut f in check_pair(ctx, a, b) {
                    f.message = format!("in selection set {path}\n{}", f.message);
                    fails.push(f);
                }
            }
        }
    };
    check_set(&level.iter().collect::<Vec<_>>(), &mut fails);
    for (_, frag) in &fragments {
        let both: Vec<&FieldSel> = level.iter().chain(frag.iter()).collect();
        check_set(&both, &mut fails);
    }
    fails
}

fn collect(ctx: &Ctx, map: &MergedSelectionMap, path: &str, indent: u8, level: &mut Vec<FieldSel>, fragments: &mut Vec<(String, Vec<FieldSel>)>, fails: &mut Vec<Fail>) {
    for sel in map.values() {
        match sel {
            MergedServerSelection::ScalarField(s) => {
                if let Some(f) = field_sel_of(s.name.lookup(), false, &s.arguments) {
                    for mut x in check_field(ctx, &f, indent) {
                        x.message = format!("in selection set {path}\n{}", x.message);
                        fails.push(x);
                    }
                    level.push(f);
                }
            }
            MergedServerSelection::LinkedField(l) => {
                if let Some(f) = field_sel_of(l.name.lookup(), true, &l.arguments) {
                    for mut x in check_field(ctx, &f, indent) {
                        x.message = format!("in selection set {path}\n{}", x.message);
                        fails.push(x);
                    }
                    let key = crate::keys::compiler_key(&f).unwrap_or_else(|_| f.name.clone());
                    level.push(f);
                    fails.extend(check_merged_selection_map(ctx, &l.selection_map, &format!("{path}.{key}"), indent.saturating_add(1)));
                }
            }
            // not part of the operation text
            MergedServerSelection::ClientObjectSelectable(_) => {}
            MergedServerSelection::InlineFragment(frag) => {
                let mut inner_level = vec![];
                let mut inner_frags = vec![];
                let p = format!("{path}[... on {}]", frag.type_to_refine_to);
                collect(ctx, &frag.selection_map, &p, indent.saturating_add(1), &mut inner_level, &mut inner_frags, fails);
                fragments.push((p, inner_level));
                fragments.extend(inner_frags);
            }
        }
    }
}
