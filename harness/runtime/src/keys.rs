//! The compiler side of response keys (code under test, called through its public API) plus
//! root-cause diagnosis helpers. Reusable by the project-level check (every selection set of a
//! generated operation): `compiler_key_of_arguments`, `compiler_arguments_js`, `runtime_key`.
use crate::model::{is_graphql_name, FieldSel, Val};
use crate::node::{response_key_case, DriverError, NodeSession};
use isograph_lang_types::ArgumentKeyAndValue;
use isograph_schema::{MergedLinkedFieldSelection, MergedScalarFieldSelection};

/// The key the compiler writes into the operation for this selection: `normalization_alias()`,
/// or the bare field name when there is none. `Err` = the compiler panicked.
pub fn compiler_key(f: &FieldSel) -> Result<String, String> {
    vcore::catch_panic(|| {
        let alias = if f.linked { f.linked_selection().normalization_alias() } else { f.scalar_selection().normalization_alias() };
        alias.unwrap_or_else(|| f.name.clone())
    })
}

pub fn scalar_key(s: &MergedScalarFieldSelection) -> String {
    s.normalization_alias().unwrap_or_else(|| s.name.to_string())
}

pub fn linked_key(s: &MergedLinkedFieldSelection) -> String {
    s.normalization_alias().unwrap_or_else(|| s.name.to_string())
}

/// The exact JS text the compiler emits for an argument list in normalization and reader ASTs.
pub fn compiler_arguments_js(arguments: &[ArgumentKeyAndValue], indentation_level: u8) -> Result<String, String> {
    vcore::catch_panic(|| artifact_content::verif::get_serialized_field_arguments(arguments, indentation_level))
}

pub fn is_legal_response_key(key: &str) -> bool {
    is_graphql_name(key)
}

/// The key the real runtime computes for a normalization-AST node with this field name and the
/// given emitted argument text. `Ok(Err(msg))` = the runtime function threw.
pub fn runtime_key(session: &mut NodeSession, field_name: &str, arguments_js: &str, linked: bool) -> Result<Result<String, String>, DriverError> {
    let r = session.call(response_key_case(field_name, arguments_js, linked, None))?;
    if let Some(k) = r["key"].as_str() {
        Ok(Ok(k.to_string()))
    } else {
        Ok(Err(r["threw"].as_str().unwrap_or("no key in answer").to_string()))
    }
}

// ---- diagnosis (never an oracle: only names the root cause of an established failure) ---------

pub fn map_nonword(s: &str) -> String {
    s.chars().map(|c| if c.is_ascii_alphanumeric() || c == '_' { c } else { '_' }).collect()
}

/// A model of the alias scheme; with `ambiguous = false` the separators are control characters
/// that cannot occur in names, so two different selections that still get the same model key
/// collide for another reason than separator ambiguity.
pub fn model_key(f: &FieldSel, ambiguous: bool) -> String {
    fn chunk(v: &Val, amb: bool) -> String {
        match v {
            Val::Var(n) => format!("v_{n}"),
            Val::Int(i) => format!("l_{i}"),
            Val::Bool(b) => format!("l_{b}"),
            Val::Str(s) => format!("s_{}", map_nonword(s)),
            Val::Float(x) => format!("l_{x}"),
            Val::Null => "l_null".to_string(),
            Val::Enum(e) => format!("e_{e}"),
            Val::Obj(entries) => {
                let (open, s3, s4, close) = if amb { ("o_", "__", "_", "_c") } else { ("\u{5}", "\u{3}", "\u{4}", "\u{6}") };
                format!("{open}{}{close}", entries.iter().map(|(k, v)| format!("{k}{s3}{}", chunk(v, amb))).collect::<Vec<_>>().join(s4))
            }
        }
    }
    let (s1, s2) = if ambiguous { ("____", "___") } else { ("\u{1}", "\u{2}") };
    let mut s = f.name.clone();
    for (k, v) in &f.args {
        s.push_str(s1);
        s.push_str(k);
        s.push_str(s2);
        s.push_str(&chunk(v, ambiguous));
    }
    s
}

/// Injectively rewrite the characters of `class` in a text as `Q<hex>Q` (a literal `Q` becomes
/// `QQ`), so that the result contains none of them and stays a legal name.
fn escape_class(text: &str, class: &dyn Fn(char) -> bool) -> String {
    let mut out = String::new();
    for c in text.chars() {
        if c == 'Q' {
            out.push_str("QQ");
        } else if class(c) {
            out.push_str(&format!("Q{:x}Q", c as u32));
        } else {
            out.push(c);
        }
    }
    out
}

fn rewrite_texts(f: &FieldSel, names: &dyn Fn(&str) -> String, strings: &dyn Fn(&str) -> String) -> FieldSel {
    fn val(v: &Val, names: &dyn Fn(&str) -> String, strings: &dyn Fn(&str) -> String) -> Val {
        match v {
            Val::Var(n) => Val::Var(names(n)),
            Val::Enum(n) => Val::Enum(names(n)),
            Val::Str(s) => Val::Str(strings(s)),
            Val::Obj(e) => Val::Obj(e.iter().map(|(k, v)| (names(k), val(v, names, strings))).collect()),
            other => other.clone(),
        }
    }
    FieldSel { name: names(&f.name), linked: f.linked, args: f.args.iter().map(|(k, v)| (names(k), val(v, names, strings))).collect() }
}

/// Root cause of a collision between two different selections with equal keys, decided with the
/// compiler itself: the texts of both selections are rewritten injectively so that they no longer
/// contain (1) non-word characters in strings, (2) underscores anywhere, (3) either; the first
/// rewriting under which the compiler gives the two selections different keys names the cause.
/// A collision that survives all three is not one of the recorded root causes.
pub fn collision_signature(a: &FieldSel, b: &FieldSel) -> &'static str {
    let nonword = |c: char| !(c.is_ascii_alphanumeric() || c == '_');
    let underscore = |c: char| c == '_';
    let either = |c: char| c == '_' || !c.is_ascii_alphanumeric();
    let id = |s: &str| s.to_string();
    let resolved = |names: &dyn Fn(&str) -> String, strings: &dyn Fn(&str) -> String| {
        let (a2, b2) = (rewrite_texts(a, names, strings), rewrite_texts(b, names, strings));
        matches!((compiler_key(&a2), compiler_key(&b2)), (Ok(x), Ok(y)) if x != y)
    };
    if resolved(&id, &|s| escape_class(s, &nonword)) {
        return "collision:non-word-char-in-string";
    }
    if resolved(&|s| escape_class(s, &underscore), &|s| escape_class(s, &underscore)) {
        return "collision:separator-in-text";
    }
    if resolved(&|s| escape_class(s, &underscore), &|s| escape_class(s, &either)) {
        return "collision:non-word-char-in-string";
    }
    "collision:other"
}

pub const TWO_POW_53: i64 = 9_007_199_254_740_992;

pub fn has_astral(s: &str) -> bool {
    s.chars().any(|c| (c as u32) > 0xFFFF)
}

/// Split a raw string-literal source into pieces: escape sequences (`\x`, `\uXXXX`) and chars.
pub fn string_pieces(s: &str) -> Vec<String> {
    let cs: Vec<char> = s.chars().collect();
    let mut out = vec![];
    let mut i = 0;
    while i < cs.len() {
        if cs[i] == '\\' && i + 1 < cs.len() {
            if cs[i + 1] == 'u' && i + 5 < cs.len() && cs[i + 2..i + 6].iter().all(|c| c.is_ascii_hexdigit()) {
                out.push(cs[i..i + 6].iter().collect());
                i += 6;
                continue;
            }
            out.push(cs[i..i + 2].iter().collect());
            i += 2;
            continue;
        }
        out.push(cs[i].to_string());
        i += 1;
    }
    out
}

pub fn has_escape(s: &str) -> bool {
    s.contains('\\')
}

pub fn without_escapes(s: &str) -> String {
    string_pieces(s).into_iter().map(|p| if p.starts_with('\\') { "E".to_string() } else { p }).collect()
}

pub fn without_astral(s: &str) -> String {
    s.chars().map(|c| if (c as u32) > 0xFFFF { 'A' } else { c }).collect()
}
