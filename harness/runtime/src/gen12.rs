//! Generators for C12: field selections with argument lists, and related pairs.
//!
//! Domain (what real callers can put into `ArgumentKeyAndValue`):
//! * names (field, argument, object key, variable, enum value): GraphQL names that do not start
//!   with `__`, drawn from pieces rich in the alias scheme's own separators and prefixes;
//! * string values: the SOURCE text of a string literal as the iso lexer accepts it — characters
//!   from `[\t\x20!\x23-\x5B\x5D-￿]` and the escape sequences `\" \\ \/ \b \f \n \r \t \uXXXX`,
//!   kept raw — plus (labelled `astral`) characters above U+FFFF, which the property names
//!   explicitly although the lexer rejects them today;
//! * integers over the whole i64 range (what the lexer's `parse::<i64>` can yield), floats and
//!   enum values (reachable through schema default values of exposed fields), booleans, null,
//!   variables, nested objects with distinct keys. Lists are outside the domain (the compiler
//!   panics "Lists are not supported here" — C08's business).
use crate::keys::{has_astral, has_escape, string_pieces, TWO_POW_53};
use crate::model::{FieldSel, Val};
use proptest::prelude::*;

/// Which known root causes are excluded by construction (so the search continues behind them).
#[derive(Clone, Copy, Debug, Default)]
pub struct Exclusions {
    pub negative_int: bool,
    pub float_illegal: bool,
    pub number_format: bool,
    pub astral: bool,
    pub escape: bool,
    pub nonword_collision: bool,
    pub separator_collision: bool,
}

pub const SIG_NEG_INT: &str = "illegal-name:negative-int";
pub const SIG_FLOAT: &str = "illegal-name:float";
pub const SIG_NUMBER_FORMAT: &str = "disagree:number-format";
pub const SIG_ASTRAL: &str = "disagree:astral-char";
pub const SIG_ESCAPE: &str = "disagree:escape-sequence";
pub const SIG_NONWORD: &str = "collision:non-word-char-in-string";
pub const SIG_SEPARATOR: &str = "collision:separator-in-text";

const NAME_PIECES: &[&str] = &[
    "a", "b", "f", "x", "id", "s", "l", "v", "e", "o", "c", "n", "A", "Z", "_", "__", "___", "____", "1", "0", "5", "s_", "l_", "v_",
    "e_", "o_", "_c", "null", "true", "first", "after",
];

fn fix_name(mut s: String) -> String {
    while s.starts_with("__") {
        s.remove(0);
    }
    if s.is_empty() || s.chars().next().unwrap().is_ascii_digit() {
        s.insert(0, 'n');
    }
    s
}

pub fn name() -> BoxedStrategy<String> {
    prop::collection::vec(prop::sample::select(NAME_PIECES), 1..=4).prop_map(|v| fix_name(v.concat())).boxed()
}

pub fn enum_name() -> BoxedStrategy<String> {
    name().prop_map(|n| if n == "true" || n == "false" || n == "null" { format!("{n}X") } else { n }).boxed()
}

const WORD_PIECES: &[&str] = &["a", "b", "A", "z", "0", "9", "_", "__", "___", "____", "l_1", "s_x", "v_x", "e_X", "o_", "_c", "a_b"];
const NONWORD_PIECES: &[&str] = &[
    " ", "-", ".", "!", "é", "ß", "漢", "\u{2028}", "\t", "'", "`", "$", "{", "}", "/", "\u{FFFF}", "a b", "a-b", ":", ",", "(", ")", "#", "\u{0301}",
    "\u{00A0}", "@", "[", "]", "~", "\u{FEFF}",
];
const ESCAPE_PIECES: &[&str] = &["\\\"", "\\\\", "\\/", "\\n", "\\t", "\\b", "\\f", "\\r", "\\u00e9", "\\u0041", "\\uD83D\\uDE00", "\\uD83D", "\\u0020", "\\u005F"];
const ASTRAL_PIECES: &[&str] = &["😀", "\u{1D4B3}", "\u{10FFFF}", "\u{10000}", "a😀b"];

pub fn string_value() -> BoxedStrategy<String> {
    let piece = prop_oneof![
        6 => prop::sample::select(WORD_PIECES).prop_map(str::to_string),
        6 => prop::sample::select(NONWORD_PIECES).prop_map(str::to_string),
        2 => prop::sample::select(ESCAPE_PIECES).prop_map(str::to_string),
        2 => prop::sample::select(ASTRAL_PIECES).prop_map(str::to_string),
        // any other BMP character the lexer accepts
        1 => any::<u16>().prop_map(|u| {
            let c = char::from_u32(u as u32).unwrap_or('x');
            let ok = c == '\t' || c == ' ' || c == '!' || ('\u{23}'..='\u{5B}').contains(&c) || c >= '\u{5D}';
            if ok { c.to_string() } else { "x".to_string() }
        }),
    ];
    prop::collection::vec(piece, 0..=5).prop_map(|v| v.concat()).boxed()
}

const INTS: &[i64] = &[
    0, 1, -1, 5, -5, 42, -42, 10, 100, i64::MAX, i64::MIN, TWO_POW_53, TWO_POW_53 + 1, -(TWO_POW_53 + 1), TWO_POW_53 - 1, 1_000_000_000_000_000,
    123_456_789_012_345_678, -123_456_789_012_345_678, 9_007_199_254_740_993,
];
const FLOATS: &[f64] = &[
    0.5, -0.5, 1.0, 2.0, -2.0, 1.5, 1e21, 1e22, 1e-7, 123456.789, 5e-324, 1.7976931348623157e308, -0.0, 0.0, 100.0, 9007199254740992.0, 1e15, 0.1,
    3.14, 5.0, 42.0, 1e20, 0.000001,
];

fn leaf() -> BoxedStrategy<Val> {
    prop_oneof![
        3 => name().prop_map(Val::Var),
        2 => prop::sample::select(INTS).prop_map(Val::Int),
        2 => (-1000i64..1000).prop_map(Val::Int),
        1 => any::<i64>().prop_map(Val::Int),
        1 => any::<bool>().prop_map(Val::Bool),
        1 => Just(Val::Null),
        6 => string_value().prop_map(Val::Str),
        1 => prop::sample::select(FLOATS).prop_map(Val::Float),
        1 => any::<u64>().prop_map(|b| { let f = f64::from_bits(b); Val::Float(if f.is_finite() { f } else { 1.25 }) }),
        1 => (-50i64..50).prop_map(|i| Val::Float(i as f64)),
        2 => enum_name().prop_map(Val::Enum),
    ]
    .boxed()
}

fn distinct_keys(mut entries: Vec<(String, Val)>) -> Vec<(String, Val)> {
    let mut seen: Vec<String> = vec![];
    for (k, _) in entries.iter_mut() {
        while seen.contains(k) {
            k.push('x');
        }
        seen.push(k.clone());
    }
    entries
}

pub fn value() -> BoxedStrategy<Val> {
    leaf()
        .prop_recursive(2, 8, 3, |inner| prop::collection::vec((name(), inner), 0..=3).prop_map(|e| Val::Obj(distinct_keys(e))))
        .boxed()
}

pub fn field() -> BoxedStrategy<FieldSel> {
    (name(), any::<bool>(), prop::collection::vec((name(), value()), 0..=3))
        .prop_map(|(name, linked, args)| FieldSel { name, linked, args: distinct_keys(args) })
        .boxed()
}

/// Rewrite the features of excluded (known) root causes; returns the signatures whose exclusion
/// changed something (for the evidence counters).
pub fn sanitize(f: &FieldSel, ex: &Exclusions) -> (FieldSel, Vec<&'static str>) {
    let mut hit: Vec<&'static str> = vec![];
    let note = |s: &'static str, hit: &mut Vec<&'static str>| {
        if !hit.contains(&s) {
            hit.push(s)
        }
    };
    let out = f.map_leaves(&mut |v| match v {
        Val::Int(i) => {
            let mut n = *i;
            if ex.negative_int && n < 0 {
                n = n.checked_abs().unwrap_or(i64::MAX);
                note(SIG_NEG_INT, &mut hit);
            }
            if ex.number_format && (n > TWO_POW_53 || n < -TWO_POW_53) {
                n %= TWO_POW_53;
                note(SIG_NUMBER_FORMAT, &mut hit);
            }
            Val::Int(n)
        }
        Val::Float(x) => {
            let mut y = *x;
            if ex.float_illegal && (y.fract() != 0.0 || y.is_sign_negative()) {
                y = y.abs().trunc();
                note(SIG_FLOAT, &mut hit);
            }
            // JS Number->string switches to exponent notation at 1e21 and below 1e-6 and prints -0 as 0
            if ex.number_format && (y.abs() >= 1e21 || (y != 0.0 && y.abs() < 1e-6) || (y == 0.0 && y.is_sign_negative())) {
                y = if y.abs() >= 1e21 { 1e20f64.copysign(y) } else if y == 0.0 { 0.0 } else { 0.5f64.copysign(y) };
                note(SIG_NUMBER_FORMAT, &mut hit);
            }
            Val::Float(y)
        }
        Val::Str(s) => {
            let mut t = s.clone();
            if ex.escape && has_escape(&t) {
                t = string_pieces(&t).into_iter().map(|p| if p.starts_with('\\') { "_".to_string() } else { p }).collect();
                note(SIG_ESCAPE, &mut hit);
            }
            if ex.astral && has_astral(&t) {
                t = t.chars().map(|c| if (c as u32) > 0xFFFF { '\u{FFFD}' } else { c }).collect();
                note(SIG_ASTRAL, &mut hit);
            }
            Val::Str(t)
        }
        other => other.clone(),
    });
    (out, hit)
}

// ---- pairs -------------------------------------------------------------------------------------

#[derive(Clone, Debug)]
pub enum Mutation {
    Independent(FieldSel),
    Identical,
    /// change one character of one string leaf (leaf index, char index, replacement)
    StringChar(u16, u16, char),
    /// confuse the kind of one leaf (leaf index, variant)
    KindConfusion(u16, u8),
    /// numeric neighbour of one leaf (leaf index, variant)
    Numeric(u16, u8),
    /// move text across the alias scheme's separators (variant)
    Separator(u8),
    /// argument list structure: drop / swap / rename (variant, index)
    Structure(u8, u16),
    /// toggle linked/scalar (same field name and arguments)
    ToggleLinked,
}

const REPLACEMENT_WORD: &[char] = &['a', 'b', 'z', '0', '9', 'A'];
const REPLACEMENT_NONWORD: &[char] = &['_', ' ', '-', '.', 'é', '漢', '!', '/'];

pub fn mutation() -> BoxedStrategy<Mutation> {
    prop_oneof![
        2 => field().prop_map(Mutation::Independent),
        1 => Just(Mutation::Identical),
        3 => (any::<u16>(), any::<u16>(), prop::sample::select(REPLACEMENT_WORD)).prop_map(|(l, c, r)| Mutation::StringChar(l, c, r)),
        4 => (any::<u16>(), any::<u16>(), prop::sample::select(REPLACEMENT_NONWORD)).prop_map(|(l, c, r)| Mutation::StringChar(l, c, r)),
        3 => (any::<u16>(), 0..6u8).prop_map(|(l, v)| Mutation::KindConfusion(l, v)),
        2 => (any::<u16>(), 0..4u8).prop_map(|(l, v)| Mutation::Numeric(l, v)),
        3 => (0..4u8).prop_map(Mutation::Separator),
        2 => (0..3u8, any::<u16>()).prop_map(|(v, i)| Mutation::Structure(v, i)),
        1 => Just(Mutation::ToggleLinked),
    ]
    .boxed()
}

pub fn pair() -> BoxedStrategy<(FieldSel, Mutation)> {
    (field(), mutation()).boxed()
}

fn set_leaf(f: &FieldSel, index: usize, new: Val) -> FieldSel {
    let mut i = 0;
    f.map_leaves(&mut |v| {
        let r = if i == index { new.clone() } else { v.clone() };
        i += 1;
        r
    })
}

fn is_word(c: char) -> bool {
    c.is_ascii_alphanumeric() || c == '_'
}

/// Build the second selection of a pair. `None` = the mutation does not apply to this field.
/// `Err(sig)` = the mutation belongs to an excluded root cause (counted by the caller).
pub fn apply_mutation(a: &FieldSel, m: &Mutation, ex: &Exclusions, compiler_key_of_a: Option<&str>) -> Result<Option<FieldSel>, &'static str> {
    let leaves: Vec<Val> = a.leaves().into_iter().map(|(_, v)| v.clone()).collect();
    Ok(match m {
        Mutation::Independent(b) => Some(b.clone()),
        Mutation::Identical => Some(a.clone()),
        Mutation::ToggleLinked => Some(FieldSel { linked: !a.linked, ..a.clone() }),
        Mutation::StringChar(l, c, r) => {
            let strs: Vec<usize> = leaves.iter().enumerate().filter(|(_, v)| matches!(v, Val::Str(s) if !s.is_empty())).map(|(i, _)| i).collect();
            if strs.is_empty() {
                return Ok(None);
            }
            let li = strs[vcore::pick_index(*l, strs.len())];
            let Val::Str(s) = &leaves[li] else { unreachable!() };
            // operate on pieces so that escape sequences stay well-formed
            let mut pieces = string_pieces(s);
            let pi = vcore::pick_index(*c, pieces.len());
            let old = pieces[pi].clone();
            let old_is_word = old.chars().count() == 1 && is_word(old.chars().next().unwrap());
            if !old_is_word && !is_word(*r) || (!old_is_word && *r == '_') || (old == "_" && !is_word(*r)) {
                // both sides are mapped to `_`: this IS the recorded collision class
                if ex.nonword_collision {
                    return Err(SIG_NONWORD);
                }
            }
            pieces[pi] = r.to_string();
            let t: String = pieces.concat();
            if &t == s {
                return Ok(None);
            }
            Some(set_leaf(a, li, Val::Str(t)))
        }
        Mutation::KindConfusion(l, variant) => {
            if leaves.is_empty() {
                return Ok(None);
            }
            let li = vcore::pick_index(*l, leaves.len());
            let new = match (&leaves[li], variant) {
                (Val::Int(i), 0) => Val::Str(i.to_string()),
                (Val::Int(i), 1) => Val::Float(*i as f64),
                (Val::Int(i), 2) if *i >= 0 => Val::Enum(format!("n{i}")),
                (Val::Bool(b), _) => Val::Str(b.to_string()),
                (Val::Null, 0) => Val::Str("null".to_string()),
                (Val::Null, _) => Val::Var("null".to_string()),
                (Val::Var(n), 0) => Val::Enum(n.clone()),
                (Val::Var(n), _) => Val::Str(n.clone()),
                (Val::Enum(n), 0) => Val::Var(n.clone()),
                (Val::Enum(n), _) => Val::Str(n.clone()),
                (Val::Str(s), 0) if crate::model::is_graphql_name(s) && !s.starts_with("__") => Val::Enum(s.clone()),
                (Val::Str(s), 1) if crate::model::is_graphql_name(s) => Val::Var(s.clone()),
                (Val::Str(s), 2) => match s.parse::<i64>() {
                    Ok(i) => Val::Int(i),
                    Err(_) => return Ok(None),
                },
                (Val::Float(x), _) => Val::Str(x.to_string()),
                _ => return Ok(None),
            };
            Some(set_leaf(a, li, new))
        }
        Mutation::Numeric(l, variant) => {
            let nums: Vec<usize> = leaves.iter().enumerate().filter(|(_, v)| matches!(v, Val::Int(_) | Val::Float(_))).map(|(i, _)| i).collect();
            if nums.is_empty() {
                return Ok(None);
            }
            let li = nums[vcore::pick_index(*l, nums.len())];
            let new = match (&leaves[li], variant) {
                (Val::Int(i), 0) => Val::Int(i.wrapping_add(1)),
                (Val::Int(i), 1) => Val::Int(i.wrapping_neg()),
                (Val::Int(i), 2) => Val::Int(i.wrapping_mul(10)),
                (Val::Int(i), _) => Val::Int(i / 10),
                (Val::Float(x), 0) => Val::Float(x + 1.0),
                (Val::Float(x), 1) => Val::Float(-x),
                (Val::Float(x), 2) => Val::Float(x * 10.0),
                (Val::Float(x), _) => Val::Float(f64::from_bits(x.to_bits() ^ 1)),
                _ => return Ok(None),
            };
            if let Val::Float(x) = new {
                if !x.is_finite() {
                    return Ok(None);
                }
            }
            Some(set_leaf(a, li, new))
        }
        Mutation::Separator(variant) => {
            if ex.separator_collision {
                return Err(SIG_SEPARATOR);
            }
            match variant {
                // the whole key of `a` as the name of a field without arguments
                0 => match compiler_key_of_a {
                    Some(k) if !a.args.is_empty() && crate::model::is_graphql_name(k) => Some(FieldSel { name: k.to_string(), linked: a.linked, args: vec![] }),
                    _ => None,
                },
                // fold the last argument into the text of the previous one
                1 => {
                    if a.args.len() < 2 {
                        return Ok(None);
                    }
                    let n = a.args.len();
                    let (last_k, last_v) = &a.args[n - 1];
                    let one = FieldSel { name: "f".into(), linked: false, args: vec![(last_k.clone(), last_v.clone())] };
                    let tail = crate::keys::model_key(&one, true)[1..].to_string(); // "____k___chunk"
                    if tail.chars().any(|c| !is_word(c)) {
                        return Ok(None);
                    }
                    let prev = match &a.args[n - 2].1 {
                        Val::Str(s) if s.chars().all(is_word) => Val::Str(format!("{s}{tail}")),
                        Val::Enum(e) => Val::Enum(format!("{e}{tail}")),
                        Val::Var(v) => Val::Var(format!("{v}{tail}")),
                        _ => return Ok(None),
                    };
                    let mut args = a.args[..n - 1].to_vec();
                    args[n - 2].1 = prev;
                    Some(FieldSel { name: a.name.clone(), linked: a.linked, args })
                }
                // move the boundary between the field name and the first argument name
                2 => {
                    if a.args.is_empty() {
                        return Ok(None);
                    }
                    let mut b = a.clone();
                    if b.args[0].0.starts_with('_') && b.args[0].0.len() > 1 {
                        b.name.push('_');
                        b.args[0].0.remove(0);
                        if b.args[0].0.chars().next().unwrap().is_ascii_digit() {
                            return Ok(None);
                        }
                    } else if b.name.ends_with('_') && b.name.len() > 1 {
                        b.name.pop();
                        b.args[0].0.insert(0, '_');
                        if b.args[0].0.starts_with("__") {
                            return Ok(None);
                        }
                    } else {
                        return Ok(None);
                    }
                    Some(b)
                }
                // fold the last entry of an object argument into the previous entry's text
                _ => {
                    let Some(pos) = a.args.iter().position(|(_, v)| matches!(v, Val::Obj(e) if e.len() >= 2)) else { return Ok(None) };
                    let Val::Obj(entries) = &a.args[pos].1 else { unreachable!() };
                    let n = entries.len();
                    let wrapper = FieldSel { name: "f".into(), linked: false, args: vec![("o".into(), Val::Obj(vec![entries[n - 1].clone()]))] };
                    let k = crate::keys::model_key(&wrapper, true); // f____o___o_<k>__<chunk>_c
                    let inner = &k["f____o___o_".len()..k.len() - 2];
                    if inner.chars().any(|c| !is_word(c)) {
                        return Ok(None);
                    }
                    let prev = match &entries[n - 2].1 {
                        Val::Str(s) if s.chars().all(is_word) => Val::Str(format!("{s}_{inner}")),
                        Val::Enum(e) => Val::Enum(format!("{e}_{inner}")),
                        Val::Var(v) => Val::Var(format!("{v}_{inner}")),
                        _ => return Ok(None),
                    };
                    let mut e2 = entries[..n - 1].to_vec();
                    e2[n - 2].1 = prev;
                    let mut b = a.clone();
                    b.args[pos].1 = Val::Obj(e2);
                    Some(b)
                }
            }
        }
        Mutation::Structure(variant, i) => {
            if a.args.is_empty() {
                return Ok(None);
            }
            let idx = vcore::pick_index(*i, a.args.len());
            let mut b = a.clone();
            match variant {
                0 => {
                    b.args.remove(idx);
                }
                1 => {
                    if a.args.len() < 2 {
                        return Ok(None);
                    }
                    let j = (idx + 1) % a.args.len();
                    b.args.swap(idx, j);
                }
                _ => {
                    let mut k = b.args[idx].0.clone();
                    k.push('x');
                    if b.args.iter().any(|(o, _)| *o == k) {
                        return Ok(None);
                    }
                    b.args[idx].0 = k;
                }
            }
            Some(b)
        }
    })
}

/// Does the selection contain a feature that makes a case non-trivial by C12's rule?
pub fn nontrivial_features(f: &FieldSel) -> Vec<&'static str> {
    let mut out = vec![];
    for (_, v) in f.leaves() {
        match v {
            Val::Str(s) if s.chars().any(|c| !is_word(c)) => out.push("string-with-non-word-char"),
            Val::Int(i) if *i < 0 => out.push("negative-number"),
            Val::Float(x) if x.is_sign_negative() => out.push("negative-number"),
            _ => {}
        }
    }
    if f.args.iter().any(|(_, v)| matches!(v, Val::Obj(_))) {
        out.push("object-argument");
    }
    out.sort();
    out.dedup();
    out
}
