//! `node-runtime` oracle infrastructure and the reusable pieces of C12 / C10.
//!
//! * [`node`]  — drive the repository's real TypeScript runtime under node 22
//!   (`NodeSession::start/call/batch`, case builders, `read_outcome`, `first_failed_read`).
//! * [`model`] — plain-data field selections with arguments <-> the compiler's types <-> JSON.
//! * [`keys`]  — the compiler's response key / emitted argument text, the runtime's key.
//! * [`gen12`], [`c12`], [`parser_guard`] — the unit level of C12.
//! * [`project`] — the project level of C12 over a compiler `MergedSelectionMap`.
pub mod artifacts;
pub mod c10;
pub mod c12;
pub mod gen12;
pub mod keys;
pub mod model;
pub mod node;
pub mod parser_guard;
pub mod project;
pub mod respgen;
