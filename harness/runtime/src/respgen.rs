//! Conforming responses for a generated operation ("every response the server could return").
//!
//! The response is what a spec-conforming server would send for the operation against a lazily
//! materialised, CONSISTENT world: an entity is identified by (concrete type, id); the value of a
//! field of an entity is decided once per (field name, argument VALUES with variables
//! substituted) and reused wherever the operation reaches that entity again — a real server never
//! answers the same field of the same object with two different values inside one response.
//! Within that: any value per leaf type, null wherever the type is nullable, list lengths 0..=3
//! with null items where allowed, any possible concrete type at an abstract position
//! (`__typename` set, only the matching inline fragments executed), ids from a small pool per type
//! so that the same entity is reached along several paths, response keys = the operation's
//! aliases (CollectFields groups by response key). Variables: a value per declared type.
//!
//! Everything random comes from a choice tape (`gen_project::tape::Tape`) that proptest generates.
use gen_project::tape::Tape;
use refgql::schema::TypeKind;
use refgql::{Field, OperationDefinition, Schema, Selection, SelectionSet, Type, Value as GVal};
use serde_json::{json, Map, Value};
use std::collections::BTreeMap;

#[derive(Clone, Debug, Default)]
pub struct RespStats {
    pub objects: usize,
    pub abstract_positions: usize,
    pub nulls: usize,
    pub lists: usize,
    pub empty_lists: usize,
    pub entity_revisits: usize,
    pub variables: usize,
    /// object-typed fields whose type is a list of lists
    pub nested_object_lists: usize,
}

#[derive(Clone, Debug)]
enum WVal {
    Leaf(Value),
    Null,
    /// entity key
    Obj(usize),
    List(Vec<WVal>),
}

struct Entity {
    type_name: String,
    id: Option<String>,
    fields: BTreeMap<String, WVal>,
}

pub struct World<'a> {
    schema: &'a Schema,
    tape: Tape,
    variables: Map<String, Value>,
    entities: Vec<Entity>,
    by_identity: BTreeMap<(String, String), usize>,
    counter: u64,
    root: Option<usize>,
    /// every object gets a fresh id (no entity is reached along two paths)
    pub unique_ids: bool,
    pub stats: RespStats,
}

fn unwrap_non_null(t: &Type) -> (&Type, bool) {
    match t {
        Type::NonNull(inner) => (inner, true),
        other => (other, false),
    }
}

impl<'a> World<'a> {
    pub fn new(schema: &'a Schema, tape: Vec<u16>) -> World<'a> {
        World { schema, tape: Tape::new(tape), variables: Map::new(), entities: vec![], by_identity: BTreeMap::new(), counter: 0, root: None, unique_ids: false, stats: RespStats::default() }
    }

    // ---- variables ---------------------------------------------------------------------------
    fn input_value(&mut self, ty: &Type, depth: usize) -> Value {
        let (inner, non_null) = unwrap_non_null(ty);
        if !non_null && self.tape.chance(1, 5) {
            return Value::Null;
        }
        match inner {
            Type::List(item) => {
                let n = self.tape.range(0, 2);
                Value::Array((0..n).map(|_| self.input_value(item, depth + 1)).collect())
            }
            Type::Named(name) => match self.schema.get_type(name) {
                Some(t) if t.kind == TypeKind::Enum => json!(t.enum_values[self.tape.choose(t.enum_values.len())]),
                Some(t) if t.kind == TypeKind::InputObject => {
                    let mut m = Map::new();
                    for f in &t.input_fields {
                        let required = f.ty.is_non_null() && f.default_value.is_none();
                        if required || (depth < 3 && self.tape.chance(1, 2)) {
                            if depth >= 3 && !f.ty.is_non_null() {
                                m.insert(f.name.clone(), Value::Null);
                            } else {
                                m.insert(f.name.clone(), self.input_value(&f.ty, depth + 1));
                            }
                        }
                    }
                    Value::Object(m)
                }
                _ => self.leaf(name),
            },
            Type::NonNull(_) => unreachable!(),
        }
    }

    fn leaf(&mut self, type_name: &str) -> Value {
        match type_name {
            "Int" => json!([0, 1, 2, 7, -3, 100][self.tape.choose(6)]),
            "Float" => json!([0.5, 1.0, 2.25, -1.5][self.tape.choose(4)]),
            "Boolean" => json!(self.tape.chance(1, 2)),
            "ID" => json!(format!("{}", self.tape.choose(3))),
            "String" => json!(["", "a", "a b", "é", "x_y"][self.tape.choose(5)]),
            other => match self.schema.get_type(other) {
                Some(t) if t.kind == TypeKind::Enum && !t.enum_values.is_empty() => json!(t.enum_values[self.tape.choose(t.enum_values.len())]),
                // custom scalar
                _ => json!(format!("{other}:{}", self.tape.choose(3))),
            },
        }
    }

    pub fn gen_variables(&mut self, op: &OperationDefinition) {
        for v in &op.variable_definitions {
            // a variable with a default may be left out by the caller
            if v.default_value.is_some() && self.tape.chance(1, 3) {
                continue;
            }
            if !v.ty.is_non_null() && v.default_value.is_none() && self.tape.chance(1, 6) {
                continue;
            }
            let val = self.input_value(&v.ty, 0);
            self.variables.insert(v.name.clone(), val);
            self.stats.variables += 1;
        }
    }

    pub fn variables(&self) -> Value {
        Value::Object(self.variables.clone())
    }

    // ---- field identity ------------------------------------------------------------------------
    /// Canonical text of an argument value with variables substituted. Deliberately coarse (a
    /// string and a number with the same text are the same): a coarser identity only makes the
    /// world more consistent, never less.
    fn canon(&self, v: &GVal) -> String {
        fn canon_json(v: &Value) -> String {
            match v {
                Value::Null => "null".into(),
                Value::String(s) => s.clone(),
                Value::Object(m) => {
                    let mut keys: Vec<&String> = m.keys().collect();
                    keys.sort();
                    format!("{{{}}}", keys.iter().map(|k| format!("{k}:{}", canon_json(&m[*k]))).collect::<Vec<_>>().join(","))
                }
                Value::Array(a) => format!("[{}]", a.iter().map(canon_json).collect::<Vec<_>>().join(",")),
                Value::Number(n) => n.as_f64().map(|f| format!("{f}")).unwrap_or_else(|| n.to_string()),
                other => other.to_string(),
            }
        }
        match v {
            GVal::Variable(n) => self.variables.get(n).map(canon_json).unwrap_or_else(|| "null".into()),
            GVal::Int(t) | GVal::Float(t) => t.parse::<f64>().map(|f| format!("{f}")).unwrap_or_else(|_| t.clone()),
            GVal::String(s) => s.value.clone(),
            GVal::Boolean(b) => b.to_string(),
            GVal::Null => "null".into(),
            GVal::Enum(e) => e.clone(),
            GVal::List(l) => format!("[{}]", l.iter().map(|x| self.canon(x)).collect::<Vec<_>>().join(",")),
            GVal::Object(o) => {
                let mut parts: Vec<(String, String)> = o.iter().map(|(k, x)| (k.clone(), self.canon(x))).collect();
                parts.sort();
                format!("{{{}}}", parts.iter().map(|(k, x)| format!("{k}:{x}")).collect::<Vec<_>>().join(","))
            }
        }
    }

    fn field_identity(&self, f: &Field) -> String {
        let mut args: Vec<(String, String)> = f.arguments.iter().map(|a| (a.name.clone(), self.canon(&a.value))).collect();
        args.sort();
        format!("{}({})", f.name, args.iter().map(|(k, v)| format!("{k}:{v}")).collect::<Vec<_>>().join(","))
    }

    // ---- world ---------------------------------------------------------------------------------
    fn new_entity(&mut self, type_name: &str) -> usize {
        // the runtime stores every object of the query root type in the one root record
        if let (Some(root), Some(q)) = (self.root, self.schema.query_type.as_deref()) {
            if q == type_name && self.entities[root].type_name == q {
                self.stats.entity_revisits += 1;
                return root;
            }
        }
        let has_id = self.schema.get_type(type_name).is_some_and(|t| t.field("id").is_some());
        if has_id {
            // small pool per type: the same entity is reached along several paths
            let picked = self.tape.choose(3);
            let id = if self.unique_ids {
                self.counter += 1;
                format!("u{}", self.counter)
            } else {
                format!("{picked}")
            };
            let key = (type_name.to_string(), id.clone());
            if let Some(&e) = self.by_identity.get(&key) {
                self.stats.entity_revisits += 1;
                return e;
            }
            let mut fields = BTreeMap::new();
            fields.insert("id()".to_string(), WVal::Leaf(json!(id)));
            self.entities.push(Entity { type_name: type_name.to_string(), id: Some(id), fields });
            let e = self.entities.len() - 1;
            self.by_identity.insert(key, e);
            e
        } else {
            self.entities.push(Entity { type_name: type_name.to_string(), id: None, fields: BTreeMap::new() });
            self.entities.len() - 1
        }
    }

    fn gen_wval(&mut self, ty: &Type) -> WVal {
        let (inner, non_null) = unwrap_non_null(ty);
        if !non_null && self.tape.chance(1, 5) {
            self.stats.nulls += 1;
            return WVal::Null;
        }
        match inner {
            Type::List(item) => {
                let n = self.tape.range(0, 3);
                self.stats.lists += 1;
                if n == 0 {
                    self.stats.empty_lists += 1;
                }
                WVal::List((0..n).map(|_| self.gen_wval(item)).collect())
            }
            Type::Named(name) => {
                if self.schema.is_composite(name) {
                    let possible: Vec<String> = self.schema.possible_types(name).into_iter().collect();
                    if possible.is_empty() {
                        // an abstract type without implementations can only be null
                        return if non_null { WVal::Leaf(Value::Null) } else { WVal::Null };
                    }
                    if possible.len() > 1 || possible[0] != *name {
                        self.stats.abstract_positions += 1;
                    }
                    let concrete = possible[self.tape.choose(possible.len())].clone();
                    WVal::Obj(self.new_entity(&concrete))
                } else {
                    self.counter += 1;
                    WVal::Leaf(self.leaf(name))
                }
            }
            Type::NonNull(_) => unreachable!(),
        }
    }

    fn field_value(&mut self, entity: usize, f: &Field) -> Option<WVal> {
        let type_name = self.entities[entity].type_name.clone();
        if f.name == "__typename" {
            return Some(WVal::Leaf(json!(type_name)));
        }
        let identity = self.field_identity(f);
        if let Some(v) = self.entities[entity].fields.get(&identity) {
            return Some(v.clone());
        }
        let def_ty = self.schema.field(&type_name, &f.name)?.ty.clone();
        fn list_depth(t: &Type) -> usize {
            match t {
                Type::Named(_) => 0,
                Type::NonNull(i) => list_depth(i),
                Type::List(i) => 1 + list_depth(i),
            }
        }
        if list_depth(&def_ty) >= 2 && self.schema.is_composite(def_ty.inner_name()) {
            self.stats.nested_object_lists += 1;
        }
        let v = self.gen_wval(&def_ty);
        self.entities[entity].fields.insert(identity, v.clone());
        Some(v)
    }

    fn type_condition_applies(&self, cond: &Option<String>, concrete: &str) -> bool {
        match cond {
            None => true,
            Some(c) => c == concrete || self.schema.possible_types(c).contains(concrete),
        }
    }

    /// CollectFields: fields grouped by response key, in order of first appearance.
    fn collect<'s>(&self, sets: &[&'s SelectionSet], concrete: &str, out: &mut Vec<(String, Vec<&'s Field>)>) {
        for set in sets {
            for item in &set.items {
                match item {
                    Selection::Field(f) => {
                        let key = f.response_key().to_string();
                        match out.iter_mut().find(|(k, _)| *k == key) {
                            Some((_, group)) => group.push(f),
                            None => out.push((key, vec![f])),
                        }
                    }
                    Selection::InlineFragment(frag) => {
                        if self.type_condition_applies(&frag.type_condition, concrete) {
                            self.collect(&[&frag.selection_set], concrete, out);
                        }
                    }
                    // the compiler never emits named fragments
                    Selection::FragmentSpread(_) => {}
                }
            }
        }
    }

    fn complete(&mut self, v: &WVal, group: &[&Field]) -> Result<Value, String> {
        Ok(match v {
            WVal::Null => Value::Null,
            WVal::Leaf(x) => x.clone(),
            WVal::List(items) => Value::Array(items.iter().map(|i| self.complete(i, group)).collect::<Result<_, _>>()?),
            WVal::Obj(e) => {
                let sets: Vec<&SelectionSet> = group.iter().filter_map(|f| f.selection_set.as_ref()).collect();
                self.execute(*e, &sets)?
            }
        })
    }

    fn execute(&mut self, entity: usize, sets: &[&SelectionSet]) -> Result<Value, String> {
        self.stats.objects += 1;
        let concrete = self.entities[entity].type_name.clone();
        let mut groups = vec![];
        self.collect(sets, &concrete, &mut groups);
        let mut out = Map::new();
        for (key, group) in groups {
            let v = self
                .field_value(entity, group[0])
                .ok_or_else(|| format!("the operation selects `{}` on `{concrete}`, which the schema does not define", group[0].name))?;
            let done = self.complete(&v, &group)?;
            out.insert(key, done);
        }
        let _ = &self.entities[entity].id;
        Ok(Value::Object(out))
    }

    /// The `data` of the response for the operation.
    pub fn respond(&mut self, op: &OperationDefinition) -> Result<Value, String> {
        let root = self.schema.root_type(op.kind).ok_or("schema has no root type for the operation")?.to_string();
        self.entities.push(Entity { type_name: root, id: None, fields: BTreeMap::new() });
        let e = self.entities.len() - 1;
        self.root = Some(e);
        self.execute(e, &[&op.selection_set])
    }
}

/// Parse the cooked operation, generate variables and a conforming response.
pub fn generate(schema: &Schema, operation_text: &str, tape: Vec<u16>, unique_ids: bool) -> Result<(OperationDefinition, Value, Value, RespStats), String> {
    let doc = refgql::parse_executable(operation_text).map_err(|e| format!("operation does not parse: {e:?}"))?;
    let op = doc
        .definitions
        .iter()
        .find_map(|d| match d {
            refgql::Definition::Operation(o) => Some(o.clone()),
            _ => None,
        })
        .ok_or("no operation in the document")?;
    let mut w = World::new(schema, tape);
    w.unique_ids = unique_ids;
    w.gen_variables(&op);
    let data = w.respond(&op)?;
    Ok((op, data, w.variables(), w.stats))
}

/// Does the operation select an object-typed field whose static type has no `id` field (an
/// interface or union) although one of its possible concrete types has one? At such a position the
/// compiler cannot add `id`, so the runtime identifies the objects by their path unless a
/// refinement happens to fetch the id.
pub fn operation_has_abstract_field_without_id(schema: &Schema, operation_text: &str) -> bool {
    fn walk(schema: &Schema, parent: &str, set: &SelectionSet) -> bool {
        set.items.iter().any(|item| match item {
            Selection::Field(f) => {
                let Some(def) = schema.field(parent, &f.name) else { return false };
                let ty = def.ty.inner_name().to_string();
                let Some(sub) = &f.selection_set else { return false };
                let no_static_id = schema.get_type(&ty).is_some_and(|t| t.field("id").is_none());
                let some_possible_has_id = schema.possible_types(&ty).iter().any(|p| schema.get_type(p).is_some_and(|t| t.field("id").is_some()));
                (no_static_id && some_possible_has_id) || walk(schema, &ty, sub)
            }
            Selection::InlineFragment(fr) => walk(schema, fr.type_condition.as_deref().unwrap_or(parent), &fr.selection_set),
            Selection::FragmentSpread(_) => false,
        })
    }
    let Ok(doc) = refgql::parse_executable(operation_text) else { return false };
    doc.definitions.iter().any(|d| match d {
        refgql::Definition::Operation(o) => schema.root_type(o.kind).is_some_and(|root| walk(schema, root, &o.selection_set)),
        _ => false,
    })
}


/// Does some selection set of the operation hold two fields with the same response key but a
/// different name or different arguments? (The recorded response-key collisions of C12/C09: e.g.
/// `child(id: "a b")` and `child(id: "a_b")` both get `child____id___s_a_b`. A server can return only
/// one value under that key, so no conforming response exists for such an operation.)
pub fn operation_has_response_key_collision(operation_text: &str) -> bool {
    fn walk(set: &SelectionSet) -> bool {
        let mut seen: Vec<(String, String)> = vec![];
        for item in &set.items {
            match item {
                Selection::Field(f) => {
                    let key = f.alias.clone().unwrap_or_else(|| f.name.clone());
                    let ident = format!("{}({:?})", f.name, f.arguments);
                    if seen.iter().any(|(k, i)| *k == key && *i != ident) {
                        return true;
                    }
                    seen.push((key, ident));
                    if let Some(sub) = &f.selection_set {
                        if walk(sub) {
                            return true;
                        }
                    }
                }
                Selection::InlineFragment(fr) => {
                    if walk(&fr.selection_set) {
                        return true;
                    }
                }
                Selection::FragmentSpread(_) => {}
            }
        }
        false
    }
    let Ok(doc) = refgql::parse_executable(operation_text) else { return false };
    doc.definitions.iter().any(|d| match d {
        refgql::Definition::Operation(o) => walk(&o.selection_set),
        _ => false,
    })
}
