//! Soundness guard for the unit-level domain: a selection whose values are all writable in an
//! iso literal is printed, parsed by the real `parse_iso_literal`, and the arguments the parser
//! produced must be exactly the model's. This ties the directly constructed `ArgumentKeyAndValue`
//! inputs to what a real caller (the parser) hands to the compiler.
use crate::keys::has_astral;
use crate::model::{FieldSel, Val};
use common_lang_types::TextSource;
use intern::string_key::Intern;
use isograph_lang_parser::{parse_iso_literal, IsoLiteralExtractionResult};
use isograph_lang_types::SelectionType;

#[derive(Debug, Clone, PartialEq)]
pub enum Guard {
    /// contains a float or an enum value, or an astral character the lexer rejects: not writable in an iso literal
    NotWritable(&'static str),
    /// the parser returned exactly the model's arguments
    Same,
    /// the parser rejected the literal (message)
    Rejected(String),
    /// the parser accepted it but produced other arguments
    Different(String),
}

fn print_val(v: &Val, out: &mut String) -> Result<(), &'static str> {
    match v {
        Val::Var(n) => {
            out.push('$');
            out.push_str(n);
        }
        Val::Int(i) => out.push_str(&i.to_string()),
        Val::Bool(b) => out.push_str(&b.to_string()),
        Val::Str(s) => {
            out.push('"');
            out.push_str(s);
            out.push('"');
        }
        Val::Float(_) => return Err("float"),
        Val::Null => out.push_str("null"),
        Val::Enum(_) => return Err("enum"),
        Val::Obj(entries) => {
            out.push('{');
            for (i, (k, v)) in entries.iter().enumerate() {
                if i > 0 {
                    out.push_str(", ");
                }
                out.push_str(k);
                out.push_str(": ");
                print_val(v, out)?;
            }
            out.push('}');
        }
    }
    Ok(())
}

pub fn print_literal(f: &FieldSel) -> Result<String, &'static str> {
    let mut s = String::from("field Query.Guard {\n  ");
    s.push_str(&f.name);
    if !f.args.is_empty() {
        s.push('(');
        for (i, (k, v)) in f.args.iter().enumerate() {
            if i > 0 {
                s.push_str(", ");
            }
            s.push_str(k);
            s.push_str(": ");
            print_val(v, &mut s)?;
        }
        s.push(')');
    }
    if f.linked {
        s.push_str(" {\n    id\n  }");
    }
    s.push_str("\n}");
    Ok(s)
}

pub fn guard(f: &FieldSel) -> Guard {
    let text = match print_literal(f) {
        Ok(t) => t,
        Err(why) => return Guard::NotWritable(why),
    };
    const FILE: &str = "src/c12_guard.tsx";
    let parsed = vcore::catch_panic(|| {
        parse_iso_literal(
            text.clone(),
            FILE.intern().into(),
            Some("Guard".to_string()),
            TextSource { relative_path_to_source_file: FILE.intern().into(), span: None },
        )
    });
    let astral = f.leaves().iter().any(|(_, v)| matches!(v, Val::Str(s) if has_astral(s)));
    let decl = match parsed {
        Err(p) => return Guard::Rejected(format!("panic: {p}")),
        // the string lexer's character class ends at U+FFFF: astral characters cannot be written today
        Ok(Err(_)) if astral => return Guard::NotWritable("astral-char: the lexer rejects it"),
        Ok(Err(d)) => return Guard::Rejected(format!("{d:?}").chars().take(200).collect()),
        Ok(Ok(IsoLiteralExtractionResult::ClientFieldDeclaration(d))) => d,
        Ok(Ok(_)) => return Guard::Different("not a client field declaration".into()),
    };
    let sels = &decl.item.selection_set.item.selections;
    if sels.len() != 1 {
        return Guard::Different(format!("{} selections", sels.len()));
    }
    let (name, args) = match &sels[0].item {
        SelectionType::Scalar(s) => (s.name.item.to_string(), s.arguments.iter().map(|a| a.item.into_key_and_value()).collect::<Vec<_>>()),
        SelectionType::Object(o) => (o.name.item.to_string(), o.arguments.iter().map(|a| a.item.into_key_and_value()).collect::<Vec<_>>()),
    };
    let mut got = vec![];
    for a in &args {
        match Val::from_ncv(&a.value) {
            Some(v) => got.push((a.key.to_string(), v)),
            None => return Guard::Different("list value".into()),
        }
    }
    if name == f.name && got == f.args {
        Guard::Same
    } else {
        Guard::Different(format!("parser produced {name}{got:?}"))
    }
}
