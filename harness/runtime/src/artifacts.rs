//! Generated artifacts (read as data by `tsread`) -> the JSON the node driver executes.
//!
//! For every `entrypoint.ts` of a compile: the normalization AST nodes, the entrypoint's reader
//! AST with every imported reader artifact linked in as nested JSON (see run_cases.mjs for the
//! representation), the nested refetch queries, the concrete type and the cooked operation text.
//!
//! Resolver functions: a resolver imported from OUTSIDE the artifact directory is the project's
//! own function; in G-PROJECT sources that is always `function C(props) { return null; }`, so it
//! is represented faithfully as `{"__fn":"const","value":null}`. A resolver written inline by the
//! compiler (the `asFoo` type refinements) is passed as its source text and evaluated by node.
use serde_json::{json, Map, Value};
use tsread::{ArtifactSet, Target, Val};

#[derive(Clone, Debug)]
pub struct EntrypointCase {
    /// artifact-relative path of the entrypoint.ts
    pub path: String,
    pub concrete_type: String,
    /// normalization AST nodes (`selections`)
    pub normalization: Value,
    pub reader_ast: Value,
    pub reader_kind: String,
    pub nested_refetch_queries: Value,
    /// cooked operation text (None for persisted operations)
    pub operation_text: Option<String>,
    pub lazy_reader: bool,
    pub lazy_normalization: bool,
}

#[derive(Clone, Debug)]
pub struct LinkError(pub String);

struct Linker<'a> {
    set: &'a ArtifactSet,
    depth: usize,
}

fn inline_resolver_source(module_source: &str) -> Option<String> {
    for line in module_source.lines() {
        let t = line.trim_start();
        if let Some(rest) = t.strip_prefix("resolver: ") {
            let rest = rest.trim_end().trim_end_matches(',').trim();
            if rest.starts_with('(') && rest.contains("=>") {
                return Some(rest.to_string());
            }
        }
    }
    None
}

impl<'a> Linker<'a> {
    /// `module` = path of the module whose source holds `v` (changes when an import is followed).
    fn link(&mut self, v: &Val, module: &str) -> Result<Value, LinkError> {
        self.depth += 1;
        if self.depth > 200 {
            self.depth -= 1;
            return Err(LinkError("artifact graph deeper than 200 (cyclic imports?)".into()));
        }
        let r = self.link_inner(v, module);
        self.depth -= 1;
        r
    }

    fn link_inner(&mut self, v: &Val, module: &str) -> Result<Value, LinkError> {
        Ok(match v {
            Val::Undefined => Value::Null,
            Val::Null => Value::Null,
            Val::Bool(b) => json!(b),
            Val::Num(_) | Val::Str(_) => v.to_json(),
            Val::Array(a) => Value::Array(a.iter().map(|x| self.link(x, module)).collect::<Result<_, _>>()?),
            Val::Object(props) => {
                let mut m = Map::new();
                let loadable = props.iter().any(|(k, x)| k == "kind" && x.as_str() == Some("LoadablySelectedField"));
                for (k, x) in props {
                    let value = if loadable && k == "entrypoint" {
                        // behind a loadable boundary: readData only touches it from a closure
                        json!({"kind": "EntrypointLoader", "typeAndField": "verif__stub", "readerArtifactKind": "EagerReaderArtifact", "loader": null})
                    } else if k == "resolver" {
                        self.resolver(x, module)
                    } else if k == "loader" {
                        // lazy loaders are only called from closures the driver never invokes
                        Value::Null
                    } else {
                        self.link(x, module)?
                    };
                    m.insert(k.clone(), value);
                }
                Value::Object(m)
            }
            Val::Import(r) => match (&r.target, &r.resolved) {
                (Target::Inside(_), Some(path)) => match self.set.follow(r) {
                    Some(next) => {
                        let path = path.clone();
                        self.link(next, &path)?
                    }
                    None => return Err(LinkError(format!("import {} from {module} has no such export", r.specifier))),
                },
                (Target::Inside(p), None) => return Err(LinkError(format!("import {} from {module} names no artifact ({p})", r.specifier))),
                _ => json!({"$unlinked": r.specifier}),
            },
            // `() => ({…})` reader artifacts and thunks: the returned object (the driver re-wraps it)
            Val::Function { returns: Some(r), .. } => self.link(r, module)?,
            Val::Function { returns: None, .. } => json!({"$unlinked": "function"}),
            Val::Promise(p) => self.link(p, module)?,
            Val::Opaque(s) => json!({"$unlinked": s}),
        })
    }

    fn resolver(&mut self, v: &Val, module: &str) -> Value {
        match v {
            // the project's own resolver function: G-PROJECT writes `function C(props) { return null; }`
            Val::Import(r) if matches!(r.target, Target::Outside(_)) => json!({"__fn": "const", "value": null}),
            _ => match self.set.files.get(module).and_then(|m| inline_resolver_source(&m.source)) {
                Some(src) => json!({"__fn": "js", "source": src}),
                None => json!({"__fn": "const", "value": null}),
            },
        }
    }
}

fn get<'v>(set: &'v ArtifactSet, v: &'v Val, key: &str) -> Option<&'v Val> {
    set.deref(v).get(key).map(|x| set.deref(x))
}

/// Every entrypoint of the artifact set, ready for the driver. `Err` entries name entrypoints that
/// could not be linked (counted and skipped by the caller; C13/C25 judge broken imports).
pub fn entrypoint_cases(set: &ArtifactSet) -> Vec<Result<EntrypointCase, LinkError>> {
    let mut out = vec![];
    for path in set.paths_named("entrypoint.ts") {
        out.push(entrypoint_case(set, path));
    }
    out
}

pub fn entrypoint_case(set: &ArtifactSet, path: &str) -> Result<EntrypointCase, LinkError> {
    let err = |m: &str| LinkError(format!("{path}: {m}"));
    let entry = set.default_of(path).ok_or_else(|| err("no default export"))?;
    let entry = set.deref(entry);
    let concrete_type = get(set, entry, "concreteType").and_then(|v| v.as_str()).ok_or_else(|| err("no concreteType"))?.to_string();
    let nri = get(set, entry, "networkRequestInfo").ok_or_else(|| err("no networkRequestInfo"))?;
    let operation_text = get(set, nri, "operation").and_then(|op| get(set, op, "text")).and_then(|t| t.as_str()).map(|s| s.to_string());
    let mut linker = Linker { set, depth: 0 };

    // normalization AST: {kind:"NormalizationAst", selections} or a lazy loader
    let nast_ref = nri.get("normalizationAst").ok_or_else(|| err("no normalizationAst"))?;
    let mut nast = set.deref(nast_ref);
    let mut lazy_normalization = false;
    if nast.get("kind").and_then(|k| k.as_str()) == Some("NormalizationAstLoader") {
        lazy_normalization = true;
        let loader = nast.get("loader").ok_or_else(|| err("NormalizationAstLoader without loader"))?;
        nast = set.deref(set.deref(loader).call0().awaited());
        nast = set.deref(nast);
    }
    let nast_module = match nast_ref {
        Val::Import(r) => r.resolved.clone().unwrap_or_else(|| path.to_string()),
        _ => path.to_string(),
    };
    let selections = nast.get("selections").ok_or_else(|| err("normalization AST without selections"))?;
    let normalization = linker.link(selections, &nast_module)?;

    // reader: RawReaderWithRefetchQueries or a loader of one
    let mut rwrq = get(set, entry, "readerWithRefetchQueries").ok_or_else(|| err("no readerWithRefetchQueries"))?;
    let mut lazy_reader = false;
    if rwrq.get("kind").and_then(|k| k.as_str()) == Some("ReaderWithRefetchQueriesLoader") {
        lazy_reader = true;
        let loader = rwrq.get("loader").ok_or_else(|| err("reader loader without loader"))?;
        rwrq = set.deref(set.deref(loader).call0().awaited());
    }
    let nested = rwrq.get("nestedRefetchQueries").ok_or_else(|| err("no nestedRefetchQueries"))?;
    let nested_refetch_queries = linker.link(nested, path)?;
    let reader_ref = rwrq.get("readerArtifact").ok_or_else(|| err("no readerArtifact"))?;
    let reader_module = match reader_ref {
        Val::Import(r) => r.resolved.clone().unwrap_or_else(|| path.to_string()),
        _ => path.to_string(),
    };
    let reader = set.deref(reader_ref).call0();
    let reader = set.deref(reader);
    let reader_kind = reader.get("kind").and_then(|k| k.as_str()).unwrap_or("?").to_string();
    let reader_ast_val = reader.get("readerAst").ok_or_else(|| err("reader artifact without readerAst"))?;
    let reader_ast = linker.link(reader_ast_val, &reader_module)?;
    Ok(EntrypointCase {
        path: path.to_string(),
        concrete_type,
        normalization,
        reader_ast,
        reader_kind,
        nested_refetch_queries,
        operation_text,
        lazy_reader,
        lazy_normalization,
    })
}

/// Statistics of a linked reader AST (for the non-trivial rule and the class histogram).
#[derive(Clone, Debug, Default)]
pub struct ReaderStats {
    /// maximum nesting of Resolver nodes (client fields inside client fields)
    pub resolver_depth: usize,
    pub resolvers: usize,
    pub components: usize,
    pub resolver_with_arguments: usize,
    pub conditions: usize,
    pub loadable: usize,
    pub imperative: usize,
    pub pointers: usize,
    /// client pointers selected with arguments, or whose own reader uses variables
    pub pointers_with_arguments: usize,
    /// client fields selected without an argument for a variable their reader uses
    pub resolvers_omitting_a_variable: usize,
    /// ... where the reader uses that variable inside an object-valued argument
    pub resolvers_omitting_a_variable_used_in_object: usize,
    pub fields_with_arguments: usize,
    pub variable_arguments: usize,
}

/// Variable names used in the arguments of the nodes of a reader AST (not descending into the
/// readers of nested client fields, which get their own variable map).
fn variables_used(ast: &Value, out: &mut Vec<String>, only_in_objects: bool) {
    fn in_args(a: &Value, out: &mut Vec<String>, inside_object: bool, only_in_objects: bool) {
        for pair in a.as_array().into_iter().flatten() {
            let v = &pair[1];
            if v["kind"] == "Variable" {
                if let Some(n) = v["name"].as_str() {
                    if inside_object || !only_in_objects {
                        out.push(n.to_string());
                    }
                }
            } else if v["kind"] == "Object" {
                in_args(&v["value"], out, true, only_in_objects);
            }
        }
    }
    for n in ast.as_array().into_iter().flatten() {
        in_args(&n["arguments"], out, false, only_in_objects);
        in_args(&n["queryArguments"], out, false, only_in_objects);
        if n["kind"] == "Linked" {
            variables_used(&n["selections"], out, only_in_objects);
            // conditions (asX, pointers) are read with the same variables by the runtime
            if n["condition"].is_object() {
                variables_used(&n["condition"]["readerAst"], out, only_in_objects);
            }
        }
    }
}

/// Does any argument list of the (linked) reader AST hold a variable inside an object value?
pub fn has_variable_inside_object(ast: &Value) -> bool {
    fn in_args(a: &Value, inside: bool) -> bool {
        a.as_array().is_some_and(|l| {
            l.iter().any(|pair| {
                let v = &pair[1];
                (inside && v["kind"] == "Variable") || (v["kind"] == "Object" && in_args(&v["value"], true))
            })
        })
    }
    ast.as_array().is_some_and(|nodes| {
        nodes.iter().any(|n| {
            in_args(&n["arguments"], false)
                || in_args(&n["queryArguments"], false)
                || has_variable_inside_object(&n["selections"])
                || has_variable_inside_object(&n["condition"]["readerAst"])
                || has_variable_inside_object(&n["readerArtifact"]["readerAst"])
        })
    })
}

pub fn reader_stats(ast: &Value) -> ReaderStats {
    fn args_have_variable(a: &Value) -> bool {
        a.as_array().is_some_and(|l| {
            l.iter().any(|pair| {
                let v = &pair[1];
                v["kind"] == "Variable" || (v["kind"] == "Object" && args_have_variable(&v["value"]))
            })
        })
    }
    fn walk(ast: &Value, depth: usize, s: &mut ReaderStats) {
        for n in ast.as_array().into_iter().flatten() {
            if n["arguments"].is_array() && matches!(n["kind"].as_str(), Some("Scalar" | "Linked")) {
                s.fields_with_arguments += 1;
                if args_have_variable(&n["arguments"]) {
                    s.variable_arguments += 1;
                }
            }
            match n["kind"].as_str() {
                Some("Linked") => {
                    if n["refetchQueryIndex"].is_number() {
                        s.pointers += 1;
                        let mut used = vec![];
                        variables_used(&n["condition"]["readerAst"], &mut used, false);
                        if n["arguments"].is_array() || !used.is_empty() {
                            s.pointers_with_arguments += 1;
                        }
                    }
                    if n["condition"].is_object() {
                        s.conditions += 1;
                        walk(&n["condition"]["readerAst"], depth, s);
                    }
                    walk(&n["selections"], depth, s);
                }
                Some("Resolver") => {
                    s.resolvers += 1;
                    s.resolver_depth = s.resolver_depth.max(depth + 1);
                    if n["readerArtifact"]["kind"] == "ComponentReaderArtifact" {
                        s.components += 1;
                    }
                    if n["arguments"].is_array() {
                        s.resolver_with_arguments += 1;
                    }
                    let mut used = vec![];
                    variables_used(&n["readerArtifact"]["readerAst"], &mut used, false);
                    let passed: Vec<&str> = n["arguments"].as_array().into_iter().flatten().filter_map(|p| p[0].as_str()).collect();
                    if used.iter().any(|u| !passed.contains(&u.as_str())) {
                        s.resolvers_omitting_a_variable += 1;
                    }
                    let mut used_in_objects = vec![];
                    variables_used(&n["readerArtifact"]["readerAst"], &mut used_in_objects, true);
                    if used_in_objects.iter().any(|u| !passed.contains(&u.as_str())) {
                        s.resolvers_omitting_a_variable_used_in_object += 1;
                    }
                    walk(&n["readerArtifact"]["readerAst"], depth + 1, s);
                }
                Some("LoadablySelectedField") => s.loadable += 1,
                Some("ImperativelyLoadedField") => s.imperative += 1,
                _ => {}
            }
        }
    }
    let mut s = ReaderStats::default();
    walk(ast, 0, &mut s);
    s
}
