//! Plain-data model of a field selection with arguments, its conversion to the compiler's own
//! types (`ArgumentKeyAndValue`, `NonConstantValue`, `Merged*FieldSelection`) and to/from JSON
//! (replay files hold the model, never compiler types).
use common_lang_types::{EmbeddedLocation, WithLocationPostfix};
use graphql_lang_types::{FloatValue, NameValuePair};
use intern::string_key::Intern;
use intern::Lookup;
use isograph_lang_types::{ArgumentKeyAndValue, NonConstantValue, VariableNameWrapper};
use isograph_schema::{ConcreteTargetEntityName, MergedLinkedFieldSelection, MergedScalarFieldSelection};
use serde_json::{json, Value};
use std::collections::BTreeMap;

#[derive(Clone, Debug)]
pub enum Val {
    Var(String),
    Int(i64),
    Bool(bool),
    /// The string literal value exactly as the compiler holds it: the SOURCE text between the
    /// quotes (escape sequences are kept raw, see parse_non_constant_value).
    Str(String),
    Float(f64),
    Null,
    Enum(String),
    Obj(Vec<(String, Val)>),
}

impl PartialEq for Val {
    fn eq(&self, o: &Val) -> bool {
        match (self, o) {
            (Val::Var(a), Val::Var(b)) | (Val::Str(a), Val::Str(b)) | (Val::Enum(a), Val::Enum(b)) => a == b,
            (Val::Int(a), Val::Int(b)) => a == b,
            (Val::Bool(a), Val::Bool(b)) => a == b,
            (Val::Float(a), Val::Float(b)) => a.to_bits() == b.to_bits(),
            (Val::Null, Val::Null) => true,
            (Val::Obj(a), Val::Obj(b)) => a == b,
            _ => false,
        }
    }
}
impl Eq for Val {}

#[derive(Clone, Debug, PartialEq, Eq)]
pub struct FieldSel {
    pub name: String,
    /// linked (object) field or scalar field: both kinds of merged selection compute aliases
    pub linked: bool,
    pub args: Vec<(String, Val)>,
}

impl Val {
    pub fn to_ncv(&self) -> NonConstantValue {
        match self {
            Val::Var(n) => NonConstantValue::Variable(VariableNameWrapper(n.intern().into())),
            Val::Int(i) => NonConstantValue::Integer(*i),
            Val::Bool(b) => NonConstantValue::Boolean(*b),
            Val::Str(s) => NonConstantValue::String(s.intern().into()),
            Val::Float(f) => NonConstantValue::Float(FloatValue::new(*f)),
            Val::Null => NonConstantValue::Null,
            Val::Enum(e) => NonConstantValue::Enum(e.intern().into()),
            Val::Obj(entries) => NonConstantValue::Object(
                entries
                    .iter()
                    .map(|(k, v)| NameValuePair {
                        name: common_lang_types::ValueKeyName::from(k.intern()).with_location(EmbeddedLocation::todo_generated()),
                        value: v.to_ncv().with_location(EmbeddedLocation::todo_generated()),
                    })
                    .collect(),
            ),
        }
    }

    /// Back from the compiler's type (used to compare what the real parser produced with the model).
    pub fn from_ncv(v: &NonConstantValue) -> Option<Val> {
        Some(match v {
            NonConstantValue::Variable(n) => Val::Var(n.0.lookup().to_string()),
            NonConstantValue::Integer(i) => Val::Int(*i),
            NonConstantValue::Boolean(b) => Val::Bool(*b),
            NonConstantValue::String(s) => Val::Str(s.lookup().to_string()),
            NonConstantValue::Float(f) => Val::Float(f.as_float()),
            NonConstantValue::Null => Val::Null,
            NonConstantValue::Enum(e) => Val::Enum(e.lookup().to_string()),
            NonConstantValue::List(_) => return None,
            NonConstantValue::Object(o) => {
                let mut out = vec![];
                for pair in o {
                    out.push((pair.name.item.lookup().to_string(), Val::from_ncv(&pair.value.item)?));
                }
                Val::Obj(out)
            }
        })
    }

    pub fn to_json(&self) -> Value {
        match self {
            Val::Var(n) => json!({"var": n}),
            Val::Int(i) => json!({"int": i}),
            Val::Bool(b) => json!({"bool": b}),
            Val::Str(s) => json!({"str": s}),
            Val::Float(f) => json!({"float_bits": f.to_bits(), "float_display": f.to_string()}),
            Val::Null => json!({"null": true}),
            Val::Enum(e) => json!({"enum": e}),
            Val::Obj(entries) => json!({"obj": entries.iter().map(|(k, v)| json!([k, v.to_json()])).collect::<Vec<_>>()}),
        }
    }

    pub fn from_json(v: &Value) -> Option<Val> {
        let o = v.as_object()?;
        if let Some(n) = o.get("var") {
            return Some(Val::Var(n.as_str()?.to_string()));
        }
        if let Some(n) = o.get("int") {
            return Some(Val::Int(n.as_i64()?));
        }
        if let Some(n) = o.get("bool") {
            return Some(Val::Bool(n.as_bool()?));
        }
        if let Some(n) = o.get("str") {
            return Some(Val::Str(n.as_str()?.to_string()));
        }
        if let Some(n) = o.get("float_bits") {
            return Some(Val::Float(f64::from_bits(n.as_u64()?)));
        }
        if o.contains_key("null") {
            return Some(Val::Null);
        }
        if let Some(n) = o.get("enum") {
            return Some(Val::Enum(n.as_str()?.to_string()));
        }
        if let Some(n) = o.get("obj") {
            let mut out = vec![];
            for e in n.as_array()? {
                out.push((e.get(0)?.as_str()?.to_string(), Val::from_json(e.get(1)?)?));
            }
            return Some(Val::Obj(out));
        }
        None
    }

    /// Leaves (non-object values) with a path, in order.
    pub fn leaves<'a>(&'a self, path: String, out: &mut Vec<(String, &'a Val)>) {
        match self {
            Val::Obj(entries) => {
                for (k, v) in entries {
                    v.leaves(format!("{path}.{k}"), out);
                }
            }
            other => out.push((path, other)),
        }
    }

    pub fn map_leaves(&self, f: &mut impl FnMut(&Val) -> Val) -> Val {
        match self {
            Val::Obj(entries) => Val::Obj(entries.iter().map(|(k, v)| (k.clone(), v.map_leaves(f))).collect()),
            other => f(other),
        }
    }

    pub fn kind(&self) -> &'static str {
        match self {
            Val::Var(_) => "variable",
            Val::Int(_) => "int",
            Val::Bool(_) => "bool",
            Val::Str(_) => "string",
            Val::Float(_) => "float",
            Val::Null => "null",
            Val::Enum(_) => "enum",
            Val::Obj(_) => "object",
        }
    }

    /// "Same argument value" for the collision direction of the property: structural equality,
    /// except that an integer literal and a float literal denoting the same number (the integer
    /// coerced to Float equals the float) are the same GraphQL input value for the server.
    pub fn same_value(&self, o: &Val) -> bool {
        match (self, o) {
            // the integer literal, coerced to Float as a server does, is that float
            (Val::Int(i), Val::Float(f)) | (Val::Float(f), Val::Int(i)) => (*i as f64) == *f,
            (Val::Float(a), Val::Float(b)) => a == b,
            (Val::Obj(a), Val::Obj(b)) => a.len() == b.len() && a.iter().zip(b).all(|((ka, va), (kb, vb))| ka == kb && va.same_value(vb)),
            (a, b) => a == b,
        }
    }
}

impl FieldSel {
    pub fn arguments(&self) -> Vec<ArgumentKeyAndValue> {
        self.args
            .iter()
            .map(|(k, v)| ArgumentKeyAndValue { key: k.intern().into(), value: v.to_ncv() })
            .collect()
    }

    pub fn scalar_selection(&self) -> MergedScalarFieldSelection {
        MergedScalarFieldSelection { name: self.name.as_str().intern().into(), arguments: self.arguments(), is_fallible: false }
    }

    pub fn linked_selection(&self) -> MergedLinkedFieldSelection {
        MergedLinkedFieldSelection {
            is_fallible: false,
            name: self.name.as_str().intern().into(),
            selection_map: BTreeMap::new(),
            arguments: self.arguments(),
            concrete_target_entity_name: ConcreteTargetEntityName::Abstract,
        }
    }

    pub fn to_json(&self) -> Value {
        json!({
            "name": self.name,
            "linked": self.linked,
            "args": self.args.iter().map(|(k, v)| json!([k, v.to_json()])).collect::<Vec<_>>(),
        })
    }

    pub fn from_json(v: &Value) -> Option<FieldSel> {
        let mut args = vec![];
        for e in v.get("args")?.as_array()? {
            args.push((e.get(0)?.as_str()?.to_string(), Val::from_json(e.get(1)?)?));
        }
        Some(FieldSel { name: v.get("name")?.as_str()?.to_string(), linked: v.get("linked").and_then(|b| b.as_bool()).unwrap_or(false), args })
    }

    pub fn leaves(&self) -> Vec<(String, &Val)> {
        let mut out = vec![];
        for (k, v) in &self.args {
            v.leaves(k.clone(), &mut out);
        }
        out
    }

    pub fn map_leaves(&self, f: &mut impl FnMut(&Val) -> Val) -> FieldSel {
        FieldSel { name: self.name.clone(), linked: self.linked, args: self.args.iter().map(|(k, v)| (k.clone(), v.map_leaves(f))).collect() }
    }

    /// Same field with the same arguments (ordered argument lists, as the compiler's merged
    /// selection map keys them).
    pub fn same_selection(&self, o: &FieldSel) -> bool {
        self.name == o.name && self.args.len() == o.args.len() && self.args.iter().zip(&o.args).all(|((ka, va), (kb, vb))| ka == kb && va.same_value(vb))
    }

    /// Every name-like text of the selection (field, argument, object key, variable, enum).
    pub fn names(&self) -> Vec<&str> {
        fn walk<'a>(v: &'a Val, out: &mut Vec<&'a str>) {
            match v {
                Val::Var(n) | Val::Enum(n) => out.push(n),
                Val::Obj(entries) => {
                    for (k, v) in entries {
                        out.push(k);
                        walk(v, out);
                    }
                }
                _ => {}
            }
        }
        let mut out = vec![self.name.as_str()];
        for (k, v) in &self.args {
            out.push(k);
            walk(v, &mut out);
        }
        out
    }
}

pub fn is_graphql_name(s: &str) -> bool {
    let mut it = s.chars();
    match it.next() {
        Some(c) if c == '_' || c.is_ascii_alphabetic() => {}
        _ => return false,
    }
    it.all(|c| c == '_' || c.is_ascii_alphanumeric())
}
