//! C12 (unit level) — response keys are unique per field+arguments, legal GraphQL names, and equal
//! to the key the runtime computes.
//!
//! Domain: see gen12.rs. Oracles (all independent of the alias code):
//!  (a) injectivity on generated PAIRS (mutation-related and independent): the key the compiler
//!      writes into the operation (`normalization_alias()`, or the field name without arguments)
//!      is equal for two selections exactly when they are the same field with the same arguments;
//!  (b) every key matches `^[_A-Za-z][_0-9A-Za-z]*$`;
//!  (c) agreement with the real runtime: the argument text the compiler emits into the
//!      normalization AST (`get_serialized_field_arguments`) is evaluated by node 22 and given to
//!      `getNetworkResponseKey` of libs/isograph-react/src/core/cache.ts — the function
//!      `normalizeData` uses to look the field up in the network RESPONSE; its result must be
//!      the compiler's key. (Both sides use variable NAMES; `getParentRecordKey`, which uses
//!      variable values, is the store key and is not part of this property.)
//! Soundness guard: every selection writable in an iso literal is round-tripped through the real
//! parser (parser_guard.rs) so the directly constructed arguments are what the parser produces.
use crate::gen12::{self, Exclusions, Mutation};
use crate::keys::{self, collision_signature, compiler_arguments_js, compiler_key, is_legal_response_key, runtime_key};
use crate::model::{FieldSel, Val};
use crate::node::NodeSession;
use crate::parser_guard::{guard, Guard};
use serde_json::{json, Value};
use std::sync::Mutex;
use vcore::{Args, Fail, Report};

pub struct Ctx<'a> {
    pub report: &'a Report,
    pub session: Mutex<NodeSession>,
}

/// Tolerate listed findings one by one (so a listed root cause never hides another failure of the
/// same case); return the first failure that is not listed.
pub fn resolve(report: &Report, fails: Vec<Fail>) -> Result<(), Fail> {
    let mut first_unknown = None;
    for f in fails {
        if report.is_known(&f.signature) {
            report.known_hit(&f.signature);
        } else if first_unknown.is_none() {
            first_unknown = Some(f);
        }
    }
    match first_unknown {
        Some(f) => Err(f),
        None => Ok(()),
    }
}

enum Agreement {
    Agree,
    Disagree { compiler: String, runtime: String },
    RuntimeThrew(String),
    CompilerPanicked,
}

fn agreement(ctx: &Ctx, f: &FieldSel, indent: u8) -> Agreement {
    let kc = match compiler_key(f) {
        Ok(k) => k,
        Err(_) => return Agreement::CompilerPanicked,
    };
    let js = match compiler_arguments_js(&f.arguments(), indent) {
        Ok(t) => t,
        Err(_) => return Agreement::CompilerPanicked,
    };
    let kr = {
        let mut s = ctx.session.lock().unwrap();
        match runtime_key(&mut s, &f.name, &js, f.linked) {
            Ok(r) => r,
            Err(e) => e.inconclusive(),
        }
    };
    match kr {
        Ok(k) if k == kc => Agreement::Agree,
        Ok(k) => Agreement::Disagree { compiler: kc, runtime: k },
        Err(t) => Agreement::RuntimeThrew(t),
    }
}

fn isolated(v: &Val) -> FieldSel {
    FieldSel { name: "f".into(), linked: false, args: vec![("a".into(), v.clone())] }
}

fn isolated_disagrees(ctx: &Ctx, v: &Val) -> bool {
    !matches!(agreement(ctx, &isolated(v), 0), Agreement::Agree)
}

/// Root causes of a compiler/runtime disagreement: each leaf value is tried in isolation.
fn disagreement_signatures(ctx: &Ctx, f: &FieldSel) -> Vec<String> {
    let mut sigs: Vec<String> = vec![];
    let mut push = |s: String| {
        if !sigs.contains(&s) {
            sigs.push(s)
        }
    };
    let mut culprit = false;
    for (_, v) in f.leaves() {
        if !isolated_disagrees(ctx, v) {
            continue;
        }
        culprit = true;
        match v {
            Val::Int(i) if *i > keys::TWO_POW_53 || *i < -keys::TWO_POW_53 => push(gen12::SIG_NUMBER_FORMAT.into()),
            Val::Float(_) => push(gen12::SIG_NUMBER_FORMAT.into()),
            Val::Str(s) => {
                let mut any = false;
                if keys::has_astral(s) && isolated_disagrees(ctx, &Val::Str(keys::without_escapes(s))) {
                    push(gen12::SIG_ASTRAL.into());
                    any = true;
                }
                if keys::has_escape(s) && isolated_disagrees(ctx, &Val::Str(keys::without_astral(s))) {
                    push(gen12::SIG_ESCAPE.into());
                    any = true;
                }
                if !any {
                    push("disagree:string".into());
                }
            }
            other => push(format!("disagree:{}", other.kind())),
        }
    }
    if !culprit {
        push("disagree:structure".into());
    }
    sigs
}

fn illegal_name_signatures(f: &FieldSel) -> Vec<String> {
    let mut sigs: Vec<String> = vec![];
    for (_, v) in f.leaves() {
        let legal = compiler_key(&isolated(v)).map(|k| is_legal_response_key(&k)).unwrap_or(true);
        if legal {
            continue;
        }
        let s = match v {
            Val::Int(i) if *i < 0 => gen12::SIG_NEG_INT.to_string(),
            Val::Float(_) => gen12::SIG_FLOAT.to_string(),
            other => format!("illegal-name:{}", other.kind()),
        };
        if !sigs.contains(&s) {
            sigs.push(s);
        }
    }
    if sigs.is_empty() {
        sigs.push("illegal-name:structure".into());
    }
    sigs
}

/// (b) + (c) on one selection. Every failure found, each with its root-cause signature.
pub fn check_field(ctx: &Ctx, f: &FieldSel, indent: u8) -> Vec<Fail> {
    let mut fails = vec![];
    let kc = match compiler_key(f) {
        Ok(k) => k,
        Err(p) => {
            // the property does not say "never panics": not counted (C08's business)
            ctx.report.label("skipped:compiler-panicked");
            let _ = p;
            return fails;
        }
    };
    if !is_legal_response_key(&kc) {
        for sig in illegal_name_signatures(f) {
            fails.push(Fail::new(sig, format!("response key {kc:?} is not a legal GraphQL name\nselection: {}", f.to_json())));
        }
    }
    match agreement(ctx, f, indent) {
        Agreement::Agree => {}
        Agreement::CompilerPanicked => ctx.report.label("skipped:compiler-panicked"),
        Agreement::RuntimeThrew(t) => fails.push(Fail::new("runtime-exception", format!("getNetworkResponseKey threw {t}\nselection: {}", f.to_json()))),
        Agreement::Disagree { compiler, runtime } => {
            for sig in disagreement_signatures(ctx, f) {
                fails.push(Fail::new(
                    sig,
                    format!(
                        "compiler key (alias written into the operation) = {compiler:?}\nruntime key (getNetworkResponseKey on the emitted normalization node) = {runtime:?}\nselection: {}",
                        f.to_json()
                    ),
                ));
            }
        }
    }
    fails
}

/// (a) on one pair.
pub fn check_pair(ctx: &Ctx, a: &FieldSel, b: &FieldSel) -> Vec<Fail> {
    let (ka, kb) = match (compiler_key(a), compiler_key(b)) {
        (Ok(x), Ok(y)) => (x, y),
        _ => {
            ctx.report.label("skipped:compiler-panicked");
            return vec![];
        }
    };
    let same = a.same_selection(b);
    if ka == kb && !same {
        return vec![Fail::new(
            collision_signature(a, b),
            format!("two different selections get the same response key {ka:?}\nA: {}\nB: {}", a.to_json(), b.to_json()),
        )];
    }
    if ka != kb && a.name == b.name && a.args == b.args {
        return vec![Fail::new(
            "same-selection-different-keys",
            format!("the same field with the same arguments gets two keys {ka:?} / {kb:?}\nA: {}\nB: {}", a.to_json(), b.to_json()),
        )];
    }
    vec![]
}

fn run_input(ctx: &Ctx, input: &Value) -> Result<(), Fail> {
    match input["kind"].as_str() {
        Some("field") => {
            let Some(f) = FieldSel::from_json(&input["field"]) else { vcore::inconclusive("replay: malformed field") };
            let indent = input["indent"].as_u64().unwrap_or(0) as u8;
            resolve(ctx.report, check_field(ctx, &f, indent))
        }
        Some("pair") => {
            let (Some(a), Some(b)) = (FieldSel::from_json(&input["a"]), FieldSel::from_json(&input["b"])) else {
                vcore::inconclusive("replay: malformed pair")
            };
            resolve(ctx.report, check_pair(ctx, &a, &b))
        }
        Some("project") => {
            let files = gen_project::cases::load_case_files(input);
            match check_program_operations(&files, ctx.report) {
                Ok((fails, _, _)) => resolve(ctx.report, fails),
                Err(e) => vcore::inconclusive(&format!("replay: the program is not accepted any more ({e})")),
            }
        }
        _ => vcore::inconclusive("replay: input.kind must be \"field\", \"pair\" or \"project\""),
    }
}

/// Project level: every operation of a compiled program (entrypoints, including the ones the
/// compiler generates for @loadable fields, and refetch queries) — the aliases in the cooked
/// operation text against the runtime's key for the matching normalization-AST node, and
/// distinct keys for distinct (field, arguments) in every selection set.
pub fn check_program_operations(files: &gen_project::Rendered, report: &Report) -> Result<(Vec<Fail>, crate::project::OperationKeyStats, usize), String> {
    let compiled = crate::c10::compile_files(files)?;
    let escape = files.files.iter().any(|(k, v)| k.starts_with("src/") && v.contains('\\'));
    let mut fails = vec![];
    let mut stats = crate::project::OperationKeyStats::default();
    let mut operations: Vec<(String, String, Value)> = vec![];
    for path in compiled.set.paths_named("entrypoint.ts") {
        match crate::artifacts::entrypoint_case(&compiled.set, path) {
            Err(_) => report.label("project:skipped-entrypoint(artifact-graph-not-linkable)"),
            Ok(ep) => {
                if let Some(text) = &ep.operation_text {
                    operations.push((path.to_string(), text.clone(), ep.normalization.clone()));
                }
                for (i, q) in ep.nested_refetch_queries.as_array().into_iter().flatten().enumerate() {
                    let info = &q["artifact"]["networkRequestInfo"];
                    if let Some(text) = info["operation"]["text"].as_str() {
                        operations.push((format!("{path}#refetch{i}"), text.to_string(), info["normalizationAst"]["selections"].clone()));
                    }
                }
            }
        }
    }
    let mut n_ops = 0;
    for (path, text, normalization) in operations {
        let doc = match refgql::parse_executable(&text) {
            Ok(d) => d,
            Err(_) => {
                if text.contains("l_-") {
                    // the operation is not even parsable: the recorded illegal-name root cause
                    fails.push(Fail::new(gen12::SIG_NEG_INT, format!("{path}: the operation does not parse, it contains a response key with `-`:\n{text}")));
                } else {
                    // not valid GraphQL for another reason: C09's property
                    report.label("project:skipped-operation(not-parsable,C09)");
                }
                continue;
            }
        };
        let Some(op) = doc.definitions.iter().find_map(|d| match d {
            refgql::Definition::Operation(o) => Some(o),
            _ => None,
        }) else {
            continue;
        };
        n_ops += 1;
        crate::c10::with_session(|s| crate::project::check_operation_keys(s, &op.selection_set, &normalization, &path, escape, &mut stats, &mut fails));
    }
    Ok((fails, stats, n_ops))
}

fn field_labels(f: &FieldSel) -> Vec<String> {
    let mut l = vec![if f.linked { "linked".to_string() } else { "scalar".to_string() }, format!("args={}", f.args.len())];
    let mut kinds: Vec<&str> = f.leaves().iter().map(|(_, v)| v.kind()).collect();
    if f.args.iter().any(|(_, v)| matches!(v, Val::Obj(_))) {
        kinds.push("object");
    }
    kinds.sort();
    kinds.dedup();
    for k in kinds {
        l.push(format!("value:{k}"));
    }
    for (_, v) in f.leaves() {
        if let Val::Str(s) = v {
            if s.is_empty() {
                l.push("string:empty".into());
            }
            if keys::has_astral(s) {
                l.push("string:astral".into());
            }
            if keys::has_escape(s) {
                l.push("string:escape-sequence".into());
            }
            if s.chars().any(|c| !c.is_ascii() && (c as u32) <= 0xFFFF) {
                l.push("string:non-ascii-bmp".into());
            }
        }
    }
    if f.names().iter().any(|n| n.contains("__")) {
        l.push("name-with-double-underscore".into());
    }
    l.sort();
    l.dedup();
    l
}

fn exclusions(report: &Report) -> Exclusions {
    Exclusions {
        negative_int: report.is_known(gen12::SIG_NEG_INT),
        float_illegal: report.is_known(gen12::SIG_FLOAT),
        number_format: report.is_known(gen12::SIG_NUMBER_FORMAT),
        astral: report.is_known(gen12::SIG_ASTRAL),
        escape: report.is_known(gen12::SIG_ESCAPE),
        nonword_collision: report.is_known(gen12::SIG_NONWORD),
        separator_collision: report.is_known(gen12::SIG_SEPARATOR),
    }
}

/// Build the pair a generated (field, mutation) value stands for (after exclusions). A mutation
/// that does not apply to the field falls back to an argument-structure mutation, then to a
/// scalar/linked toggle, so that no generated case is wasted.
fn build_pair(ctx: &Ctx, ex: &Exclusions, a0: &FieldSel, m: &Mutation, count: bool) -> (FieldSel, FieldSel, &'static str) {
    let (a, hit_a) = gen12::sanitize(a0, ex);
    if count {
        for s in hit_a {
            ctx.report.excluded(s);
        }
    }
    let ka = compiler_key(&a).ok();
    let kind_of = |m: &Mutation| match m {
        Mutation::Independent(_) => "pair:independent",
        Mutation::Identical => "pair:identical",
        Mutation::StringChar(..) => "pair:string-char",
        Mutation::KindConfusion(..) => "pair:kind-confusion",
        Mutation::Numeric(..) => "pair:numeric-neighbour",
        Mutation::Separator(..) => "pair:separator-shift",
        Mutation::Structure(..) => "pair:argument-structure",
        Mutation::ToggleLinked => "pair:toggle-linked",
    };
    let salt = vcore::hash_of(&a0.to_json().to_string());
    let fallbacks = [m.clone(), Mutation::Structure((salt % 3) as u8, (salt >> 8) as u16), Mutation::ToggleLinked];
    for (i, m) in fallbacks.iter().enumerate() {
        match gen12::apply_mutation(&a, m, ex, ka.as_deref()) {
            Err(sig) => {
                if count {
                    ctx.report.excluded(sig);
                }
            }
            Ok(None) => {
                if count && i == 0 {
                    ctx.report.label("pair:mutation-not-applicable(fallback used)");
                }
            }
            Ok(Some(b0)) => {
                let (b, hit_b) = gen12::sanitize(&b0, ex);
                if count {
                    for s in hit_b {
                        ctx.report.excluded(s);
                    }
                }
                return (a, b, kind_of(m));
            }
        }
    }
    unreachable!("ToggleLinked always applies")
}

pub fn run(args: &Args) {
    let report = Report::new(
        args,
        "exploration",
        "unit level: field name x argument list built directly as ArgumentKeyAndValue (strings = lexer-accepted \
         source text incl. escape sequences, near-collision alphabet, non-ASCII, astral; ints over i64; floats; enums; \
         booleans; null; variables; nested objects; names containing the scheme's own separators), each checked for \
         (b) legal name and (c) equality with the real runtime's getNetworkResponseKey, plus (a) injectivity on \
         mutation-related and independent pairs. Non-trivial = the selection has an argument whose value is a string with \
         a non-word character, a negative number or an object, or the case is a pair of different selections (distinct by \
         the selections' JSON)",
    );
    report.engine("pbt");
    report.engine("node-runtime");
    report.assumption("node 22 stripTypeScriptTypes erases types only; the executed function bodies are libs/isograph-react/src/core/*.ts of the working tree");
    report.assumption("the compiler's emitted argument text is evaluated as a JS expression (new Function), i.e. as the artifact module would evaluate it");
    report.assumption("argument lists are ordered (the merged selection map keys on the ordered list); an Int and a Float literal of equal value count as the same argument value");
    report.assumption("Float and Enum argument values reach ArgumentKeyAndValue through schema default values; List values are outside the domain (the compiler panics on them: C08)");

    let mut session = match NodeSession::start() {
        Ok(s) => s,
        Err(e) => e.inconclusive(),
    };
    if let Err(e) = crate::node::self_test(&mut session) {
        e.inconclusive();
    }
    report.extra("node", json!({"version": session.node_version, "repo": session.repo}));
    let ctx = Ctx { report: &report, session: Mutex::new(session) };

    if let Some(path) = &args.replay {
        let v = vcore::read_replay(path);
        let r = run_input(&ctx, &v["input"]);
        report.case(Some(&v["input"].to_string()), &["replay"]);
        report.case(Some("replay-marker"), &[]);
        report.sample("replay", 1, || v["input"].clone());
        if let Err(f) = r {
            report.violation("replay", &f, v["input"].clone());
        }
        report.finish();
    }

    report.run_regressions(|input| run_input(&ctx, input));

    // Two passes per oracle: "behind" = listed root causes excluded by construction (the search
    // continues behind them), "raw" = the whole domain, listed root causes tolerated one by one
    // (shows they still reproduce from the generator and that nothing else hides among them).
    let behind = exclusions(&report);
    let raw = Exclusions::default();
    let guard_problems: Mutex<Vec<String>> = Mutex::new(vec![]);

    // ---- single selections: (b) legality, (c) agreement, parser guard --------------------------
    for (phase, ex, n) in [("field", behind, args.tier.pick(10_000u32, 300_000u32)), ("field-raw", raw, args.tier.pick(2_500u32, 75_000u32))] {
        let strat = (gen12::field(), 0..4u8);
        let run_field = |(f0, indent): &(FieldSel, u8)| -> Result<(), Fail> {
            let (f, hits) = gen12::sanitize(f0, &ex);
            for s in hits {
                report.excluded(s);
            }
            let labels = field_labels(&f);
            let mut label_refs: Vec<&str> = labels.iter().map(|s| s.as_str()).collect();
            let g = guard(&f);
            let gl = match &g {
                Guard::NotWritable(why) => format!("parser-guard:not-writable({why})"),
                Guard::Same => "parser-guard:parser-produces-exactly-these-arguments".to_string(),
                Guard::Rejected(_) => "parser-guard:REJECTED".to_string(),
                Guard::Different(_) => "parser-guard:DIFFERENT".to_string(),
            };
            label_refs.push(&gl);
            label_refs.push(if phase == "field" { "phase:field(known root causes excluded)" } else { "phase:field-raw(whole domain)" });
            let key = f.to_json().to_string();
            let nontrivial = !gen12::nontrivial_features(&f).is_empty();
            report.case(if nontrivial { Some(key.as_str()) } else { None }, &label_refs);
            match &g {
                Guard::Rejected(m) | Guard::Different(m) => {
                    let mut gp = guard_problems.lock().unwrap();
                    if gp.len() < 5 {
                        gp.push(format!("{m} for {}", f.to_json()));
                    }
                }
                _ => {}
            }
            let class = if f.args.is_empty() {
                "no-arguments"
            } else if f.args.iter().any(|(_, v)| matches!(v, Val::Obj(_))) {
                "object-argument"
            } else if nontrivial {
                "non-word-or-negative"
            } else {
                "plain-arguments"
            };
            report.sample(class, 1, || json!({"kind": "field", "field": f.to_json(), "indent": indent, "compiler_key": compiler_key(&f).ok()}));
            resolve(&report, check_field(&ctx, &f, *indent))
        };
        if let Some((value, fail)) = vcore::run_prop(&report, phase, n, strat, run_field) {
            let (f, _) = gen12::sanitize(&value.0, &ex);
            report.violation(phase, &fail, json!({"kind": "field", "field": f.to_json(), "indent": value.1}));
        }
        report.unfreeze();
    }

    // ---- pairs: (a) injectivity ------------------------------------------------------------------
    for (phase, ex, n) in [("pair", behind, args.tier.pick(40_000u32, 1_000_000u32)), ("pair-raw", raw, args.tier.pick(10_000u32, 250_000u32))] {
        let run_pair = |(a0, m): &(FieldSel, Mutation)| -> Result<(), Fail> {
            let (a, b, kind) = build_pair(&ctx, &ex, a0, m, true);
            let different = !a.same_selection(&b);
            let key = format!("{}|{}", a.to_json(), b.to_json());
            let labels = [
                kind,
                if different { "pair:different-selections" } else { "pair:same-selection" },
                if phase == "pair" { "phase:pair(known root causes excluded)" } else { "phase:pair-raw(whole domain)" },
            ];
            report.case(if different { Some(key.as_str()) } else { None }, &labels);
            report.sample(kind, 1, || json!({"kind": "pair", "a": a.to_json(), "b": b.to_json()}));
            resolve(&report, check_pair(&ctx, &a, &b))
        };
        if let Some((value, fail)) = vcore::run_prop(&report, phase, n, gen12::pair(), run_pair) {
            let (a, b, _) = build_pair(&ctx, &ex, &value.0, &value.1, false);
            report.violation(phase, &fail, json!({"kind": "pair", "a": a.to_json(), "b": b.to_json()}));
        }
        report.unfreeze();
    }

    // ---- project level: the keys inside the operations of generated programs -------------------
    vcore::set_max_shrink_iters(200);
    let n_programs = args.tier.pick(300u32, 10_000u32);
    let behind_escape = report.is_known(gen12::SIG_ESCAPE);
    let res = vcore::run_prop_parallel(&report, "project", n_programs, vcore::num_workers(), crate::c10::c10_strategy, |s| {
        // one program in five keeps the whole domain; otherwise the recorded escape-sequence root
        // cause is excluded by construction (no strings with backslashes)
        let exclude = behind_escape && vcore::hash_of(&s.spec.tape) % 5 != 0;
        let ex = gen_project::cases::Exclusions { no_odd_strings: exclude, ..Default::default() };
        if exclude && s.spec.variant % 5 == 3 {
            report.excluded(gen12::SIG_ESCAPE);
        }
        let case = crate::c10::case_of(s, &ex);
        match check_program_operations(&case.rendered, &report) {
            Err(reason) => {
                report.case::<str>(None, &[&format!("project:{reason}")]);
                Ok(())
            }
            Ok((fails, stats, n_ops)) => {
                let key = format!("{:?}", case.rendered.files);
                let mut labels = vec![format!("project:tier:{}", case.tier), "phase:project(operations of compiled programs)".to_string()];
                if let Some(m) = &stats.shape_mismatch {
                    crate::c10::SAMPLES.offer("project-shape-mismatch", vcore::hash_of(m), || json!({"mismatch": m}));
                    labels.push("project:operation-and-normalization-ast-differ-in-shape(C11)".into());
                }
                let l: Vec<&str> = labels.iter().map(|x| x.as_str()).collect();
                report.case(if stats.fields_with_arguments > 0 { Some(key.as_str()) } else { None }, &l);
                report.label_n("project:operations-checked", n_ops as u64);
                report.label_n("project:selection-sets-checked", stats.selection_sets as u64);
                report.label_n("project:fields-compared-with-runtime-key", stats.fields as u64);
                report.label_n("project:fields-with-arguments", stats.fields_with_arguments as u64);
                if stats.fields_with_arguments > 0 {
                    crate::c10::SAMPLES.offer("project", vcore::hash_of(&key), || json!({"kind": "project", "files": case.rendered.files}));
                }
                resolve(&report, fails)
            }
        }
    });
    if let Some((s, fail)) = res {
        let exclude = behind_escape && vcore::hash_of(&s.spec.tape) % 5 != 0;
        let ex = gen_project::cases::Exclusions { no_odd_strings: exclude, ..Default::default() };
        let case = crate::c10::case_of(&s, &ex);
        report.violation("project", &fail, json!({"kind": "project", "files": case.rendered.files}));
    }
    report.unfreeze();
    crate::c10::SAMPLES.flush(&report);

    let gp = guard_problems.lock().unwrap().clone();
    if !gp.is_empty() && report.violation_count() == 0 {
        // The model of "what the parser produces" is wrong somewhere: a harness problem, never a verdict.
        vcore::inconclusive(&format!("C12 parser guard: the real parser did not produce the model's arguments, e.g. {}", gp[0]));
    }
    report.finish();
}
