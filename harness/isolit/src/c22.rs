//! C22 — formatting preserves meaning, is idempotent, and its edits replace exactly the literal.
//!
//! Domain: G-ISO literals (accepted by the parser) with random layout inside G-ISO documents
//! (comments / strings with non-ASCII and astral text before, between and after; LF and CRLF).
//! Oracle: the edits returned by `on_format`, applied with LSP semantics (UTF-16 columns, clamping
//! at line ends), give exactly the document in which each accepted literal's text — located by
//! the generator's own byte ranges — is replaced by the edit's new text; the new literal text
//! parses and its declaration has the same normalised `Debug` rendering as the original's
//! (locations, semantic tokens and the raw literal text erased); formatting the result again
//! returns the same literal texts.
use crate::lspenv::{self, lsp_position_to_offset, offset_to_lsp_position};
use crate::parse::panic_signature;
use common_lang_types::TextSource;
use gen_iso::{Document, Params};
use intern::string_key::Intern;
use isograph_lang_parser::parse_iso_literal;
use isograph_lsp::verif::on_format;
use lsp_types::{DocumentFormattingParams, FormattingOptions, TextDocumentIdentifier, TextEdit};
use serde_json::{json, Value};
use vcore::{Args, Fail, Report};

#[derive(Clone, Debug)]
pub struct Lit {
    pub start: usize,
    pub end: usize,
    pub export_name: Option<String>,
}

#[derive(Clone, Debug)]
pub struct Case {
    pub doc: String,
    pub literals: Vec<Lit>,
}

pub fn case_of(d: &Document) -> Case {
    Case {
        doc: d.text.clone(),
        literals: d.literals.iter().map(|l| Lit { start: l.start, end: l.end, export_name: l.export_name.clone() }).collect(),
    }
}

/// Erase locations, semantic tokens and the raw literal text from a `{:?}` rendering.
pub fn normalise_debug(dbg: &str) -> String {
    let b: Vec<char> = dbg.chars().collect();
    let mut out = String::with_capacity(dbg.len());
    let mut i = 0;
    let starts_with = |i: usize, pat: &str| -> bool {
        let p: Vec<char> = pat.chars().collect();
        i + p.len() <= b.len() && b[i..i + p.len()] == p[..]
    };
    // skip a balanced group starting at b[i] (an opening bracket), string-literal aware
    let skip_group = |mut i: usize| -> usize {
        let mut depth = 0i32;
        loop {
            if i >= b.len() {
                return i;
            }
            match b[i] {
                '"' => {
                    i += 1;
                    while i < b.len() && b[i] != '"' {
                        if b[i] == '\\' {
                            i += 1;
                        }
                        i += 1;
                    }
                }
                '(' | '[' | '{' => depth += 1,
                ')' | ']' | '}' => {
                    depth -= 1;
                    if depth == 0 {
                        return i + 1;
                    }
                }
                _ => {}
            }
            i += 1;
        }
    };
    while i < b.len() {
        if b[i] == '"' {
            // copy a string literal verbatim
            out.push('"');
            i += 1;
            while i < b.len() && b[i] != '"' {
                if b[i] == '\\' && i + 1 < b.len() {
                    out.push(b[i]);
                    i += 1;
                }
                out.push(b[i]);
                i += 1;
            }
            out.push('"');
            i += 1;
        } else if starts_with(i, "semantic_tokens: [") {
            i = skip_group(i + "semantic_tokens: ".len());
            out.push_str("semantic_tokens: _");
        } else if starts_with(i, "iso_literal_text: IsoLiteralText(") {
            i = skip_group(i + "iso_literal_text: IsoLiteralText".len());
            out.push_str("iso_literal_text: _");
        } else if starts_with(i, "Span {") {
            i = skip_group(i + "Span ".len());
            out.push_str("Span");
        } else {
            out.push(b[i]);
            i += 1;
        }
    }
    out
}

fn parse_as_db(text: &str, export_name: &Option<String>) -> Result<String, String> {
    let file = crate::parse::FILE.intern().into();
    match parse_iso_literal(text.to_string(), file, export_name.clone(), TextSource { relative_path_to_source_file: file, span: None }) {
        Ok(d) => Ok(normalise_debug(&format!("{d:?}"))),
        Err(e) => Err(e.0.message.clone()),
    }
}

fn format_doc(env: &mut lspenv::Env, doc: &str) -> Result<Vec<TextEdit>, Fail> {
    env.open(doc);
    let params = DocumentFormattingParams {
        text_document: TextDocumentIdentifier { uri: env.uri.clone() },
        options: FormattingOptions { tab_size: 2, insert_spaces: true, ..Default::default() },
        work_done_progress_params: Default::default(),
    };
    match vcore::catch_panic(|| on_format(&env.state, params)) {
        Ok(Ok(Some(edits))) => Ok(edits),
        Ok(Ok(None)) => Err(Fail::new("format:no-result", "on_format returned None for an open project file")),
        Ok(Err(e)) => Err(Fail::new("format:error", format!("on_format returned an error: {e:?}"))),
        Err(p) => Err(Fail::new(panic_signature(&p), format!("on_format panicked: {p}"))),
    }
}

/// Apply edits as an LSP client does.
fn apply_edits(doc: &str, edits: &[TextEdit]) -> Result<String, String> {
    let mut ranges = vec![];
    for e in edits {
        let s = lsp_position_to_offset(doc, e.range.start.line, e.range.start.character)?;
        let t = lsp_position_to_offset(doc, e.range.end.line, e.range.end.character)?;
        if s > t {
            return Err(format!("edit range {:?} is inverted", e.range));
        }
        ranges.push((s, t, &e.new_text));
    }
    ranges.sort_by_key(|r| (r.0, r.1));
    for w in ranges.windows(2) {
        if w[0].1 > w[1].0 {
            return Err("edits overlap".to_string());
        }
    }
    let mut out = String::new();
    let mut at = 0;
    for (s, t, text) in ranges {
        out.push_str(&doc[at..s]);
        out.push_str(text);
        at = t;
    }
    out.push_str(&doc[at..]);
    Ok(out)
}

pub struct Stats {
    pub accepted: usize,
    pub changed: usize,
    pub nonascii_before_on_line: bool,
}

pub fn check(c: &Case) -> Result<Stats, Fail> {
    lspenv::with_env(|env| check_in(env, c))
}

fn line_prefix_nonascii(doc: &str, offset: usize) -> bool {
    let ls = doc[..offset].rfind('\n').map(|i| i + 1).unwrap_or(0);
    !doc[ls..offset].is_ascii()
}

fn check_in(env: &mut lspenv::Env, c: &Case) -> Result<Stats, Fail> {
    let doc = &c.doc;
    // which literals does the parser accept, and what do they mean?
    let mut accepted: Vec<(&Lit, String)> = vec![];
    for l in &c.literals {
        if let Ok(norm) = parse_as_db(&doc[l.start..l.end], &l.export_name) {
            accepted.push((l, norm));
        }
    }
    let edits = format_doc(env, doc)?;
    if edits.len() != accepted.len() {
        return Err(Fail::new(
            "format:edit-count",
            format!("{} literals are accepted by the parser but on_format returned {} edits\ndoc: {doc:?}", accepted.len(), edits.len()),
        ));
    }
    let nonascii = accepted.iter().any(|(l, _)| line_prefix_nonascii(doc, l.start) || line_prefix_nonascii(doc, l.end));
    // expected document from the generator's byte ranges
    let mut expected = String::new();
    let mut new_ranges = vec![];
    let mut at = 0;
    for ((l, _), e) in accepted.iter().zip(&edits) {
        expected.push_str(&doc[at..l.start]);
        let s = expected.len();
        expected.push_str(&e.new_text);
        new_ranges.push((s, expected.len()));
        at = l.end;
    }
    expected.push_str(&doc[at..]);
    let suffix = if nonascii { "non-ascii-on-line" } else { "ascii" };
    match apply_edits(doc, &edits) {
        Ok(applied) if applied == expected => {}
        other => {
            let mut detail = String::new();
            for ((l, _), e) in accepted.iter().zip(&edits) {
                let (sl, sc) = offset_to_lsp_position(doc, l.start);
                let (el, ec) = offset_to_lsp_position(doc, l.end);
                detail.push_str(&format!(
                    "literal bytes {}..{} = LSP {}:{}-{}:{}, edit range {}:{}-{}:{}\n",
                    l.start, l.end, sl, sc, el, ec, e.range.start.line, e.range.start.character, e.range.end.line, e.range.end.character
                ));
            }
            let why = match other {
                Err(e) => e,
                Ok(_) => "the edited document differs from the document with exactly the literal texts replaced".to_string(),
            };
            return Err(Fail::new(format!("edit-range:{suffix}"), format!("{why}\n{detail}doc: {doc:?}")));
        }
    }
    // meaning
    let mut changed = 0;
    for (((l, norm), e), (ns, ne)) in accepted.iter().zip(&edits).zip(&new_ranges) {
        let old_text = &doc[l.start..l.end];
        if old_text != e.new_text {
            changed += 1;
        }
        debug_assert_eq!(&expected[*ns..*ne], e.new_text);
        match parse_as_db(&e.new_text, &l.export_name) {
            Ok(n2) if &n2 == norm => {}
            Ok(n2) => {
                return Err(Fail::new(
                    "meaning:declaration-differs",
                    format!("formatted literal denotes a different declaration\noriginal: {old_text:?}\nformatted: {:?}\nbefore: {norm}\nafter:  {n2}", e.new_text),
                ))
            }
            Err(m) => {
                return Err(Fail::new(
                    "meaning:formatted-text-rejected",
                    format!("formatted literal is rejected by the parser: {m}\noriginal: {old_text:?}\nformatted: {:?}", e.new_text),
                ))
            }
        }
    }
    // idempotence, on the expected document (so a range defect is not reported twice)
    let edits2 = format_doc(env, &expected)?;
    if edits2.len() != edits.len() {
        return Err(Fail::new("idempotence:edit-count", format!("second formatting returned {} edits, first {}\ndoc: {expected:?}", edits2.len(), edits.len())));
    }
    for (e1, e2) in edits.iter().zip(&edits2) {
        if e1.new_text != e2.new_text {
            return Err(Fail::new(
                "idempotence:text-changes",
                format!("formatting the formatted literal changes it again\nfirst:  {:?}\nsecond: {:?}", e1.new_text, e2.new_text),
            ));
        }
    }
    Ok(Stats { accepted: accepted.len(), changed, nonascii_before_on_line: nonascii })
}

pub fn to_json(c: &Case) -> Value {
    json!({"doc": c.doc, "literals": c.literals.iter().map(|l| json!({"start": l.start, "end": l.end, "export_name": l.export_name})).collect::<Vec<_>>()})
}

pub fn from_json(v: &Value) -> Case {
    Case {
        doc: v["doc"].as_str().unwrap_or_default().to_string(),
        literals: v["literals"]
            .as_array()
            .map(|a| {
                a.iter()
                    .map(|l| Lit {
                        start: l["start"].as_u64().unwrap_or(0) as usize,
                        end: l["end"].as_u64().unwrap_or(0) as usize,
                        export_name: l["export_name"].as_str().map(|s| s.to_string()),
                    })
                    .collect()
            })
            .unwrap_or_default(),
    }
}

pub fn run(args: &Args) {
    let report = Report::new(
        args,
        "exploration",
        "G-ISO documents with 1-3 literals in random layouts, non-ASCII/astral noise around them, LF/CRLF; non-trivial = \
         some accepted literal has arguments, directives or nested selections and formatting changes its text; distinct by document",
    );
    report.engine("pbt");
    report.assumption("edits are applied as the LSP specification says: UTF-16 columns, a column past the line end means the line end");
    if let Some(path) = &args.replay {
        let v = vcore::read_replay(path);
        let c = from_json(&v["input"]);
        report.case(Some(c.doc.as_str()), &["replay"]);
        report.case(Some("replay-marker"), &[]);
        if let Err(f) = check(&c) {
            report.violation("replay", &f, to_json(&c));
        }
        report.finish();
    }
    report.run_regressions(|input| check(&from_json(input)).map(|_| ()));
    let params = Params::default();
    crate::drive_parallel(
        &report,
        "format",
        args.tier.pick(4_000, 150_000),
        || {
            let p = params.clone();
            let lit = gen_iso::printed(&p).prop_map(|(l, _, pr)| (l.has_arguments() || l.has_directives() || l.has_nested_selections(), pr));
            gen_iso::document_with_meta(lit, 1..4)
        },
        |(d, rich)| {
            let c = case_of(d);
            let st = check(&c)?;
            let mut labels = vec![];
            if st.nonascii_before_on_line {
                labels.push("non-ascii-before-literal-boundary-on-its-line");
            }
            if d.literals.len() > 1 {
                labels.push("several-literals");
            }
            if d.text.contains("\r\n") {
                labels.push("crlf");
            }
            if st.changed > 0 {
                labels.push("layout-not-canonical");
            }
            if st.accepted < d.literals.len() {
                labels.push("some-literal-rejected-by-parser");
            }
            let nontrivial = st.changed > 0 && rich.iter().any(|r| *r);
            report.case(if nontrivial { Some(d.text.as_str()) } else { None }, &labels);
            report.label_n("literals-accepted", st.accepted as u64);
            report.label_n("literals-generated", d.literals.len() as u64);
            crate::sample(&report, if st.nonascii_before_on_line { "non-ascii-on-line" } else { "plain" }, 2, || to_json(&c));
            Ok(())
        },
        |(d, _)| to_json(&case_of(d)),
    );
    report.finish();
}
use proptest::prelude::*;
